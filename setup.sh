#!/bin/bash
# Offline setup: build the harness once (warms the Go build cache) and parse every specification.
set -e
cd "$(dirname "$0")"
export GOFLAGS=-mod=mod GOPROXY=off GOSUMDB=off GOTOOLCHAIN=local
mkdir -p bin evidence replays
cp /repo/go.sum harness/go.sum
(cd harness && go build -tags verif -o ../bin/dstv.setup . && rm -f ../bin/dstv.setup)
for f in spec/*.tla; do
  (cd spec && java -cp /opt/veriftools/tla/tla2tools.jar:/opt/veriftools/tla/CommunityModules-deps.jar tla2sany.SANY "$(basename "$f")" > /tmp/sany.$$ 2>&1) || { cat /tmp/sany.$$; rm -f /tmp/sany.$$; echo "SANY failed on $f"; exit 1; }
done
rm -f /tmp/sany.$$
echo setup ok
