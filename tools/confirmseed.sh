#!/bin/bash
# confirmseed.sh <srcdir> <name> "<checks>": confirms an agent-written change in a scratch worktree
# (demo passes without, fails with; baseline tests still pass with it), runs the listed checks
# against it on /repo, and archives it under /verif/seeded/<name>/.
SRC=$1; NAME=$2; CHECKS=$3
export GOFLAGS=-mod=mod GOPROXY=off GOSUMDB=off GOTOOLCHAIN=local
WT=/tmp/wt/confirm-$NAME
git -C /repo worktree remove --force $WT 2>/dev/null
git -C /repo worktree add -q --detach $WT HEAD || exit 2
DEMO=$(cat $SRC/DEMO_PATH.txt | tr -d '\n ')
DEMOFILE=$(ls $SRC/*_test.go | head -1)
cp $DEMOFILE $WT/$DEMO
PKG=./$(dirname $DEMO)
cd $WT
go test -vet=off -count=1 -run 'Seeded|seeded|Demo' $PKG > /tmp/confirm-$NAME.without 2>&1; W0=$?
git apply $SRC/patch.diff || { echo "patch does not apply"; exit 2; }
go build ./... || { echo "does not build"; exit 2; }
go test -vet=off -count=1 -run 'Seeded|seeded|Demo' $PKG > /tmp/confirm-$NAME.with 2>&1; W1=$?
rm -f $WT/$DEMO
# existing tests with the change
go test -mod=mod -json -vet=off -count=1 ./... 2>/dev/null | python3 -c "
import json,sys,fnmatch
passed=set()
for line in sys.stdin:
    try: e=json.loads(line)
    except Exception: continue
    if e.get('Action')=='pass' and e.get('Test'): passed.add(e['Package']+'::'+e['Test'])
base=json.load(open('/root/.vp/BASELINE.json'))['stable_pass']
missing=[t for t in base if not (t in passed or ('/*' in t and any(fnmatch.fnmatch(x,t) for x in passed)))]
print('baseline with change: %d/%d pass' % (len(base)-len(missing), len(base)))
sys.exit(1 if missing else 0)
"; B=$?
echo "demo without change: exit $W0 (want 0); with change: exit $W1 (want non-zero); baseline exit $B (want 0)"
if [ $W0 -ne 0 ] || [ $W1 -eq 0 ] || [ $B -ne 0 ]; then echo "NOT CONFIRMED"; cd /; git -C /repo worktree remove --force $WT; exit 1; fi
# run the checks against the scratch worktree (the change is applied there; /repo stays untouched).
# each check gets its own evidence/replay area so that /verif's committed evidence is not disturbed.
# the checks run from a snapshot of /verif's committed HEAD, so that edits in progress in /verif cannot
# leak into the verdict
SNAP=/tmp/verif-snap-$NAME
rm -rf $SNAP; mkdir -p $SNAP; git -C /verif archive HEAD | tar -x -C $SNAP
CAUGHT=""
for c in $CHECKS; do
  OUT=$(cd $SNAP && VERIF_REPO=$WT VERIF_EVIDENCE_DIR=/tmp/seed-evidence-$NAME ./check $c 2>&1); RC=$?
  echo "$OUT" | grep -E "^VIOLATION|violations=|^INFRA" | cut -c1-160 | head -3
  if [ $RC -eq 1 ]; then CAUGHT="$CAUGHT $c"; fi
done
rm -rf /tmp/seed-evidence-$NAME $SNAP
cd /; git -C /repo worktree remove --force $WT
mkdir -p /verif/seeded/$NAME
cp $SRC/patch.diff /verif/seeded/$NAME/patch.diff
cp $DEMOFILE /verif/seeded/$NAME/$(basename $DEMOFILE).txt
python3 - "$SRC" "$NAME" "$CHECKS" "$CAUGHT" "$DEMO" <<'PY'
import json,sys
src,name,checks,caught,demo=sys.argv[1:6]
try: m=json.load(open(src+'/meta.json'))
except Exception: m={}
m['demo_path']=demo
m['confirmed']='scratch worktree of /repo HEAD: demo passes without the change, fails with it; the 109 baseline tests still pass with it'
m['checks_run']=checks.split()
m['caught_by']=caught.split()
json.dump(m,open('/verif/seeded/%s/meta.json'%name,'w'),indent=1)
print('archived', name, 'caught by', caught or 'NOTHING')
PY
