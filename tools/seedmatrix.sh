#!/bin/bash
# seedmatrix.sh [names...]: re-runs, for every archived seeded change, the check of its own property and the
# checks that caught it before, against a scratch worktree of /repo HEAD with the change applied;
# writes "caught_by" (current) into meta.json, keeping the first result as "caught_by_when_first_tried".
cd /verif
NAMES=${@:-$(ls seeded)}
# the checks run from a snapshot of the committed /verif (edits in progress do not leak into the result)
SNAP=/tmp/verif-snap-matrix-$$
rm -rf $SNAP; mkdir -p $SNAP; git -C /verif archive HEAD | tar -x -C $SNAP
trap 'rm -rf $SNAP' EXIT
for NAME in $NAMES; do
  OWN=${NAME%%-*}
  PREV=$(python3 -c "import json;m=json.load(open('seeded/$NAME/meta.json'));print(' '.join(m.get('caught_by',[])))")
  CHECKS=$(echo "$OWN $PREV" | tr ' ' '\n' | sort -u | tr '\n' ' ')
  WT=/tmp/wt/mx-$NAME
  git -C /repo worktree remove --force $WT 2>/dev/null
  git -C /repo worktree add -q --detach $WT HEAD || exit 2
  if ! (cd $WT && git apply /verif/seeded/$NAME/patch.diff 2>/dev/null); then
    echo "$NAME: patch does not apply to /repo HEAD"; git -C /repo worktree remove --force $WT; continue
  fi
  CAUGHT=""
  for c in $CHECKS; do
    (cd $SNAP && VERIF_REPO=$WT VERIF_EVIDENCE_DIR=/tmp/mx-ev-$NAME ./check $c) > /tmp/mx-$NAME-$c.log 2>&1; RC=$?
    if [ $RC -eq 1 ]; then CAUGHT="$CAUGHT $c"; fi
    if [ $RC -ge 2 ]; then echo "$NAME: check $c exit $RC"; fi
  done
  rm -rf /tmp/mx-ev-$NAME
  git -C /repo worktree remove --force $WT
  python3 - "$NAME" "$CAUGHT" <<'PY'
import json,sys
name,caught=sys.argv[1],sys.argv[2].split()
p='/verif/seeded/%s/meta.json'%name
m=json.load(open(p))
if 'caught_by_when_first_tried' not in m:
    m['caught_by_when_first_tried']=m.get('caught_by',[])
m['caught_by']=caught
json.dump(m,open(p,'w'),indent=1)
print(name,'own check catches:', name.split('-')[0] in caught, 'all:',caught)
PY
done
