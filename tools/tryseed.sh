#!/bin/bash
# tryseed.sh <id> [checks...]: applies /tmp/seeded/<id>/patch.diff to /repo, runs the given checks (default: the id), reverts.
ID=$1; shift
CHECKS=${@:-$ID}
P=${SEED_DIR:-/tmp/seeded}/$ID/patch.diff
cd /repo || exit 2
git status --short | grep -q . && { echo "/repo not clean"; exit 2; }
git apply "$P" || { echo "patch does not apply"; exit 2; }
for c in $CHECKS; do
  echo "== $c on seeded $ID"
  (cd /verif && ./check $c 2>&1 | grep -E "^VIOLATION|^KNOWN|violations=|^INFRA" | cut -c1-200 | head -6)
done
git checkout -- . ; git status --short
