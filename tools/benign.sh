#!/bin/bash
# benign.sh <srcdir> <name>: a change that keeps every property (written by a helper that saw only the
# property texts) is applied in a scratch worktree of /repo HEAD; the 109 baseline tests and every check
# (quick tier, from a snapshot of the committed /verif) run against it. Any VIOLATION is a false alarm
# candidate to be examined by hand. Archives patch, meta and the verdicts under /verif/benign/<name>/.
SRC=$1; NAME=$2; CHECKS=${3:-"C01 C02 C03 C04 C05 C06 C07 C08 C09 C10 C11 C12 C13 C14 C15 C16 C17 C18 C19 C20"}
export GOFLAGS=-mod=mod GOPROXY=off GOSUMDB=off GOTOOLCHAIN=local
WT=/tmp/wt/benign-$NAME
git -C /repo worktree remove --force $WT 2>/dev/null
git -C /repo worktree add -q --detach $WT HEAD || exit 2
cd $WT
git apply $SRC/patch.diff || { echo "patch does not apply"; cd /; git -C /repo worktree remove --force $WT; exit 2; }
go build ./... && go build -tags verif ./... || { echo "does not build"; cd /; git -C /repo worktree remove --force $WT; exit 2; }
go test -mod=mod -json -vet=off -count=1 ./... 2>/dev/null | python3 -c "
import json,sys,fnmatch
passed=set()
for line in sys.stdin:
    try: e=json.loads(line)
    except Exception: continue
    if e.get('Action')=='pass' and e.get('Test'): passed.add(e['Package']+'::'+e['Test'])
base=json.load(open('/root/.vp/BASELINE.json'))['stable_pass']
missing=[t for t in base if not (t in passed or ('/*' in t and any(fnmatch.fnmatch(x,t) for x in passed)))]
print('baseline with change: %d/%d pass' % (len(base)-len(missing), len(base)), missing[:5])
"
SNAP=/tmp/verif-snap-$NAME
rm -rf $SNAP; mkdir -p $SNAP; git -C /verif archive HEAD | tar -x -C $SNAP
RES=""
for c in $CHECKS; do
  OUT=$(cd $SNAP && VERIF_REPO=$WT VERIF_EVIDENCE_DIR=/tmp/benign-evidence-$NAME ./check $c 2>&1); RC=$?
  echo "$c exit=$RC $(echo "$OUT" | grep -E "violations=" | cut -c1-160)"
  if [ $RC -ne 0 ]; then
    echo "$OUT" | grep -E "^VIOLATION|^INFRA" | head -5
    mkdir -p /tmp/benign-fail-$NAME; cp $SNAP/replays/$c-* /tmp/benign-fail-$NAME/ 2>/dev/null
    echo "$OUT" > /tmp/benign-fail-$NAME/$c.out
  fi
  RES="$RES $c=$RC"
done
rm -rf /tmp/benign-evidence-$NAME $SNAP
cd /; git -C /repo worktree remove --force $WT
mkdir -p /verif/benign/$NAME
cp $SRC/patch.diff /verif/benign/$NAME/patch.diff
python3 - "$SRC" "$NAME" "$RES" <<'PY'
import json,sys
src,name,res=sys.argv[1:4]
try: m=json.load(open(src+'/meta.json'))
except Exception: m={}
m['check_exit_codes']={x.split('=')[0]:int(x.split('=')[1]) for x in res.split()}
json.dump(m,open('/verif/benign/%s/meta.json'%name,'w'),indent=1)
print('archived',name,res)
PY
