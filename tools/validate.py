#!/opt/veriftools/pyvenv/bin/python3
import json, jsonschema, sys, glob
jsonschema.validate(json.load(open('/verif/MANIFEST.json')), json.load(open('/root/.vp/MANIFEST.schema.json')))
es = json.load(open('/root/.vp/EVIDENCE.schema.json'))
m = json.load(open('/verif/MANIFEST.json'))
for c in m['checks']:
    try:
        jsonschema.validate(json.load(open(c['evidence_file'])), es)
    except Exception as e:
        print('EVIDENCE INVALID', c['property_id'], str(e)[:300])
print('manifest valid;', len(m['checks']), 'checks')
