#!/usr/bin/env python3
"""Runs the repository's baseline test command with the verif tag OFF and compares with BASELINE.json."""
import json, subprocess, sys, os
env = dict(os.environ, GOFLAGS='-mod=mod', GOPROXY='off', GOSUMDB='off', GOTOOLCHAIN='local')
p = subprocess.run('cd /repo && go test -mod=mod -json -vet=off -count=1 -timeout 25m ./...', shell=True, capture_output=True, text=True, env=env)
passed = set()
for line in p.stdout.splitlines():
    try: e = json.loads(line)
    except Exception: continue
    if e.get('Action') == 'pass' and e.get('Test'):
        passed.add(e['Package'] + '::' + e['Test'])
base = json.load(open('/root/.vp/BASELINE.json'))['stable_pass']
def norm(t):
    return t
missing = [t for t in base if t not in passed and '/*' not in t]
# wildcard entries like TestRewrite/*/delete
import fnmatch
for t in base:
    if '/*' in t and not any(fnmatch.fnmatch(x, t) for x in passed):
        missing.append(t)
print('baseline tests passing: %d of %d' % (len(base) - len(missing), len(base)))
for m in missing: print('MISSING', m)
sys.exit(1 if missing else 0)
