#!/bin/bash
# tryseedwt.sh <seeded-name> [checks...]: applies /verif/seeded/<name>/patch.diff in a scratch worktree of /repo HEAD,
# runs the given checks (default: the property of the name) against it with VERIF_REPO, removes the worktree.
NAME=$1; shift
CHECKS=${@:-${NAME%%-*}}
WT=/tmp/wt/try-$NAME-$$
git -C /repo worktree add -q --detach $WT HEAD || exit 2
P=/verif/seeded/$NAME/patch.diff; [ -f $P ] || P=/verif/benign/$NAME/patch.diff; (cd $WT && git apply $P) || { echo "patch does not apply"; git -C /repo worktree remove --force $WT; exit 2; }
for c in $CHECKS; do
  echo "== $c on seeded $NAME"
  (cd /verif && VERIF_PART=$VERIF_PART VERIF_REPO=$WT VERIF_EVIDENCE_DIR=/tmp/try-evidence-$NAME-$$ ./check $c $TIER 2>&1 | grep -E "^VIOLATION|violations=|^INFRA" | cut -c1-220 | head -6)
done
rm -rf /tmp/try-evidence-$NAME-$$
git -C /repo worktree remove --force $WT
