#!/bin/bash
# refix.sh: for every repair recorded under "fixed" in KNOWN_FINDINGS.json, take /repo HEAD without that
# commit (git revert in a scratch worktree) and run the check of the property: it must report the
# violation again.
cd /verif
python3 - <<'PY' > /tmp/refix.list
import json,re
k=json.load(open('/verif/KNOWN_FINDINGS.json'))
for e in k['fixed']:
    m=re.match(r'fixed: property=(C\d+) ([0-9a-f]+) ',e)
    print(m.group(1),m.group(2))
PY
while read P H; do
  WT=/tmp/wt/refix-$H
  git -C /repo worktree remove --force $WT 2>/dev/null
  git -C /repo worktree add -q --detach $WT HEAD || exit 2
  if ! (cd $WT && git revert -n $H >/dev/null 2>&1); then echo "$P $H: revert conflicts with later commits (not tried)"; git -C /repo worktree remove --force $WT; continue; fi
  if ! (cd $WT && GOFLAGS=-mod=mod GOPROXY=off GOSUMDB=off GOTOOLCHAIN=local go build ./... >/dev/null 2>&1); then echo "$P $H: does not build without the commit"; git -C /repo worktree remove --force $WT; continue; fi
  VERIF_REPO=$WT VERIF_EVIDENCE_DIR=/tmp/refix-ev-$H ./check $P > /tmp/refix-$H.log 2>&1; RC=$?
  echo "$P $H: check exit $RC ($(grep -c '^VIOLATION' /tmp/refix-$H.log) violation lines)"
  rm -rf /tmp/refix-ev-$H
  git -C /repo worktree remove --force $WT
done < /tmp/refix.list
