#!/usr/bin/env python3
"""Writes MANIFEST.json from the table below (one entry per claimed property)."""
import json, os
root = os.path.dirname(os.path.dirname(os.path.abspath(__file__)))
props = [json.loads(l) for l in open(os.path.join(root, 'properties.jsonl'))]
ids = [p['id'] for p in props]

CLAIMS = json.load(open(os.path.join(root, 'tools', 'claims.json')))

checks = []
for pid in ids:
    if pid not in CLAIMS: continue
    c = CLAIMS[pid]
    checks.append({
        "property_id": pid,
        "quick_cmd": f"./check {pid} --tier quick",
        "thorough_cmd": f"./check {pid} --tier thorough",
        "evidence_file": f"/verif/evidence/{pid}.json",
        "replay_cmd_template": "./check replay {path}",
        "engine": c["engine"],
        "level_claimed": {"category": c["level"], "text": c["text"], "design_ref": c.get("design_ref", "DESIGN.md §6 " + pid)},
        "level_note": c["note"],
        "technique": c["technique"],
    })
na = [{"property_id": pid, "reason": "check not built yet in this round (work in progress; see DESIGN.md §11)"} for pid in ids if pid not in CLAIMS]
engines = {}
for pid, c in CLAIMS.items():
    engines.setdefault(c["engine"], []).append(pid)
m = {
    "version": 1,
    "setup_cmd": "./setup.sh",
    "hooks": {
        "guard": "verif",
        "enable": "go build -tags verif (the ./check script builds the harness against /repo with -tags verif)",
        "baseline_off_cmd": "cd /repo && go test -mod=mod -json -vet=off -count=1 -timeout 25m ./...",
        "source_commits": json.load(open(os.path.join(root, 'tools', 'hook_commits.json'))),
        "add_only": True,
    },
    "engines": [{"name": e, "path": "/verif/spec/" + e + ".tla", "serves_properties": sorted(v), "kind_free_text": "TLA+ module checked with TLC; bound to the code by the Go harness in /verif/harness"} for e, v in sorted(engines.items())],
    "checks": checks,
    "notes": "Every check: ./check <id> --tier quick|thorough rebuilds /verif/harness against /repo's working tree with -tags verif, runs TLC on the property's module(s) in a scratch directory, replays TLC behaviours into the real code and/or validates traces recorded from the real code, and writes evidence/<id>.json. Exit 0 held / 1 VIOLATION / 2 infrastructure problem (no verdict).",
    "not_applicable": na,
}
json.dump(m, open(os.path.join(root, 'MANIFEST.json'), 'w'), indent=1)
print("claimed", len(checks), "not claimed", len(na))
