package main

import (
	"fmt"
	"go/ast"
	"go/parser"
	"go/token"
	"go/types"
	"sort"
	"strings"
)

// memPkg is an in-memory package: import path (as written in import specs), the package path the
// type checker reports (differs for vendored packages) and its files.
type memPkg struct {
	Import string
	Path   string
	Files  map[string]string
}

// universe type-checks in-memory packages with go/types and a map importer (no go/packages).
type universe struct {
	fset    *token.FileSet
	pkgs    map[string]*memPkg // by import path
	checked map[string]*types.Package
	infos   map[string]*types.Info
	files   map[string][]*ast.File
}

func newUniverse(pkgs ...*memPkg) *universe {
	u := &universe{fset: token.NewFileSet(), pkgs: map[string]*memPkg{}, checked: map[string]*types.Package{}, infos: map[string]*types.Info{}, files: map[string][]*ast.File{}}
	for _, p := range pkgs {
		u.pkgs[p.Import] = p
	}
	return u
}

func (u *universe) Import(path string) (*types.Package, error) {
	if p, ok := u.checked[path]; ok {
		return p, nil
	}
	if _, ok := u.pkgs[path]; !ok {
		return nil, fmt.Errorf("package %q not in the universe", path)
	}
	p, _, _, err := u.Check(path)
	return p, err
}

// Check parses and type-checks the package with the given import path.
func (u *universe) Check(imp string) (*types.Package, *types.Info, []*ast.File, error) {
	mp := u.pkgs[imp]
	if mp == nil {
		return nil, nil, nil, fmt.Errorf("no package %q", imp)
	}
	if p, ok := u.checked[imp]; ok {
		return p, u.infos[imp], u.files[imp], nil
	}
	var names []string
	for n := range mp.Files {
		names = append(names, n)
	}
	sort.Strings(names)
	var files []*ast.File
	for _, n := range names {
		f, err := parser.ParseFile(u.fset, mp.Path+"/"+n, mp.Files[n], parser.ParseComments)
		if err != nil {
			return nil, nil, nil, err
		}
		files = append(files, f)
	}
	info := &types.Info{Uses: map[*ast.Ident]types.Object{}, Defs: map[*ast.Ident]types.Object{}, Selections: map[*ast.SelectorExpr]*types.Selection{}, Types: map[ast.Expr]types.TypeAndValue{}}
	var errs []string
	conf := types.Config{Importer: u, FakeImportC: true, Error: func(err error) { errs = append(errs, err.Error()) }}
	path := mp.Path
	if path == "" {
		path = imp
	}
	pkg, _ := conf.Check(path, u.fset, files, info)
	if len(errs) > 0 {
		return pkg, info, files, fmt.Errorf("type errors in %s: %s", imp, strings.Join(errs, "; "))
	}
	u.checked[imp] = pkg
	u.infos[imp] = info
	u.files[imp] = files
	return pkg, info, files, nil
}

// packageNames returns import path -> package name for the whole universe (an accurate name resolver).
func (u *universe) packageNames() map[string]string {
	out := map[string]string{}
	for imp, mp := range u.pkgs {
		for _, src := range mp.Files {
			f, err := parser.ParseFile(token.NewFileSet(), "", src, parser.PackageClauseOnly)
			if err == nil {
				out[imp] = f.Name.Name
				// the resolver is asked with vendor prefixes stripped
				out[stripVendorPath(mp.Path)] = f.Name.Name
			}
			break
		}
	}
	return out
}

func stripVendorPath(p string) string {
	if i := strings.LastIndex(p, "/vendor/"); i >= 0 {
		return p[i+len("/vendor/"):]
	}
	return strings.TrimPrefix(p, "vendor/")
}
