package main

import (
	"bytes"
	"encoding/json"
	"fmt"
	"math/rand"
	"strings"
	"time"
)

// selftest demonstrates that the specifications are bound to the code: a recorded trace of the real
// code is accepted by TLC, and the same trace with one field corrupted, one event dropped or two
// events swapped is rejected. It is not part of any verdict.
func selftest(args []string) int {
	c := newCtx("SELFTEST", "quick", 1, "other")
	type caseT struct {
		name    string
		module  string
		cfg     string
		extra   map[string][]byte
		record  func() []byte
		corrupt []func(tr []byte) ([]byte, string)
	}
	lines := func(b []byte) [][]byte { return bytes.Split(bytes.TrimRight(b, "\n"), []byte("\n")) }
	join := func(ls [][]byte) []byte { return append(bytes.Join(ls, []byte("\n")), '\n') }
	src, _ := templateSrc()
	cases := []caseT{
		{name: "Walk visitor log", module: "WalkTrace", cfg: walkTraceCfg,
			record: func() []byte {
				tr, _ := c13Record(c, srcFile{"selftest.go", []byte("package p\n\nfunc f(a int) int {\n\tif a > 0 {\n\t\treturn a\n\t}\n\treturn g(a, 1)\n}\n")}, rand.New(rand.NewSource(1)))
				return tr.Bytes()
			},
			corrupt: []func([]byte) ([]byte, string){
				func(tr []byte) ([]byte, string) { // swap two visit events
					ls := lines(tr)
					for i := 1; i+1 < len(ls); i++ {
						if bytes.Contains(ls[i], []byte(`"visit"`)) && bytes.Contains(ls[i+1], []byte(`"visit"`)) {
							ls[i], ls[i+1] = ls[i+1], ls[i]
							break
						}
					}
					return join(ls), "two visit events swapped"
				},
				func(tr []byte) ([]byte, string) { // drop a nil event
					ls := lines(tr)
					for i := range ls {
						if bytes.Contains(ls[i], []byte(`"nil"`)) {
							ls = append(ls[:i], ls[i+1:]...)
							break
						}
					}
					return join(ls), "one Visit(nil) event dropped"
				},
			}},
		{name: "link() attachments", module: "LinkTrace", cfg: linkTraceCfg,
			record: func() []byte {
				it, _ := linkRecord(c, "SELFTEST", "package p\n\nfunc f() {\n\t// lead\n\ta() // trail\n\n\tb()\n}\n", 1<<30)
				return it.Trace
			},
			corrupt: []func([]byte) ([]byte, string){
				func(tr []byte) ([]byte, string) {
					return bytes.Replace(tr, []byte(`"name":"End","d":["// trail"]`), []byte(`"name":"Start","d":["// trail"]`), 1), "a trailing comment recorded at the Start point instead of End"
				},
				func(tr []byte) ([]byte, string) {
					return bytes.Replace(tr, []byte(`"b":2`), []byte(`"b":1`), 1), "an EmptyLine spacing recorded as NewLine"
				},
			}},
		{name: "spacing lines", module: "SpacingTraceMC", cfg: spacingTraceCfg, extra: map[string][]byte{"SpacingTraceMC.tla": []byte(spacingTraceMC)},
			record: func() []byte {
				es := []spElem{{1, 2, []string{}, []string{"L"}}, {1, 1, []string{}, []string{}}}
				ls, text, _ := spPrint(spKinds[0], es)
				b, _ := json.Marshal(obj{"kind": spKinds[0].Name, "elems": es, "lines": ls, "text": text, "keepLast": true, "expr": false})
				return append(b, '\n')
			},
			corrupt: []func([]byte) ([]byte, string){
				func(tr []byte) ([]byte, string) {
					return bytes.Replace(tr, []byte(`["e1","t1.1"],[],`), []byte(`["e1","t1.1"],`), 1), "the blank line removed from the observed lines"
				},
			}},
		{name: "import manager output", module: "ImportsTraceMC", cfg: importsConsts(false, true) + "INIT TInit\nNEXT TNext\nINVARIANTS EachOnce Exact Bound LocalsBare Distinct Precedence NoOpKept Conforms\nPOSTCONDITION Accepted\nCHECK_DEADLOCK FALSE\n",
			extra: map[string][]byte{"ImportsTraceMC.tla": []byte(importsTraceMC)},
			record: func() []byte {
				cf := impCfg{Src: map[string]string{"A/y": "", "C": "absent", "a/x": "", "b.io/x": "absent"}, Ov: map[string]string{"A/y": "unset", "C": "unset", "a/x": "unset", "b.io/x": "unset"}, Used: map[string]bool{"A/y": true, "a/x": true, "b.io/x": true}}
				o, _ := impRun(cf)
				b, _ := json.Marshal(obj{"src": pairs(cf.Src), "ov": pairs(cf.Ov), "used": []string{"A/y", "a/x", "b.io/x"}, "imports": o.Imports, "quals": o.Quals, "locals": o.Locals, "kept": o.Kept, "shape": 0})
				return append(b, '\n')
			},
			corrupt: []func([]byte) ([]byte, string){
				func(tr []byte) ([]byte, string) {
					return bytes.Replace(tr, []byte(`["b.io/x","x1"]`), []byte(`["b.io/x","x"]`), -1), "the generated alias x1 recorded as x (name clash)"
				},
			}},
		{name: "render positions", module: "RenderTrace", cfg: renderTraceCfg,
			record: func() []byte {
				ms, _ := miniFiles(src)
				it := c04Record(c, 3, ms[3], rand.New(rand.NewSource(1)), 6)
				return it.Trace
			},
			corrupt: []func([]byte) ([]byte, string){
				func(tr []byte) ([]byte, string) { // swap two position items of the first case that has a comment
					ls := lines(tr)
					for i := range ls {
						if !bytes.Contains(ls[i], []byte(`"ev":"case"`)) || !bytes.Contains(ls[i], []byte(`"k":"com"`)) {
							continue
						}
						var rec map[string]interface{}
						json.Unmarshal(ls[i], &rec)
						pi := rec["pitems"].([]interface{})
						for k := 0; k+1 < len(pi); k++ {
							if pi[k].(map[string]interface{})["k"] == "com" {
								pi[k], pi[k+1] = pi[k+1], pi[k]
								break
							}
						}
						ls[i], _ = json.Marshal(rec)
						break
					}
					return join(ls), "a comment recorded behind the token it precedes"
				},
			}},
	}
	fail := 0
	for _, cs := range cases {
		tr := cs.record()
		run := func(b []byte) *TLCResult {
			files := map[string][]byte{"trace.ndjson": b}
			for k, v := range cs.extra {
				files[k] = v
			}
			r, err := RunTLC(TLCRun{Module: cs.module, Cfg: cs.cfg, Workers: 1, Timeout: 5 * time.Minute, Files: files})
			if err != nil {
				fmt.Println("  TLC error:", err)
			}
			return r
		}
		ok := run(tr)
		if ok == nil || !ok.OK() {
			fmt.Printf("FAIL %-24s the unmodified trace is rejected: %s\n", cs.name, errText(ok, nil))
			fail++
			continue
		}
		fmt.Printf("ok   %-24s recorded trace accepted (%d events)\n", cs.name, ok.Distinct-1)
		for _, co := range cs.corrupt {
			b, what := co(tr)
			if bytes.Equal(b, tr) {
				fmt.Printf("FAIL %-24s corruption did not apply: %s\n", cs.name, what)
				fail++
				continue
			}
			r := run(b)
			if r == nil || r.OK() {
				fmt.Printf("FAIL %-24s corrupted trace ACCEPTED: %s\n", cs.name, what)
				fail++
			} else {
				why := r.Violated
				if why == "" {
					why = "no matching action"
				}
				fmt.Printf("ok   %-24s rejected (%s): %s\n", cs.name, why, what)
			}
		}
	}
	if fail > 0 {
		fmt.Printf("selftest: %d problems\n", fail)
		return 1
	}
	fmt.Println("selftest: every recorded trace is accepted and every corrupted one rejected")
	_ = strings.TrimSpace
	return 0
}
