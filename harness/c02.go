package main

import (
	"bytes"
	"encoding/json"
	"fmt"
	"go/parser"
	"go/token"
	"math/rand"
	"os"
	"path/filepath"
	"reflect"
	"regexp"
	"strings"
	"time"

	"github.com/dave/dst"
	"github.com/dave/dst/decorator"
	"github.com/dave/dst/decorator/resolver/goast"
	"github.com/dave/dst/decorator/resolver/simple"
)

func init() { register("C02", "model_checking", checkC02) }

type editOp struct {
	Op string `json:"op"`
	L  string `json:"l"`
	I  int    `json:"i"`
	J  int    `json:"j"`
	RA []int  `json:"ra"`
	RB []int  `json:"rb"`
}

func listEditCfg(n, edits, maxLen int, emit bool) string {
	s := fmt.Sprintf("CONSTANTS N = %d MaxEdits = %d MaxLen = %d EmitHist = %s\nINIT Init\nNEXT Next\nCHECK_DEADLOCK FALSE\nINVARIANTS Conserved OriginalsOnce", n, edits, maxLen, tlaBool(emit))
	if emit {
		s += " Emit"
	}
	return s + "\n"
}

func insertAt(v reflect.Value, i int, x reflect.Value) {
	v.Set(reflect.Append(v, reflect.Zero(v.Type().Elem())))
	reflect.Copy(v.Slice(i+1, v.Len()), v.Slice(i, v.Len()-1))
	v.Index(i).Set(x)
}

func removeAt(v reflect.Value, i int) reflect.Value {
	x := reflect.ValueOf(v.Index(i).Interface())
	reflect.Copy(v.Slice(i, v.Len()), v.Slice(i+1, v.Len()))
	v.SetLen(v.Len() - 1)
	return x
}

// c02Case: one layout and one edit history executed on the real tree.
func c02Case(t listTemplate, decs []chunk, blank bool, hist []editOp) (sig, what string, applicable bool) {
	n := len(decs) / 2
	mk := func(ids []int) []chunk {
		var out []chunk
		for _, id := range ids {
			c := decs[(id%100)-1]
			c.ID = id
			out = append(out, c)
		}
		return out
	}
	a0, b0 := []int{}, []int{}
	for i := 1; i <= n; i++ {
		a0 = append(a0, i)
		b0 = append(b0, n+i)
	}
	src := canonical(t.text(mk(a0), mk(b0), blank))
	if src == "" {
		return "", "", false
	}
	// every seventh source is generated code: a //line directive without a column stands in front of the
	// first declaration (positions adjusted by it have column 0 and another line; the decorator has to
	// work from the unadjusted ones)
	directive := func(s string) string { return s }
	if len(src)%7 == 3 && !strings.HasPrefix(t.Name, "File.Decls") { // (top-level declarations are the list there: the directive would be part of the first chunk)
		directive = func(s string) string { return strings.Replace(s, "\n\n", "\n\n//line gen.y:100\n", 1) }
		if d := canonical(directive(src)); d == directive(src) {
			src = d
		} else {
			directive = func(s string) string { return s }
		}
	}
	// every eleventh source has its lead comments in block style over two lines, and is printed a second
	// time through a Restorer whose file set already holds a file (the second file of a package)
	blockLeads := false
	if len(src)%11 == 4 && strings.Contains(src, "// lead ") {
		if b := canonical(blockLead(src)); b != "" && b == blockLead(src) {
			src, blockLeads = b, true
			inner := directive
			directive = func(s string) string {
				return inner(blockLead(s))
			}
		}
	}
	var f *dst.File
	var err error
	viaAst := false
	libNames := simple.New(map[string]string{"example.com/lib": "lib"})
	if t.Qualified {
		f, err = decorator.NewDecoratorWithImports(token.NewFileSet(), "example.com/p", goast.WithResolver(libNames)).Parse(src)
	} else if viaAst = len(src)%5 == 1 && !blank && !blockLeads && noHanging(decs); viaAst {
		// every fifth source goes through the library twice before it is edited: decorated, restored to
		// an *ast.File, and that file decorated again (lists separated by line breaks only, no comments
		// hanging at the end of a body: empty lines and comment columns do not survive the restorer's
		// position space)
		f, err = c02ViaRestoredAst(src)
	} else if len(src)%5 == 0 {
		// every fifth source is decorated as one file of a directory (ParseDir): the other files hold
		// raw strings and block comments that span the line numbers of the lists
		f, err = c02ParseInDir(src)
	} else {
		f, err = decorator.Parse(src)
	}
	if err != nil {
		return "", "", false
	}
	if len(src)%13 == 5 {
		// every thirteenth source in an equivalent hand-made representation: where the End decorations of a
		// clause start with a line break followed by a comment (the comment that hangs at the end of the body),
		// the line break is given as After spacing of the last statement instead
		dst.Inspect(f, func(n dst.Node) bool {
			var body []dst.Stmt
			var end *dst.Decorations
			switch x := n.(type) {
			case *dst.CaseClause:
				body, end = x.Body, &x.Decs.End
			case *dst.CommClause:
				body, end = x.Body, &x.Decs.End
			}
			if end != nil && len(body) > 0 && len(*end) >= 2 && (*end)[0] == "\n" && strings.HasPrefix((*end)[1], "//") {
				if last := body[len(body)-1].Decorations(); last.After == dst.None && len(last.End) == 0 {
					last.After = dst.NewLine
					end.Replace((*end)[1:]...)
				}
			}
			return true
		})
	}
	la, lb := t.Lists(f)
	if la.Len() != n || (lb.IsValid() && lb.Len() != n) {
		return "", "", false
	}
	get := func(l string) reflect.Value {
		if l == "a" {
			return la
		}
		return lb
	}
	var last editOp
	for _, op := range hist {
		if !lb.IsValid() && (op.L == "b" || op.Op == "move") {
			return "", "", false
		}
		last = op
		v := get(op.L)
		switch op.Op {
		case "swap":
			x, y := reflect.ValueOf(v.Index(op.I-1).Interface()), reflect.ValueOf(v.Index(op.J-1).Interface())
			v.Index(op.I - 1).Set(y)
			v.Index(op.J - 1).Set(x)
		case "delete":
			removeAt(v, op.I-1)
		case "dup":
			if strings.Contains(t.Name, "import") {
				return "", "", false // go/format drops duplicate imports itself
			}
			cl := dst.Clone(v.Index(op.I - 1).Interface().(dst.Node))
			insertAt(v, op.J-1, reflect.ValueOf(cl))
		case "move":
			other := "a"
			if op.L == "a" {
				other = "b"
			}
			x := removeAt(v, op.I-1)
			insertAt(get(other), op.J-1, x)
		}
	}
	var got, msg string
	if t.Qualified {
		var qb bytes.Buffer
		var qerr error
		msg = guard(func() {
			qerr = decorator.NewRestorerWithImports("example.com/p", libNames).Fprint(&qb, dst.Clone(f).(*dst.File))
		})
		if msg == "" && qerr != nil {
			msg = "error: " + qerr.Error()
		}
		got = qb.String()
	} else {
		got, msg = printFile(f)
	}
	if msg != "" {
		return "edit-print-fails", msg, true
	}
	rb := last.RB
	want := canonical(t.text(mk(last.RA), mk(rb), blank))
	if want == "" {
		return "", "", false
	}
	want = directive(want)
	// the same tree through a restorer that also restores objects and scopes (Extras)
	var xbuf bytes.Buffer
	var xerr error
	if msg := guard(func() {
		xr := decorator.NewRestorer()
		if t.Qualified {
			xr = decorator.NewRestorerWithImports("example.com/p", libNames)
		}
		xr.Extras = true
		xerr = xr.Fprint(&xbuf, f)
	}); msg != "" || xerr != nil {
		return "edit-print-fails", fmt.Sprintf("with Restorer.Extras: %s %v", msg, xerr), true
	}
	if xbuf.String() != got {
		return "list-edit-extras-text-differs", fmt.Sprintf("%s: after %s the tree prints\n%s\nbut with Restorer.Extras = true\n%s", t.Name, histString(hist), got, xbuf.String()), true
	}
	if blockLeads {
		var b2 bytes.Buffer
		var e2 error
		m2 := guard(func() {
			r2 := decorator.NewRestorer()
			if t.Qualified {
				r2 = decorator.NewRestorerWithImports("example.com/p", libNames)
			}
			r2.Fset = token.NewFileSet()
			r2.Fset.AddFile("first.go", -1, 3210)
			e2 = r2.Fprint(&b2, dst.Clone(f).(*dst.File))
		})
		if m2 != "" || e2 != nil {
			return "edit-print-fails", fmt.Sprintf("as the second file of a file set: %s %v", m2, e2), true
		}
		if b2.String() != got {
			return "list-edit-text-differs", fmt.Sprintf("%s: after %s the tree prints\n%s\nbut as the second file of a file set\n%s", t.Name, histString(hist), got, b2.String()), true
		}
	}
	if viaAst {
		// empty lines do not survive the restorer's position space (known, outside every property): the
		// comparison is about which comment stands with which element
		got, want = noBlankLines(got), noBlankLines(want)
	}
	if got != want {
		return "list-edit-text-differs", fmt.Sprintf("%s: after %s the tree prints\n%s\nbut the chunk-edited source formats to\n%s", t.Name, histString(hist), got, want), true
	}
	return "", "", true
}

// a lead comment of a chunk: "<indent>// lead k of eN"
var leadRe = regexp.MustCompile(`// lead (\d+) of e(\d+)`)

// blockLead rewrites the lead comments as block comments over two lines (the second line at the
// indentation of the first).
func blockLead(s string) string {
	lines := strings.Split(s, "\n")
	for i, l := range lines {
		if m := leadRe.FindStringIndex(l); m != nil && strings.TrimSpace(l[:m[0]]) == "" {
			lines[i] = l[:m[0]] + "/* " + strings.TrimPrefix(l[m[0]:], "// ") + "\n" + l[:m[0]] + "   continued */"
		}
	}
	return strings.Join(lines, "\n")
}

func histString(h []editOp) string {
	var s []string
	for _, o := range h {
		s = append(s, fmt.Sprintf("%s(%s,%d,%d)", o.Op, o.L, o.I, o.J))
	}
	return strings.Join(s, " ")
}

func checkC02(c *Ctx) {
	c.Assume("chunk = element + directly preceding comment lines + trailing same-line comment (+ comments inside its body); separators uniform; expected text = go/format of the chunk-edited source")
	n, edits := 3, 2
	if !c.Quick() {
		edits = 3
	}
	mc, err := RunTLC(TLCRun{Module: "ListEdit", Cfg: listEditCfg(n, edits+1, 5, false), Workers: 8, Timeout: 20 * time.Minute})
	if err != nil || !mc.OK() {
		c.Infra("TLC model check of ListEdit failed: " + errText(mc, err))
		return
	}
	c.TLC(mc)
	gen, err := RunTLC(TLCRun{Module: "ListEdit", Cfg: listEditCfg(n, edits, 4, true), Workers: 8, Timeout: 20 * time.Minute})
	if err != nil || !gen.OK() {
		c.Infra("TLC generation (ListEdit) failed: " + errText(gen, err))
		return
	}
	c.TLC(gen)
	var hists [][]editOp
	for _, s := range gen.Payloads("BEH ") {
		var h []editOp
		if json.Unmarshal([]byte(s), &h) != nil {
			c.Infra("bad history JSON")
			return
		}
		hists = append(hists, h)
	}
	c.Set("edit_histories", len(hists))
	c.Set("mc_bounds", fmt.Sprintf("two lists of %d chunks, all sequences of %d swap/delete/duplicate/move edits", n, edits))
	r := rand.New(rand.NewSource(c.Seed))
	type job struct {
		t     listTemplate
		decs  []chunk
		blank bool
		h     []editOp
	}
	var jobs []job
	perLayout := 25
	if !c.Quick() {
		perLayout = 400
	}
	for _, t := range append(append([]listTemplate{}, listTemplates...), qualifiedTemplates...) {
		if t.NotC02 {
			continue
		}
		opts := enumChunks(t, false)
		var assigns [][]chunk
		for _, o := range opts { // the same decoration on every chunk
			var d []chunk
			for i := 0; i < 2*n; i++ {
				d = append(d, o)
			}
			assigns = append(assigns, d)
		}
		for k := 0; k < len(opts); k++ { // mixed decorations
			var d []chunk
			for i := 0; i < 2*n; i++ {
				d = append(d, opts[r.Intn(len(opts))])
			}
			assigns = append(assigns, d)
		}
		for _, d := range assigns {
			for _, blank := range []bool{false, true} {
				if t.Blank && !blank {
					continue
				}
				// blank-line separation is only uniform (identical Before/After on every element)
				// where gofmt keeps the empty lines next to the delimiters: blocks and clause lists,
				// and top-level declarations (every declaration has an empty line before it)
				if blank && !(t.Name == "BlockStmt.List" || t.Name == "BlockStmt.List(mixed)" || t.Name == "BlockStmt.List(if)" || strings.HasSuffix(t.Name, "Cases") || strings.HasSuffix(t.Name, "Comms") || strings.HasPrefix(t.Name, "File.Decls")) {
					continue
				}
				for k := 0; k < perLayout; k++ {
					jobs = append(jobs, job{t, d, blank, hists[r.Intn(len(hists))]})
				}
			}
		}
	}
	var inapplicable int64
	parallel(len(jobs), func(i int) {
		j := jobs[i]
		key := fmt.Sprintf("%s|%v|%v|%s", j.t.Name, j.decs, j.blank, histString(j.h))
		if n := len(j.decs) / 2; j.t.Name == "CaseClause.Body" && n > 0 && (j.decs[n-1].Trail || j.decs[2*n-1].Trail) {
			// the last statement of a case body carries a trailing same-line comment (K7)
			key = "CaseClause.Body(last-trailing)" + strings.TrimPrefix(key, "CaseClause.Body")
		}
		sig, what, ok := "", "", false
		if msg := guard(func() { sig, what, ok = c02Case(j.t, j.decs, j.blank, j.h) }); msg != "" {
			sig, what, ok = "list-edit-panic", msg, true
		}
		if !ok {
			c.Add("inapplicable_cases", 1)
			_ = inapplicable
			return
		}
		nc := 0
		for _, d := range j.decs {
			nc += comments(d)
		}
		c.Eval(key, nc > 0)
		c.Traces(1)
		c.Add("cases|"+j.t.Name, 1)
		if sig != "" {
			c.Fail(Finding{Sig: sig, Input: key, What: truncate(what, 1200), Replay: obj{"kind": "c02", "template": j.t.Name, "decs": j.decs, "blank": j.blank, "hist": j.h}})
		}
		if i%5003 == 0 {
			c.Sample(obj{"list": j.t.Name, "chunks": j.decs, "blank_separated": j.blank, "edits": histString(j.h)})
		}
	})
	c02HandBuilt(c, hists)
	c.Set("list_kinds", len(listTemplates))
	c.Set("rule", "case = one commented sibling-list layout (13 list kinds, lead/trailing/hanging comments per chunk, uniform separators) x one TLC-generated edit history executed on the real slices (Clone for duplicates) and printed; non-trivial = the layout has comments; distinct by kind + layout + history")
}

func init() {
	replayers["c02"] = func(raw json.RawMessage) string {
		var r struct {
			Template string   `json:"template"`
			Decs     []chunk  `json:"decs"`
			Blank    bool     `json:"blank"`
			Hist     []editOp `json:"hist"`
		}
		json.Unmarshal(raw, &r)
		for _, t := range append(append([]listTemplate{}, listTemplates...), qualifiedTemplates...) {
			if t.Name == r.Template {
				_, what, _ := c02Case(t, r.Decs, r.Blank, r.Hist)
				return what
			}
		}
		return "harness: unknown template"
	}
}

// c02ParseInDir decorates src as m.go of a directory whose other files (before and behind it in name
// order) hold a raw string and a block comment of sixty lines each.
func c02ParseInDir(src string) (*dst.File, error) {
	dir, err := os.MkdirTemp("", "dstv-c02-")
	if err != nil {
		return nil, err
	}
	defer os.RemoveAll(dir)
	pkg := "p"
	if af, err := parser.ParseFile(token.NewFileSet(), "", src, parser.PackageClauseOnly); err == nil {
		pkg = af.Name.Name
	}
	long := strings.Repeat("line\n", 60)
	filler := func(name string) string {
		return "package " + pkg + "\n\nvar " + name + "Raw = `" + long + "`\n\n/*\n" + long + "*/\nvar " + name + "After = 1\n"
	}
	for name, text := range map[string]string{"a.go": filler("a"), "m.go": src, "z.go": filler("z")} {
		if err := os.WriteFile(filepath.Join(dir, name), []byte(text), 0644); err != nil {
			return nil, err
		}
	}
	pkgs, err := decorator.ParseDir(token.NewFileSet(), dir, nil, parser.ParseComments)
	if err != nil {
		return nil, err
	}
	for _, p := range pkgs {
		for name, f := range p.Files {
			if filepath.Base(name) == "m.go" {
				return f, nil
			}
		}
	}
	return nil, fmt.Errorf("m.go not found")
}

// c02ViaRestoredAst decorates src, restores it and decorates the restorer's *ast.File again.
func c02ViaRestoredAst(src string) (*dst.File, error) {
	f1, err := decorator.Parse(src)
	if err != nil {
		return nil, err
	}
	r := decorator.NewRestorer()
	af, err := r.RestoreFile(f1)
	if err != nil {
		return nil, err
	}
	return decorator.NewDecorator(r.Fset).DecorateFile(af)
}

func noBlankLines(s string) string {
	var out []string
	for _, l := range strings.Split(s, "\n") {
		if strings.TrimSpace(l) != "" {
			out = append(out, l)
		}
	}
	return strings.Join(out, "\n")
}

func noHanging(decs []chunk) bool {
	for _, d := range decs {
		if d.Hang > 0 {
			return false
		}
	}
	return true
}
