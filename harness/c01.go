package main

import (
	"bytes"
	"encoding/json"
	"fmt"
	"go/ast"
	"go/format"
	"go/parser"
	"go/token"
	"math/rand"
	"os"
	"path/filepath"
	"reflect"
	"regexp"
	"sort"
	"strings"
	"sync"

	"github.com/dave/dst"
	"github.com/dave/dst/decorator"
	"github.com/dave/dst/dstutil"
)

func init() { register("C01", "model_checking", checkC01) }

const linkTraceCfg = `INIT TInit
NEXT TNext
INVARIANTS Check
POSTCONDITION Accepted
CHECK_DEADLOCK FALSE
`

var hookMu sync.Mutex

// captureLink runs fn with the decorator hooks installed and returns the observations of the
// last DecorateNode call (fragment list after fragment(), attachments after link()).
func captureLink(fn func()) (frags []decorator.VerifFragment, linked decorator.VerifLinked, ok bool) {
	hookMu.Lock()
	defer hookMu.Unlock()
	gotF, gotL := false, false
	decorator.VerifHook = func(ev string, data interface{}) {
		switch ev {
		case "fragments":
			frags = data.([]decorator.VerifFragment)
			gotF = true
		case "linked":
			linked = data.(decorator.VerifLinked)
			gotL = true
		}
	}
	defer func() { decorator.VerifHook = nil }()
	fn()
	return frags, linked, gotF && gotL
}

// roundTrips returns, per entry point, the printed bytes (or an error text).
type entryResult struct {
	Entry string
	Out   []byte
	Err   string
}

func entryPoints(path string, src []byte, withDir bool) []entryResult {
	var res []entryResult
	run := func(name string, fn func() ([]byte, error)) {
		var out []byte
		var err error
		if msg := guard(func() { out, err = fn() }); msg != "" {
			res = append(res, entryResult{name, nil, msg})
			return
		}
		if err != nil {
			res = append(res, entryResult{name, nil, "error: " + err.Error()})
			return
		}
		res = append(res, entryResult{name, out, ""})
	}
	run("Parse+Fprint", func() ([]byte, error) {
		f, err := decorator.Parse(src)
		if err != nil {
			return nil, err
		}
		var buf bytes.Buffer
		err = decorator.Fprint(&buf, f)
		return buf.Bytes(), err
	})
	run("Decorator(fset)+Restorer(fset)+format.Node", func() ([]byte, error) {
		fset := token.NewFileSet()
		// the caller's file set already holds other files
		parser.ParseFile(fset, "other1.go", "package other\n\nvar X = 1\n", 0)
		af, err := parser.ParseFile(fset, filepath.Base(path), src, parser.ParseComments)
		if err != nil {
			return nil, err
		}
		parser.ParseFile(fset, "other2.go", "package other\n\nvar Y = 2\n", 0)
		d := decorator.NewDecorator(fset)
		df, err := d.DecorateFile(af)
		if err != nil {
			return nil, err
		}
		r := decorator.NewRestorer()
		r.Fset = token.NewFileSet()
		parser.ParseFile(r.Fset, "pre.go", "package pre\n", 0)
		raf, err := r.RestoreFile(df)
		if err != nil {
			return nil, err
		}
		var buf bytes.Buffer
		err = format.Node(&buf, r.Fset, raf)
		return buf.Bytes(), err
	})
	run("ParseFile(filename)+Restorer.Fprint", func() ([]byte, error) {
		fset := token.NewFileSet()
		f, err := decorator.ParseFile(fset, path, src, 0)
		if err != nil {
			return nil, err
		}
		var buf bytes.Buffer
		err = decorator.NewRestorer().Fprint(&buf, f)
		return buf.Bytes(), err
	})
	if withDir {
		run("ParseDir+Fprint", func() ([]byte, error) {
			dir, err := os.MkdirTemp("", "dstv-dir-")
			if err != nil {
				return nil, err
			}
			defer os.RemoveAll(dir)
			name := filepath.Join(dir, "x.go")
			if err := os.WriteFile(name, src, 0644); err != nil {
				return nil, err
			}
			pkgs, err := decorator.ParseDir(token.NewFileSet(), dir, nil, 0)
			if err != nil {
				return nil, err
			}
			for _, p := range pkgs {
				for fn, f := range p.Files {
					if filepath.Base(fn) == "x.go" {
						var buf bytes.Buffer
						err = decorator.Fprint(&buf, f)
						return buf.Bytes(), err
					}
				}
			}
			return nil, fmt.Errorf("file not found in ParseDir result")
		})
	}
	return res
}

// declSnippets cuts a file into one-declaration sources.
func declSnippets(src []byte) []string {
	fset := token.NewFileSet()
	af, err := parser.ParseFile(fset, "", src, parser.ParseComments)
	if err != nil {
		return nil
	}
	lines := strings.Split(string(src), "\n")
	var out []string
	for _, d := range af.Decls {
		start := d.Pos()
		switch x := d.(type) {
		case *ast.FuncDecl:
			if x.Doc != nil {
				start = x.Doc.Pos()
			}
		case *ast.GenDecl:
			if x.Doc != nil {
				start = x.Doc.Pos()
			}
			if x.Tok == token.IMPORT {
				continue
			}
		}
		l0, l1 := fset.PositionFor(start, false).Line, fset.PositionFor(d.End(), false).Line
		if l0 < 1 || l1 > len(lines) || l0 > l1 {
			continue
		}
		out = append(out, "package p\n\n"+strings.Join(lines[l0-1:l1], "\n")+"\n")
	}
	return out
}

func diffAt(a, b []byte) string {
	i := 0
	for i < len(a) && i < len(b) && a[i] == b[i] {
		i++
	}
	lo := i - 60
	if lo < 0 {
		lo = 0
	}
	ha, hb := i+60, i+60
	if ha > len(a) {
		ha = len(a)
	}
	if hb > len(b) {
		hb = len(b)
	}
	return fmt.Sprintf("first difference at byte %d: source %q, printed %q", i, a[lo:ha], b[lo:hb])
}

func checkC01(c *Ctx) {
	c.Assume("gofmt-canonical = fixpoint of go/format.Source (checked per file, not assumed)")
	c.Assume("go/parser, go/printer are trusted")
	switch os.Getenv("VERIF_PART") { // development aid: one component only
	case "reuse":
		c01Reuse(c)
		return
	case "linkmcd":
		c01LinkMCOf(c, "LinkMCD", "MaxDecls", "File", false)
		return
	}
	max := 120
	if !c.Quick() {
		max = 0
	}
	files := corpus(c, max)
	type res struct {
		canonical bool
		snippets  []string
	}
	results := make([]res, len(files))
	var nCanon, nEntry int64
	var mu sync.Mutex
	parallel(len(files), func(i int) {
		f := files[i]
		if !isCanonical(f.Src) {
			return
		}
		results[i].canonical = true
		withDir := c.Quick() || i%8 == 0
		for _, e := range entryPoints(f.Path, f.Src, withDir) {
			key := f.Path + "|" + e.Entry
			c.Eval(key, bytes.Contains(f.Src, []byte("//")) || bytes.Contains(f.Src, []byte("/*")))
			mu.Lock()
			nEntry++
			mu.Unlock()
			if e.Err != "" {
				c.Fail(Finding{Sig: "roundtrip-fails", Input: key, What: e.Entry + ": " + e.Err + " (" + f.Path + ")", Replay: obj{"kind": "c01", "path": f.Path}})
			} else if !bytes.Equal(e.Out, f.Src) {
				sig, in := "roundtrip-bytes-differ", key
				if unindentClosingComments(e.Out) == unindentClosingComments(f.Src) {
					// the only difference: a comment that stood in the column of the closing bracket below it is indented
					sig, in = "comment-before-closing-bracket-reindented", "closing-aligned|"+key
				}
				c.Fail(Finding{Sig: sig, Input: in, What: e.Entry + ": " + diffAt(f.Src, e.Out) + " (" + f.Path + ")", Replay: obj{"kind": "c01", "path": f.Path}})
			}
		}
		mu.Lock()
		nCanon++
		mu.Unlock()
		// the same file as generated code would have it: //line directives in front of code lines
		// (kept only if the result is still a gofmt fixpoint)
		for _, p := range perturbations {
			if p.Name != "line-directives" {
				continue
			}
			v := p.Fn(f.Src, rand.New(rand.NewSource(c.Seed+int64(i))))
			if bytes.Equal(v, f.Src) || !isCanonical(v) {
				continue
			}
			for _, e := range entryPoints(f.Path, v, false)[:2] {
				key := f.Path + "|line-directives|" + e.Entry
				c.Eval(key, true)
				if e.Err != "" {
					c.Fail(Finding{Sig: "roundtrip-fails", Input: key, What: e.Entry + " with //line directives: " + e.Err + " (" + f.Path + ")", Replay: obj{"kind": "c01snip", "src": string(v)}})
				} else if !bytes.Equal(e.Out, v) {
					sig, in := "roundtrip-bytes-differ", key
					// (a file that also holds a comment aligned with a closing bracket shows K6 on top: both effects
					// are taken out before the comparison, the finding stays the directive one)
					if unindentLineDirectives(e.Out) == unindentLineDirectives(v) ||
						unindentLineDirectives([]byte(unindentClosingComments(e.Out))) == unindentLineDirectives([]byte(unindentClosingComments(v))) {
						// the only difference: a //line directive that stood in column 1 inside indented code is indented
						sig, in = "line-directive-reindented", "line-directives|"+key
					}
					c.Fail(Finding{Sig: sig, Input: in, What: e.Entry + " with //line directives: " + diffAt(v, e.Out) + " (" + f.Path + ")", Replay: obj{"kind": "c01snip", "src": string(v)}})
				}
			}
		}
		results[i].snippets = declSnippets(f.Src)
	})
	c.Set("canonical_files", nCanon)
	c.Set("entry_point_runs", nEntry)

	// Link traces of per-declaration snippets, validated by TLC
	maxSnip, maxFrags := 1500, 900
	if !c.Quick() {
		maxSnip, maxFrags = 6000, 2500
	}
	var items []traceItem
	nSnip := 0
	for i := range results {
		for _, sn := range results[i].snippets {
			if nSnip >= maxSnip {
				break
			}
			if !isCanonical([]byte(sn)) {
				continue
			}
			it, nf := linkRecord(c, "C01", sn, maxFrags)
			if it.Trace == nil {
				continue
			}
			_ = nf
			items = append(items, it)
			nSnip++
		}
	}
	// bounded-exhaustive layouts of commented sibling lists (13 list kinds): every placement of lead,
	// detached, trailing and hanging comments and every blank-line pattern within the bound
	nChunks, maxCom, perKind := 2, 3, 500
	if !c.Quick() {
		nChunks, maxCom, perKind = 3, 4, 1<<30
	}
	nLayouts := 0
	rl := rand.New(rand.NewSource(c.Seed))
	for _, t := range listTemplates {
		var srcs []string
		enumLayouts(t, nChunks, maxCom, func(src string) { srcs = append(srcs, src) })
		if c.Quick() {
			enumLayouts(t, 3, 2, func(src string) { srcs = append(srcs, src) })
		}
		if len(srcs) > perKind {
			rl.Shuffle(len(srcs), func(i, j int) { srcs[i], srcs[j] = srcs[j], srcs[i] })
			srcs = srcs[:perKind]
		}
		for _, src := range srcs {
			nLayouts++
			for _, e := range entryPoints("layout.go", []byte(src), false)[:2] {
				key := "layout|" + t.Name + "|" + shortHash(src) + "|" + e.Entry
				c.Eval(key, strings.Contains(src, "//"))
				if e.Err != "" {
					c.Fail(Finding{Sig: "roundtrip-fails", Input: key, What: e.Entry + ": " + e.Err + " on\n" + src, Replay: obj{"kind": "c01snip", "src": src}})
				} else if !bytes.Equal(e.Out, []byte(src)) {
					c.Fail(Finding{Sig: "roundtrip-bytes-differ", Input: key, What: e.Entry + " (" + t.Name + " layout): " + diffAt([]byte(src), e.Out) + "\nsource:\n" + src, Replay: obj{"kind": "c01snip", "src": src}})
				}
			}
			if it, _ := linkRecord(c, "C01layout", src, maxFrags); it.Trace != nil {
				items = append(items, it)
			}
		}
	}
	c.Set("layouts", nLayouts)
	c.Traces(int64(len(items)))
	c.Set("link_snippets", len(items))
	validateLink(c, items)
	if !c01LinkMC(c) {
		return
	}
	if !c01Reuse(c) {
		return
	}
	c01ListFields(c)
	c01ElementTypes(c)
	// the decorator carries what link() decided (sequentially: the hook is process-wide)
	for i, f := range files {
		if results[i].canonical {
			c01Carried(c, f.Path, f.Src)
		}
	}
	// template fragments with a comment behind every (second) token, brought into canonical form by gofmt:
	// canonical files with comments at places nobody writes them
	if tsrc, err := templateSrc(); err == nil {
		if ms, err := miniFiles(tsrc); err == nil {
			type dj struct {
				key string
				src []byte
			}
			var djs []dj
			for mi, m := range ms {
				var buf bytes.Buffer
				if decorator.Fprint(&buf, m) != nil {
					continue
				}
				for _, v := range [][2]int{{0, 1}, {0, 2}, {1, 2}} {
					if g, err := format.Source(numberedComments(buf.Bytes(), v[0], v[1])); err == nil && isCanonical(g) {
						djs = append(djs, dj{fmt.Sprintf("template-fragment-%d|canonical comment-every-%d-from-%d", mi, v[1], v[0]), g})
					}
				}
			}
			parallel(len(djs), func(i int) {
				c.Eval(djs[i].key, true)
				for _, e := range entryPoints("x.go", djs[i].src, false) {
					if e.Err != "" {
						c.Fail(Finding{Sig: "roundtrip-fails", Input: djs[i].key, What: e.Entry + ": " + e.Err + "\n" + string(djs[i].src), Replay: obj{"kind": "c01snip", "src": string(djs[i].src)}})
					} else if !bytes.Equal(e.Out, djs[i].src) {
						c.Fail(Finding{Sig: "roundtrip-bytes-differ", Input: djs[i].key, What: e.Entry + ": " + diffAt(djs[i].src, e.Out), Replay: obj{"kind": "c01snip", "src": string(djs[i].src)}})
					}
				}
			})
			c.Set("canonical_dense_comment_fragments", len(djs))
		}
	}
	// ... also with a comment behind every token of every template fragment
	if tsrc, err := templateSrc(); err == nil {
		if ms, err := miniFiles(tsrc); err == nil {
			for mi, m := range ms {
				var buf bytes.Buffer
				if decorator.Fprint(&buf, m) == nil {
					c01Carried(c, fmt.Sprintf("template-fragment-%d/comment-every-token", mi), numberedComments(buf.Bytes(), 0, 1))
					c01Carried(c, fmt.Sprintf("template-fragment-%d/comment-every-second-token", mi), numberedComments(buf.Bytes(), 1, 2))
				}
			}
		}
	}
	c01Dirs(c)
	c.Set("rule", "case = one gofmt-canonical file through one entry point (bytes compared), or one declaration snippet whose fragment list and attachments are validated by TLC against Link.tla; non-trivial = the input contains comments; distinct by path+entry / snippet text")
}

// linkRecord decorates one snippet with the hooks on and returns the trace record.
func linkRecord(c *Ctx, prop string, sn string, maxFrags int) (traceItem, int) {
	var perr error
	var printed []byte
	pmsg := ""
	frags, linked, ok := captureLink(func() {
		pmsg = guard(func() {
			f, err := decorator.Parse(sn)
			perr = err
			if err == nil {
				var buf bytes.Buffer
				if decorator.Fprint(&buf, f) == nil {
					printed = buf.Bytes()
				}
			}
		})
	})
	if pmsg != "" && (prop == "C01" || prop == "C03") {
		// the library panics on a parseable snippet: no round trip, no tokens
		c.Eval("snippet|"+sn, true)
		c.Fail(Finding{Sig: map[string]string{"C01": "roundtrip-fails", "C03": "print-fails"}[prop], Input: "snippet|" + shortHash(sn), What: "snippet: " + pmsg + "\n" + truncate(sn, 400), Replay: obj{"kind": "c01snip", "src": sn}})
		return traceItem{}, 0
	}
	if !ok || perr != nil || pmsg != "" || len(frags) > maxFrags {
		return traceItem{}, 0
	}
	c.Eval("snippet|"+sn, strings.Contains(sn, "//") || strings.Contains(sn, "/*"))
	if prop == "C01" && printed != nil && !bytes.Equal(printed, []byte(sn)) {
		sig, in := "roundtrip-bytes-differ", "snippet|"+shortHash(sn)
		if unindentClosingComments(printed) == unindentClosingComments([]byte(sn)) {
			sig, in = "comment-before-closing-bracket-reindented", "closing-aligned|"+in
		}
		c.Fail(Finding{Sig: sig, Input: in, What: "snippet: " + diffAt([]byte(sn), printed), Replay: obj{"kind": "c01snip", "src": sn}})
	}
	decs := linked.Decs
	if decs == nil {
		decs = []decorator.VerifDec{}
	}
	sp := linked.Spaces
	if sp == nil {
		sp = []decorator.VerifSpace{}
	}
	// mark the fragments File.Imports contributes a second time (same kind, node, name and position)
	type fk struct {
		k, name string
		node    int
		pos     int
	}
	seenF := map[fk]bool{}
	fl := make([]obj, len(frags))
	for i, fr := range frags {
		key := fk{fr.K, fr.Name, fr.Node, fr.Pos}
		dup := fr.Node != 0 && seenF[key]
		seenF[key] = true
		fl[i] = obj{"k": fr.K, "node": fr.Node, "name": fr.Name, "text": fr.Text, "line": fr.Line, "empty": fr.Empty, "indent": fr.Indent, "pos": fr.Pos,
			"sd": fr.SD, "lab": fr.Labeled, "clause": fr.Clause, "si": fr.SI, "ei": fr.EI, "type": fr.Type, "dup": dup}
	}
	b, _ := json.Marshal(obj{"frags": fl, "decs": decs, "spaces": sp})
	return traceItem{Key: sn, Trace: append(b, '\n'), Events: 1, Replay: obj{"kind": "c01snip", "src": sn}}, len(frags)
}

var _ = dst.NewIdent

func init() {
	replayers["c01"] = func(raw json.RawMessage) string {
		var r struct {
			Path string `json:"path"`
		}
		json.Unmarshal(raw, &r)
		src, err := os.ReadFile(r.Path)
		if err != nil {
			return "harness: " + err.Error()
		}
		if !isCanonical(src) {
			return ""
		}
		for _, e := range entryPoints(r.Path, src, true) {
			if e.Err != "" {
				return e.Entry + ": " + e.Err
			}
			if !bytes.Equal(e.Out, src) {
				return e.Entry + ": " + diffAt(src, e.Out)
			}
		}
		return ""
	}
	replayers["c01snip"] = func(raw json.RawMessage) string {
		var r struct {
			Src string `json:"src"`
		}
		json.Unmarshal(raw, &r)
		c := newCtx("C01", "quick", 1, "model_checking")
		it, _ := linkRecord(c, "C01", r.Src, 1<<30)
		msg := ""
		if it.Trace != nil {
			validateTraces(c, "LinkTrace", linkTraceCfg, []traceItem{it}, 10, false, func(it traceItem, res *TLCResult) {
				msg = "Link.tla rejects the recorded attachment: " + strings.Join(res.Payloads("VERDICT "), " ")
			})
		}
		if msg == "" && len(c.findings) > 0 {
			msg = c.findings[0].What
		}
		return msg
	}
}

// validateLink validates Link traces. A deviation from the transcription alone (conform=false with
// every P predicate true) is not a violation of any property (DESIGN.md section 3): it is recorded
// as model_conformance:false and the items are validated again against the property layer only.
func validateLink(c *Ctx, items []traceItem) {
	deviates := false
	verdict := func(res *TLCResult) string {
		if p := res.Payloads("VERDICT "); len(p) > 0 {
			return p[len(p)-1]
		}
		return ""
	}
	pOK := func(v string) bool {
		return strings.Contains(v, `"nopanic":true`) && strings.Contains(v, `"attached":true`) && strings.Contains(v, `"roundtrip":true`)
	}
	fail := func(it traceItem, res *TLCResult) {
		v := verdict(res)
		c.Fail(Finding{Sig: "link-trace-rejected", Input: shortHash(it.Key), What: "Link.tla verdict " + v + " on snippet:\n" + truncate(it.Key, 600), Replay: it.Replay})
	}
	validateTraces(c, "LinkTrace", linkTraceCfg, items, 150, false, func(it traceItem, res *TLCResult) {
		v := verdict(res)
		if strings.Contains(v, `"conform":false`) && pOK(v) {
			if !deviates {
				c.Note("model_conformance:false, e.g. snippet " + shortHash(it.Key) + ": the real attachment differs from Link.tla while the property layer holds")
				c.Set("model_conformance", false)
			}
			deviates = true
			return
		}
		fail(it, res)
	})
	if deviates {
		validateTraces(c, "LinkTrace", strings.Replace(linkTraceCfg, "INVARIANTS Check", "INVARIANTS CheckP", 1), items, 150, false, fail)
	} else {
		c.Set("model_conformance", true)
	}
}

func unindentLineDirectives(b []byte) string {
	lines := strings.Split(string(b), "\n")
	for i, l := range lines {
		if t := strings.TrimLeft(l, " \t"); strings.HasPrefix(t, "//line ") {
			lines[i] = t
		}
	}
	return strings.Join(lines, "\n")
}

// ---- directories with several files of one package ----

var pkgClauseRE = regexp.MustCompile(`(?m)^package [A-Za-z_][A-Za-z0-9_]*`)

// dirHandFiles: canonical files whose comments stand at the very start / end of the file, with
// multi-line comments and raw strings at different line numbers.
var dirHandFiles = []string{
	"// Package p doc.\npackage p\n\nfunc A() {}\n\n// trailing comment of a\n",
	"// leading comment of b\n\npackage p\n\n/* block\n   comment */\nfunc B() {\n\tx()\n\n\ty()\n}\n\n// end of b\n",
	"package p\n\nvar C = 1\n\nvar D = 2\n\nvar E = 3\n",
	"package p\n\n/*\nfive\nline\ncomment\n*/\n\nvar F = `raw\n\nstring`\n\nfunc G() {\n\n\tg()\n\n}\n",
	"package p // on the clause\n\nimport \"fmt\"\n\n// H prints.\nfunc H() {\n\tfmt.Println() // trailing\n\n\t// hanging\n}\n\n/* last */\n",
	"/* first */\npackage p\n\ntype T struct {\n\tA int\n\n\tB int // b\n}\n",
}

// runDir writes the sources as f0.go, f1.go ... into a fresh directory, parses it with ParseDir and
// prints every file.
// runPackage: the files parsed into one file set, joined by ast.NewPackage (so that names of one file are
// resolved to declarations in another), decorated as a package in one DecorateNode call and each
// printed by a Restorer that restores the object graph as well (Extras): still the source bytes.
func runPackage(srcs [][]byte) ([][]byte, string) {
	out := make([][]byte, len(srcs))
	var perr error
	msg := guard(func() {
		fset := token.NewFileSet()
		files := map[string]*ast.File{}
		for i, s := range srcs {
			name := fmt.Sprintf("f%d.go", i)
			af, err := parser.ParseFile(fset, name, s, parser.ParseComments)
			if err != nil {
				perr = err
				return
			}
			files[name] = af
		}
		pkg, _ := ast.NewPackage(fset, files, nil, nil) // unresolved imports and redeclarations are reported, the package is built anyway
		if pkg == nil {
			perr = fmt.Errorf("harness: ast.NewPackage returned nil")
			return
		}
		dn, err := decorator.NewDecorator(fset).DecorateNode(pkg)
		if err != nil {
			perr = err
			return
		}
		for fn, f := range dn.(*dst.Package).Files {
			var i int
			fmt.Sscanf(filepath.Base(fn), "f%d.go", &i)
			r := decorator.NewRestorer()
			r.Extras = true
			var buf bytes.Buffer
			if err := r.Fprint(&buf, f); err != nil {
				perr = err
				return
			}
			out[i] = buf.Bytes()
		}
	})
	if msg != "" {
		return nil, msg
	}
	if perr != nil {
		if strings.HasPrefix(perr.Error(), "harness:") {
			return nil, perr.Error()
		}
		return nil, "error: " + perr.Error()
	}
	return out, ""
}

func runDir(srcs [][]byte) ([][]byte, string) {
	dir, err := os.MkdirTemp("", "dstv-dir-")
	if err != nil {
		return nil, "harness: " + err.Error()
	}
	defer os.RemoveAll(dir)
	for i, s := range srcs {
		if err := os.WriteFile(filepath.Join(dir, fmt.Sprintf("f%d.go", i)), s, 0644); err != nil {
			return nil, "harness: " + err.Error()
		}
	}
	out := make([][]byte, len(srcs))
	var perr error
	msg := guard(func() {
		pkgs, err := decorator.ParseDir(token.NewFileSet(), dir, nil, 0)
		if err != nil {
			perr = err
			return
		}
		for _, p := range pkgs {
			for fn, f := range p.Files {
				var i int
				fmt.Sscanf(filepath.Base(fn), "f%d.go", &i)
				var buf bytes.Buffer
				if err := decorator.Fprint(&buf, f); err != nil {
					perr = err
					return
				}
				out[i] = buf.Bytes()
			}
		}
	})
	if msg != "" {
		return nil, msg
	}
	if perr != nil {
		return nil, "error: " + perr.Error()
	}
	return out, ""
}

// dirCases builds directories of 2-4 canonical files of one package from the hand-written files and
// small corpus files (package clause renamed).
func dirCases(c *Ctx, n int, r *rand.Rand) [][][]byte {
	var pool [][]byte
	for _, s := range dirHandFiles {
		pool = append(pool, []byte(s))
	}
	for _, f := range corpus(c, 60) {
		if len(f.Src) > 12000 || !isCanonical(f.Src) || bytes.Contains(f.Src, []byte("//go:build")) || bytes.Contains(f.Src, []byte("+build")) {
			continue
		}
		s := pkgClauseRE.ReplaceAll(f.Src, []byte("package p"))
		if isCanonical(s) {
			pool = append(pool, s)
		}
	}
	var out [][][]byte
	// every ordered pair of the hand-written files, then random groups
	for i := range dirHandFiles {
		for j := range dirHandFiles {
			if i != j {
				out = append(out, [][]byte{pool[i], pool[j]})
			}
		}
	}
	for len(out) < n {
		k := 2 + r.Intn(3)
		var g [][]byte
		for j := 0; j < k; j++ {
			g = append(g, pool[r.Intn(len(pool))])
		}
		out = append(out, g)
	}
	return out
}

func c01Dirs(c *Ctx) {
	n := 80
	if !c.Quick() {
		n = 1200
	}
	cases := dirCases(c, n, rand.New(rand.NewSource(c.Seed+11)))
	type res struct {
		out [][]byte
		msg string
	}
	// every case twice: through ParseDir, and as a package joined by ast.NewPackage printed with Extras
	nDir := len(cases)
	cases = append(cases, cases...)
	rs := make([]res, len(cases))
	parallel(len(cases), func(i int) {
		if i < nDir {
			rs[i].out, rs[i].msg = runDir(cases[i])
		} else {
			rs[i].out, rs[i].msg = runPackage(cases[i])
		}
	})
	for i, cs := range cases {
		var hs []string
		for _, s := range cs {
			hs = append(hs, shortHash(string(s)))
		}
		key := "dir|" + strings.Join(hs, "+")
		entry := "ParseDir"
		if i >= nDir {
			key = "package+extras|" + strings.Join(hs, "+")
			entry = "NewPackage+DecorateNode+Restorer{Extras}"
		}
		c.Eval(key, true)
		var srcs []string
		for _, s := range cs {
			srcs = append(srcs, string(s))
		}
		if strings.HasPrefix(rs[i].msg, "harness:") {
			c.Infra(rs[i].msg)
			return
		}
		if rs[i].msg != "" {
			c.Fail(Finding{Sig: "roundtrip-fails", Input: key, What: entry + " on " + fmt.Sprint(len(cs)) + " files: " + rs[i].msg, Replay: obj{"kind": "c01dir", "srcs": srcs, "entry": entry}})
			continue
		}
		for j := range cs {
			if !bytes.Equal(rs[i].out[j], cs[j]) {
				if unindentClosingComments(rs[i].out[j]) == unindentClosingComments(cs[j]) {
					c.Fail(Finding{Sig: "comment-before-closing-bracket-reindented", Input: "closing-aligned|" + key, What: fmt.Sprintf("%s, file f%d.go: %s", entry, j, diffAt(cs[j], rs[i].out[j])), Replay: obj{"kind": "c01dir", "srcs": srcs, "entry": entry}})
					continue
				}
				c.Fail(Finding{Sig: "roundtrip-bytes-differ", Input: key, What: fmt.Sprintf("%s on %d files, file f%d.go: %s", entry, len(cs), j, diffAt(cs[j], rs[i].out[j])), Replay: obj{"kind": "c01dir", "srcs": srcs, "entry": entry}})
				break
			}
		}
	}
	c.Set("directories", nDir)
	c.Set("packages_with_extras", len(cases)-nDir)
}

func init() {
	replayers["c01dir"] = func(raw json.RawMessage) string {
		var r struct {
			Srcs  []string
			Entry string
		}
		json.Unmarshal(raw, &r)
		var cs [][]byte
		for _, s := range r.Srcs {
			cs = append(cs, []byte(s))
		}
		run := runDir
		if strings.HasPrefix(r.Entry, "NewPackage") {
			run = runPackage
		}
		out, msg := run(cs)
		if msg != "" {
			return msg
		}
		for j := range cs {
			if !bytes.Equal(out[j], cs[j]) {
				return fmt.Sprintf("file f%d.go: %s", j, diffAt(cs[j], out[j]))
			}
		}
		return ""
	}
}

// ---- every list field of every node type laid out over several lines ----

// c01ListFields takes every list of nodes in every template fragment (found by reflection), puts
// each element on its own line (with and without trailing / leading comments), prints the tree, and
// -- where the printed text is gofmt-canonical -- requires that text to round-trip byte for byte.
func c01ListFields(c *Ctx) {
	src, err := templateSrc()
	if err != nil {
		c.Infra(err.Error())
		return
	}
	minis, err := miniFiles(src)
	if err != nil {
		c.Infra(err.Error())
		return
	}
	type job struct {
		mi, li, variant int
	}
	listsOf := func(f *dst.File) []reflect.Value {
		var out []reflect.Value
		var ps []nodePos
		seen := map[dst.Node]bool{}
		positionsOf(f, &ps, seen)
		for n := range seen {
			v := reflect.ValueOf(n).Elem()
			for i := 0; i < v.NumField(); i++ {
				fv := v.Field(i)
				name := v.Type().Field(i).Name
				if fv.Kind() == reflect.Slice && fv.Type().Elem().Implements(dstNodeType) && fv.Len() >= 1 && name != "Imports" && name != "Unresolved" {
					out = append(out, fv)
				}
			}
		}
		// a stable order: by the type and field of the holder and the number of elements
		sort.SliceStable(out, func(i, j int) bool {
			return fmt.Sprintf("%v/%d/%T", out[i].Type(), out[i].Len(), out[i].Index(0).Interface()) < fmt.Sprintf("%v/%d/%T", out[j].Type(), out[j].Len(), out[j].Index(0).Interface())
		})
		return out
	}
	var jobs []job
	for mi, m := range minis {
		for li := range listsOf(m) {
			for v := 0; v < 7; v++ {
				jobs = append(jobs, job{mi, li, v})
			}
		}
	}
	var tested, skipped int64
	var mu sync.Mutex
	parallel(len(jobs), func(i int) {
		j := jobs[i]
		ms, _ := miniFiles(src)
		f := ms[j.mi]
		ls := listsOf(f)
		if j.li >= len(ls) {
			return
		}
		lv := ls[j.li]
		for k := 0; k < lv.Len(); k++ {
			d := lv.Index(k).Interface().(dst.Node).Decorations()
			d.Before, d.After = dst.NewLine, dst.NewLine
			switch j.variant {
			case 4: // asymmetric: a break in front of the first element only
				d.Before, d.After = dst.None, dst.None
				if k == 0 {
					d.Before = dst.NewLine
				}
			case 5: // asymmetric: a break in front of every second element, none behind any
				d.Before, d.After = dst.None, dst.None
				if k%2 == 1 {
					d.Before = dst.NewLine
				}
			case 6: // asymmetric: a break behind every second element only
				d.Before, d.After = dst.None, dst.None
				if k%2 == 0 && k+1 < lv.Len() {
					d.After = dst.NewLine
				}
			case 1:
				d.End.Append(fmt.Sprintf("// t%d", k))
			case 2:
				d.Start.Prepend(fmt.Sprintf("// l%d", k), "\n")
			case 3:
				if k%2 == 0 {
					d.Before = dst.EmptyLine
				}
				d.End.Append(fmt.Sprintf("/* b%d */", k))
			}
		}
		text, msg := printFile(f)
		if msg != "" || !isCanonical([]byte(text)) {
			mu.Lock()
			skipped++
			mu.Unlock()
			return
		}
		key := fmt.Sprintf("list-field|fragment-%d|list-%d|variant-%d", j.mi, j.li, j.variant)
		c.Eval(key, j.variant > 0)
		mu.Lock()
		tested++
		mu.Unlock()
		for _, e := range entryPoints("x.go", []byte(text), false) {
			if e.Err != "" {
				c.Fail(Finding{Sig: "roundtrip-fails", Input: key, What: e.Entry + ": " + e.Err + "\n" + text, Replay: obj{"kind": "c01snip", "src": text}})
			} else if !bytes.Equal(e.Out, []byte(text)) {
				c.Fail(Finding{Sig: "roundtrip-bytes-differ", Input: key, What: e.Entry + ": " + diffAt([]byte(text), e.Out) + "\n" + text, Replay: obj{"kind": "c01snip", "src": text}})
			}
		}
	})
	c.Set("list_field_layouts_round_tripped", tested)
	c.Set("list_field_layouts_not_canonical", skipped)
}

// unindentClosingComments strips the indentation of // comment lines that are directly followed (possibly
// after further comment lines) by a line that starts with a closing bracket.
func unindentClosingComments(b []byte) string {
	lines := strings.Split(string(b), "\n")
	for i := range lines {
		if !strings.HasPrefix(strings.TrimSpace(lines[i]), "//") {
			continue
		}
		j := i + 1
		for j < len(lines) && strings.HasPrefix(strings.TrimSpace(lines[j]), "//") {
			j++
		}
		if j < len(lines) {
			t := strings.TrimSpace(lines[j])
			if strings.HasPrefix(t, ")") || strings.HasPrefix(t, "}") || strings.HasPrefix(t, "]") {
				lines[i] = strings.TrimSpace(lines[i])
			}
		}
	}
	return strings.Join(lines, "\n")
}

// c01ElementTypes: one exemplar of every expression node type of the template (types included: they
// are expressions to the parser) as a direct element of a call's argument list, with line breaks on
// one side only; canonical prints must round-trip. The decorator copies Before / After per node type.
func c01ElementTypes(c *Ctx) {
	src, err := templateSrc()
	if err != nil {
		c.Infra(err.Error())
		return
	}
	full, err := decorator.Parse(src)
	if err != nil {
		c.Infra(err.Error())
		return
	}
	var ps []nodePos
	exprPositions(full, &ps, map[dst.Node]bool{})
	exemplar := map[string]dst.Expr{}
	var names []string
	for _, p := range ps {
		e := p.get().Interface().(dst.Expr)
		t := fmt.Sprintf("%T", e)
		if _, ok := exemplar[t]; !ok {
			exemplar[t] = e
			names = append(names, t)
		}
	}
	sort.Strings(names)
	tested, skipped := 0, 0
	for _, t := range names {
		for pattern := 0; pattern < 4; pattern++ {
			e := dst.Clone(exemplar[t]).(dst.Expr)
			stripDecsNode(e)
			x, y := dst.NewIdent("x"), dst.NewIdent("y")
			args := []dst.Expr{e, x, y}
			if pattern >= 2 {
				args = []dst.Expr{x, e, y}
			}
			switch pattern {
			case 0, 2:
				e.Decorations().Before = dst.NewLine
			case 1, 3:
				e.Decorations().After = dst.NewLine
			}
			f := &dst.File{Name: dst.NewIdent("p"), Decls: []dst.Decl{&dst.GenDecl{Tok: token.VAR, Specs: []dst.Spec{&dst.ValueSpec{
				Names: []*dst.Ident{dst.NewIdent("_")}, Values: []dst.Expr{&dst.CallExpr{Fun: dst.NewIdent("g"), Args: args}}}}}}}
			text, msg := printFile(f)
			if msg != "" || !isCanonical([]byte(text)) {
				skipped++
				continue
			}
			key := fmt.Sprintf("element-type|%s|pattern-%d", t, pattern)
			c.Eval(key, true)
			tested++
			for _, er := range entryPoints("x.go", []byte(text), false) {
				if er.Err != "" {
					c.Fail(Finding{Sig: "roundtrip-fails", Input: key, What: er.Entry + ": " + er.Err + "\n" + text, Replay: obj{"kind": "c01snip", "src": text}})
				} else if !bytes.Equal(er.Out, []byte(text)) {
					c.Fail(Finding{Sig: "roundtrip-bytes-differ", Input: key, What: er.Entry + ": " + diffAt([]byte(text), er.Out) + "\n" + text, Replay: obj{"kind": "c01snip", "src": text}})
				}
			}
		}
	}
	c.Set("element_type_layouts_round_tripped", tested)
	c.Set("element_type_layouts_not_canonical", skipped)
	c.Set("element_types", len(names))
}

// stripDecsNode removes spacing and decorations below n.
func stripDecsNode(n dst.Node) {
	dst.Inspect(n, func(m dst.Node) bool {
		if m == nil {
			return false
		}
		d := m.Decorations()
		d.Before, d.After = dst.None, dst.None
		d.Start.Clear()
		d.End.Clear()
		return true
	})
}

// ---- decorateNode carries what link() decided, for every node type ----

// c01Carried: the hooks export link()'s result (decorations per (node, point), spacing per node) together
// with the ast node of every number; the dst node the decorator builds for it must hold exactly those
// lists at exactly those points, and that spacing -- whatever the node type.
func c01Carried(c *Ctx, key string, src []byte) {
	fset := token.NewFileSet()
	af, err := parser.ParseFile(fset, "", src, parser.ParseComments)
	if err != nil {
		return
	}
	d := decorator.NewDecorator(fset)
	var derr error
	_, linked, ok := captureLink(func() { _, derr = d.DecorateFile(af) })
	if !ok || derr != nil {
		return
	}
	c.Eval("carried|"+key, len(linked.Decs) > 0)
	want := map[string][]string{}
	for _, dd := range linked.Decs {
		want[fmt.Sprintf("%d.%s", dd.Node, dd.Name)] = dd.D
	}
	sp := map[int][2]int{}
	for _, s := range linked.Spaces {
		sp[s.Node] = [2]int{s.Before, s.After}
	}
	for i, an := range linked.Nodes {
		id := i + 1
		dn := d.Dst.Nodes[an]
		if dn == nil {
			continue // C11's business
		}
		decs := dn.Decorations()
		if int(decs.Before) != sp[id][0] || int(decs.After) != sp[id][1] {
			c.Fail(Finding{Sig: "decorate-drops-spacing", Input: fmt.Sprintf("carried|%s|%T", key, an), What: fmt.Sprintf("%s: link() gave %T (node %d) Before=%d After=%d, the dst node has Before=%d After=%d", key, an, id, sp[id][0], sp[id][1], decs.Before, decs.After), Replay: obj{"kind": "c01snip", "src": string(src)}})
			return
		}
		before, after, points := dstutil.Decorations(dn)
		_, _ = before, after
		got := map[string][]string{"Start": decs.Start.All(), "End": decs.End.All()}
		for _, p := range points {
			got[p.Name] = p.Decs
		}
		for name, g := range got {
			w := want[fmt.Sprintf("%d.%s", id, name)]
			if !sameStrings(g, w) {
				c.Fail(Finding{Sig: "decorate-drops-decoration", Input: fmt.Sprintf("carried|%s|%T.%s", key, an, name), What: fmt.Sprintf("%s: link() attached %q to %T.%s (node %d), the dst node holds %q there", key, w, an, name, id, g), Replay: obj{"kind": "c01snip", "src": string(src)}})
				return
			}
			delete(want, fmt.Sprintf("%d.%s", id, name))
		}
	}
	for k, w := range want {
		if len(w) > 0 {
			c.Fail(Finding{Sig: "decorate-drops-decoration", Input: "carried|" + key + "|" + k, What: fmt.Sprintf("%s: link() attached %q to point %s, which no dst node offers", key, w, k), Replay: obj{"kind": "c01snip", "src": string(src)}})
			return
		}
	}
}
