package main

import (
	"encoding/json"
	"fmt"
	"os"
)

type replayer func(raw json.RawMessage) string

var replayers = map[string]replayer{}

// replayFile re-executes a recorded violation on the current tree.
func replayFile(path string) int {
	b, err := os.ReadFile(path)
	if err != nil {
		fmt.Fprintln(os.Stderr, err)
		return 2
	}
	var doc struct {
		Property string          `json:"property"`
		Sig      string          `json:"sig"`
		Replay   json.RawMessage `json:"replay"`
	}
	if err := json.Unmarshal(b, &doc); err != nil {
		fmt.Fprintln(os.Stderr, err)
		return 2
	}
	var k struct {
		Kind string `json:"kind"`
	}
	json.Unmarshal(doc.Replay, &k)
	fn, ok := replayers[k.Kind]
	if !ok {
		fmt.Fprintln(os.Stderr, "no replayer for kind", k.Kind)
		return 2
	}
	if msg := fn(doc.Replay); msg != "" {
		fmt.Printf("reproduced: %s\nVIOLATION property=%s replay=%s\n", msg, doc.Property, path)
		return 1
	}
	fmt.Println("not reproduced on the current tree")
	return 0
}
