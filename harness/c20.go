package main

import (
	"bytes"
	"encoding/json"
	"errors"
	"fmt"
	"github.com/dave/dst/decorator/resolver"
	"github.com/dave/dst/decorator/resolver/simple"
	"go/parser"
	"go/token"
	"math/rand"
	"os"
	"path/filepath"
	"sort"
	"strings"
	"sync"
	"time"

	"github.com/dave/dst"
	"github.com/dave/dst/decorator"
	"github.com/dave/dst/decorator/resolver/goast"
	"github.com/dave/dst/decorator/resolver/guess"
	"golang.org/x/tools/go/packages"
)

func init() { register("C20", "model_checking", checkC20) }

const saveTraceCfg = `INIT TInit
NEXT TNext
INVARIANTS NoPanic OnlyRecordedPaths OwnContents UneditedIdentity StopAtFirstError AllWrittenOnSuccess
POSTCONDITION Accepted
CHECK_DEADLOCK FALSE
`

func snapshotDir(root string) map[string]string {
	out := map[string]string{}
	filepath.Walk(root, func(p string, info os.FileInfo, err error) error {
		if err == nil && !info.IsDir() {
			b, _ := os.ReadFile(p)
			out[p] = string(b)
		}
		return nil
	})
	return out
}

var c20Sources = []string{
	"package pkg\n\nimport (\n\t\"fmt\"\n\t\"os\"\n)\n\n// A prints.\nfunc A() {\n\tfmt.Println(os.Args) // trailing\n}\n",
	"package pkg\n\nimport str \"strings\"\n\nvar B = str.Repeat(\"b\", 2)\n",
	"package pkg\n\n// C has no imports.\nconst C = 3\n\nvar T = []float64{\n\t1, 2,\n\t3, -4,\n}\n\nvar U = f(C,\n\t&T)\n\nvar V = map[string]*int{\"a\": nil,\n\t\"b\": &C}\n",
	"package pkg\n\nimport (\n\t\"bytes\"\n\t\"io\"\n)\n\nfunc D(w io.Writer) { w.Write(bytes.NewBufferString(\"d\").Bytes()) }\n",
	// raw string literals with multi-byte text over several lines, code behind the closing back quote
	"package pkg\n\nimport \"strings\"\n\n// J – größer als ASCII.\nvar J = strings.TrimSpace(`\n日本語日本語日本語日本語日本語日本語\nÄÖÜ\n`) // hinter dem Rohtext\n\nconst K = `ääääääääääääääää\na\nb`\n\nfunc größe() string { return J + K /* © */ }\n",
	// block comments that close the line of a field / spec with fewer columns than its neighbours
	"package pkg\n\nimport \"fmt\"\n\ntype T struct {\n\tfmt.Stringer     /* embedded */\n\tName         int /* named */\n\tOther        fmt.Formatter\n}\n\nconst (\n\ta = iota /* first */\n\tb        /* repeats */\n\tc        // line\n)\n",
	// a raw string literal over several lines (its line breaks are part of the restored line table)
	"package pkg\n\nconst H = `first\nsecond\n\tthird\n`\n\nfunc I() string { return H }\n",
	// an import declaration without specs (legal, and gofmt leaves it alone)
	"package pkg\n\nimport ()\n\nimport (\n\t\"fmt\"\n)\n\nvar G = fmt.Sprint()\n",
	// the same paths as in the first two sources under other names (one Restorer serves all files of a save:
	// what it learns from one file must not leak into the next)
	"package pkg\n\nimport f \"fmt\"\n\nfunc J() { f.Println(\"j\") }\n",
	"package pkg\n\nimport \"strings\"\n\nvar K = strings.ToUpper(\"k\")\n",
	// packages that are used in the constraints of a generic type declaration only
	"package pkg\n\nimport (\n\t\"cmp\"\n\t\"fmt\"\n)\n\ntype Pair[K cmp.Ordered, V fmt.Stringer] struct {\n\tk K\n\tv V\n}\n",
	// generated code: a //line directive above the package clause names another file (goyacc style)
	"//line grammar.y:2\npackage pkg\n\nimport \"sort\"\n\n//line grammar.y:10\nfunc E(x []int) { sort.Ints(x) }\n",
}

type saveObs struct {
	Files         int    `json:"files"`
	FailFile      int    `json:"failFile"`
	Err           bool   `json:"err"`
	Wrapped       bool   `json:"wrapped"`
	Panic         bool   `json:"panic"`
	Written       []bool `json:"written"`
	Own           []bool `json:"own"`
	Unedited      []bool `json:"unedited"`
	Identical     []bool `json:"identical"`
	OthersTouched bool   `json:"othersTouched"`
	Msg           string `json:"-"`
}

// c20Run builds a package of the chosen sources in 1-2 directories, optionally edits files, and
// saves it with a resolver failing while file failFile is printed (0 = never).
// rel: the package is assembled the way a program does that works in its own directory tree: file names
// relative to the working directory (as ParseDir("lib") records them) and a relative Package.Dir.
func c20Run(pick []int, dirs int, edited []int, failFile int, rel bool) saveObs {
	o := saveObs{Files: len(pick), FailFile: failFile}
	root, err := os.MkdirTemp("", "dstv-save-")
	if err != nil {
		o.Msg = err.Error()
		return o
	}
	defer os.RemoveAll(root)
	fset := token.NewFileSet()
	d := decorator.NewDecoratorWithImports(fset, "example.com/pkg", goast.WithResolver(guess.New()))
	pkg := &decorator.Package{Package: &packages.Package{PkgPath: "example.com/pkg"}, Decorator: d, Dir: root}
	cwd, _ := os.Getwd()
	if rel {
		rd, err := filepath.Rel(cwd, filepath.Join(root, "d0"))
		if err != nil {
			o.Msg = err.Error()
			return o
		}
		pkg.Dir = rd
	}
	var paths []string
	for i, si := range pick {
		dir := filepath.Join(root, fmt.Sprintf("d%d", i%dirs))
		os.MkdirAll(dir, 0755)
		p := filepath.Join(dir, fmt.Sprintf("f%d.go", i))
		os.WriteFile(p, []byte(c20Sources[si]), 0644)
		paths = append(paths, p)
		name := p
		if rel {
			if name, err = filepath.Rel(cwd, p); err != nil {
				o.Msg = err.Error()
				return o
			}
		}
		af, err := parser.ParseFile(fset, name, nil, parser.ParseComments)
		if err != nil {
			o.Msg = err.Error()
			return o
		}
		df, err := d.DecorateFile(af)
		if err != nil {
			o.Msg = err.Error()
			return o
		}
		if edited[i] == 2 {
			// an edit that makes the file shorter: the last declaration goes (and with it, possibly, the last use of an import)
			df.Decls = df.Decls[:len(df.Decls)-1]
		}
		if edited[i] == 3 {
			// an edit that changes nothing but the case of letters: the first declared name, wherever it occurs
			// (the print differs from the bytes on disk at the same length)
			target := ""
			dst.Inspect(df, func(n dst.Node) bool {
				if target != "" {
					return false
				}
				switch x := n.(type) {
				case *dst.FuncDecl:
					if x.Recv == nil {
						target = x.Name.Name
					}
				case *dst.ValueSpec:
					target = x.Names[0].Name
				case *dst.TypeSpec:
					target = x.Name.Name
				}
				return true
			})
			if target != "" && target != "_" {
				flipped := strings.ToLower(target[:1]) + target[1:]
				if flipped == target {
					flipped = strings.ToUpper(target[:1]) + target[1:]
				}
				dst.Inspect(df, func(n dst.Node) bool {
					if id, ok := n.(*dst.Ident); ok && id.Name == target && id.Path == "" {
						id.Name = flipped
					}
					return true
				})
			}
		}
		if edited[i] == 1 {
			df.Decls = append(df.Decls, &dst.GenDecl{Tok: token.VAR, Specs: []dst.Spec{&dst.ValueSpec{
				Names: []*dst.Ident{dst.NewIdent(fmt.Sprintf("Added%d", i))}, Values: []dst.Expr{&dst.CallExpr{Fun: &dst.Ident{Name: "Join", Path: "path/filepath"}, Args: []dst.Expr{&dst.BasicLit{Kind: token.STRING, Value: "\"x\""}}}}}}})
		}
		pkg.Syntax = append(pkg.Syntax, df)
	}
	// unrelated files that must not be touched
	other := filepath.Join(root, "d0", "unrelated.txt")
	os.WriteFile(other, []byte("keep"), 0644)
	os.WriteFile(filepath.Join(root, "d0", "zz_other.go"), []byte("package pkg\n"), 0644)
	for i := 0; i < dirs; i++ { // the file a //line directive may name
		os.WriteFile(filepath.Join(root, fmt.Sprintf("d%d", i), "grammar.y"), []byte("%{ grammar %}\n"), 0644)
	}
	before := snapshotDir(root)
	// a write is observed through the modification time, so that rewriting identical bytes counts
	old := time.Now().Add(-48 * time.Hour).Truncate(time.Second)
	for p := range before {
		os.Chtimes(p, old, old)
	}
	touched := func(p string) bool {
		st, err := os.Stat(p)
		return err != nil || !st.ModTime().Equal(old)
	}
	// expected contents: the import-managed print of each file (computed on clones, before saving)
	want := make([]string, len(pick))
	for i, f := range pkg.Syntax {
		var buf bytes.Buffer
		if err := decorator.NewRestorerWithImports("example.com/pkg", guess.New()).Fprint(&buf, dst.Clone(f).(*dst.File)); err == nil {
			want[i] = buf.String()
		}
	}
	// the resolver fails when it is asked about a package that file failFile needs and no file in front
	// of it does (found by printing every file alone with a recording resolver). How often, in which
	// order and whether the implementation asks again about a package it already knows is left open.
	sentinel := fmt.Errorf("save sentinel: %w", errInjected)
	rr := &pathFailRR{inner: guess.New(), fail: map[string]bool{}, err: sentinel}
	if failFile > 0 {
		seen := map[string]bool{}
		for i := 0; i < failFile; i++ {
			rec := &pathFailRR{inner: guess.New(), asked: map[string]bool{}}
			var buf bytes.Buffer
			decorator.NewRestorerWithImports("example.com/pkg", rec).Fprint(&buf, dst.Clone(pkg.Syntax[i]).(*dst.File))
			for p := range rec.asked {
				if i == failFile-1 && !seen[p] {
					rr.fail[p] = true
				}
				seen[p] = true
			}
		}
		if len(rr.fail) == 0 {
			// file failFile asks about nothing new: no failure can be pinned to it
			o.FailFile = 0
			failFile = 0
		}
	}
	var serr error
	if msg := guard(func() { serr = pkg.SaveWithResolver(rr) }); msg != "" {
		o.Panic, o.Msg = true, msg
	}
	o.Err = serr != nil
	o.Wrapped = serr != nil && errors.Is(serr, sentinel)
	after := snapshotDir(root)
	for i, p := range paths {
		unedited := edited[i] == 0
		written := touched(p)
		o.Written = append(o.Written, written)
		o.Own = append(o.Own, after[p] == want[i])
		o.Unedited = append(o.Unedited, unedited)
		o.Identical = append(o.Identical, after[p] == before[p])
		delete(after, p)
		delete(before, p)
	}
	var rest []string
	for p := range after {
		rest = append(rest, p)
	}
	sort.Strings(rest)
	for _, p := range rest {
		if after[p] != before[p] || touched(p) {
			o.OthersTouched = true
		}
	}
	for p := range before {
		if _, ok := after[p]; !ok {
			o.OthersTouched = true
		}
	}
	return o
}

// pathFailRR fails when asked about one of the given package paths; it records what it is asked.
type pathFailRR struct {
	inner resolver.RestorerResolver
	fail  map[string]bool
	asked map[string]bool
	err   error
	mu    sync.Mutex
}

func (f *pathFailRR) ResolvePackage(path string) (string, error) {
	f.mu.Lock()
	if f.asked != nil {
		f.asked[path] = true
	}
	bad := f.fail[path]
	f.mu.Unlock()
	if bad {
		return "", f.err
	}
	return f.inner.ResolvePackage(path)
}

func checkC20(c *Ctx) {
	if os.Getenv("VERIF_PART") == "corpus" { // development aid: the corpus leg only
		c20Corpus(c)
		return
	}
	c.Assume("decorator.Load cannot run offline (go/packages); the Package value is built by hand around a packages.Package with only PkgPath set, which is all save() reads")
	for _, v := range []string{"code", "continue-after-error", "wrong-path", "no-truncate"} {
		r, err := RunTLC(TLCRun{Module: "Save", Workers: 2, Timeout: 5 * time.Minute, Cfg: fmt.Sprintf("CONSTANTS NFiles = 4 Variant = \"%s\"\nINIT Init\nNEXT Next\nINVARIANTS OnlyRecordedPaths OwnContents StopAtFirstError AllWrittenOnSuccess\nCHECK_DEADLOCK FALSE\n", v)})
		if err != nil || (v == "code" && !r.OK()) || (v != "code" && r.Violated == "") {
			c.Infra("TLC (Save) unexpected result for variant " + v + ": " + errText(r, err))
			return
		}
		if v == "code" {
			c.TLC(r)
		}
	}
	c.Set("model", "Save.tla: 4 files x failure at any file; continue-after-error, wrong-path and no-truncate variants rejected")
	r := rand.New(rand.NewSource(c.Seed))
	tr := &ndjson{}
	var keys []string
	var replays []obj
	n := 0
	// all packages of 1..3 files (ordered picks of the sources) x directories x edited masks x failure position
	for nf := 1; nf <= 3; nf++ {
		var picks [][]int
		var gen func(cur []int)
		gen = func(cur []int) {
			if len(cur) == nf {
				picks = append(picks, append([]int{}, cur...))
				return
			}
			for s := range c20Sources {
				gen(append(cur, s))
			}
		}
		gen(nil)
		for _, pick := range picks {
			if c.Quick() && nf == 3 && r.Intn(7) != 0 {
				continue
			}
			if !c.Quick() && nf == 3 && r.Intn(5) >= 3 { // 12 sources: 1728 ordered triples, three fifths of them
				continue
			}
			for dirs := 1; dirs <= 2 && dirs <= nf; dirs++ {
				nm := 1
				for i := 0; i < nf; i++ {
					nm *= 3
				}
				if nf == 1 {
					nm = 4 // a single file is also edited in the case of its letters only (3)
				}
				for mask := 0; mask < nm; mask++ {
					if c.Quick() && nf >= 2 && r.Intn(4) != 0 {
						continue
					}
					edited := make([]int, nf) // 0 unedited, 1 a declaration added, 2 the last declaration removed
					for i, m := 0, mask; i < nf; i, m = i+1, m/3 {
						edited[i] = m % 3
					}
					if nf == 1 && mask == 3 {
						edited[0] = 3
					}
					for fail := 0; fail <= nf; fail++ {
						rel := n%4 == 3
						o := c20Run(pick, dirs, edited, fail, rel)
						key := fmt.Sprintf("files=%v dirs=%d edited=%v fail@%d", pick, dirs, edited, fail)
						if rel {
							key += " relative-names"
						}
						if o.Msg != "" && !o.Panic {
							c.Infra("harness: " + o.Msg)
							return
						}
						c.Eval(key, fail > 0 || mask != 0)
						if o.Panic {
							c.Fail(Finding{Sig: "save-panics", Input: key, What: o.Msg, Replay: obj{"kind": "c20", "key": key, "pick": pick, "dirs": dirs, "edited": edited, "fail": fail, "rel": rel}})
						}
						for i := range o.Written {
							if o.FailFile != 0 && i+1 < o.FailFile && !o.Written[i] {
								// Save.tla writes file by file; the property does not ask for it (I-layer)
								c.Set("model_conformance", false)
								c.Set("files_before_a_failure_not_written", true)
							}
						}
						tr.Add(o)
						keys = append(keys, key)
						replays = append(replays, obj{"kind": "c20", "key": key, "pick": pick, "dirs": dirs, "edited": edited, "fail": fail, "rel": rel})
						n++
						if n%97 == 0 {
							c.Sample(obj{"case": key, "observed": o})
						}
					}
				}
			}
		}
	}
	c.Traces(int64(tr.Len()))
	var items []traceItem
	for j, ln := range bytes.Split(bytes.TrimRight(tr.Bytes(), "\n"), []byte("\n")) {
		items = append(items, traceItem{Key: keys[j], Trace: append(append([]byte{}, ln...), '\n'), Events: 1, Replay: replays[j]})
	}
	validateTraces(c, "SaveTrace", saveTraceCfg, items, 3000, false, func(it traceItem, res *TLCResult) {
		c.Fail(Finding{Sig: "save-" + res.Violated, Input: it.Key, What: fmt.Sprintf("predicate %s of SaveTrace.tla fails: %s (%s)", res.Violated, truncate(string(it.Trace), 400), it.Key), Replay: it.Replay})
	})
	c20Corpus(c)
	c20TwoPass(c)
	c.Set("rule", "case = one package (1-3 files from ten sources, 1-2 directories, each file unedited, grown or shrunk by an edit) saved with a resolver failing while file i is printed (i = 0..n); non-trivial = a failure or an edit; distinct by package + edit mask + failure position")
}

func init() {
	replayers["c20"] = func(raw json.RawMessage) string {
		var r struct {
			Pick, Edited []int
			Dirs, Fail   int
			Rel          bool
		}
		if json.Unmarshal(raw, &r) != nil || len(r.Pick) == 0 || len(r.Edited) != len(r.Pick) {
			return ""
		}
		o := c20Run(r.Pick, r.Dirs, r.Edited, r.Fail, r.Rel)
		if o.Panic {
			return "SaveWithResolver panicked: " + o.Msg
		}
		for i := range o.Written {
			if o.Written[i] && !o.Own[i] {
				return fmt.Sprintf("file %d on disk is not the import-managed print of its decorated file", i+1)
			}
			if o.Written[i] && o.Unedited[i] && !o.Identical[i] {
				return fmt.Sprintf("unedited file %d changed on disk", i+1)
			}
			if o.FailFile != 0 && i+1 >= o.FailFile && o.Written[i] {
				return fmt.Sprintf("file %d written after the resolver failed at file %d", i+1, o.FailFile)
			}
		}
		if o.OthersTouched {
			return "a path that was not loaded was written"
		}
		if o.FailFile != 0 && (!o.Err || !o.Wrapped) {
			return "the resolver failure was not returned"
		}
		return ""
	}
}

// c20TwoPass: a package saved, edited, saved again, edited back, saved again (one Decorator, a fresh
// Restorer inside every Save; the earlier saves have edited the import declarations of the trees).
func c20TwoPass(c *Ctx) {
	root, err := os.MkdirTemp("", "dstv-save2-")
	if err != nil {
		c.Infra(err.Error())
		return
	}
	defer os.RemoveAll(root)
	srcs := map[string]string{"a.go": "package pkg\n\nfunc A() {}\n", "b.go": "package pkg\n\nimport \"os\"\n\nvar B = os.Args\n"}
	fset := token.NewFileSet()
	d := decorator.NewDecoratorWithImports(fset, "example.com/pkg", goast.WithResolver(guess.New()))
	pkg := &decorator.Package{Package: &packages.Package{PkgPath: "example.com/pkg"}, Decorator: d, Dir: root}
	byName := map[string]*dst.File{}
	for _, name := range []string{"a.go", "b.go"} {
		p := filepath.Join(root, name)
		os.WriteFile(p, []byte(srcs[name]), 0644)
		af, err := parser.ParseFile(fset, p, nil, parser.ParseComments)
		if err != nil {
			c.Infra(err.Error())
			return
		}
		df, err := d.DecorateFile(af)
		if err != nil {
			c.Infra(err.Error())
			return
		}
		pkg.Syntax = append(pkg.Syntax, df)
		byName[name] = df
	}
	read := func(name string) string {
		b, _ := os.ReadFile(filepath.Join(root, name))
		return string(b)
	}
	step := func(label string, want map[string]string) bool {
		key := "save-edit-save|" + label
		c.Eval(key, true)
		var serr error
		if msg := guard(func() { serr = pkg.SaveWithResolver(guess.New()) }); msg != "" || serr != nil {
			c.Fail(Finding{Sig: "save-again-fails", Input: key, What: fmt.Sprintf("%s %v", msg, serr), Replay: obj{"kind": "none"}})
			return false
		}
		for name, w := range want {
			if got := read(name); got != w {
				c.Fail(Finding{Sig: "save-again-wrong-contents", Input: key, What: fmt.Sprintf("%s on disk after step %q:\n%s\nexpected:\n%s", name, label, got, w), Replay: obj{"kind": "none"}})
				return false
			}
		}
		return true
	}
	if !step("unedited", srcs) {
		return
	}
	fa := byName["a.go"].Decls[0].(*dst.FuncDecl)
	fa.Body.List = append(fa.Body.List, &dst.ExprStmt{X: &dst.CallExpr{Fun: &dst.Ident{Name: "Println", Path: "fmt"}}})
	withCall := "package pkg\n\nimport \"fmt\"\n\nfunc A() { fmt.Println() }\n"
	if !step("reference added", map[string]string{"a.go": withCall, "b.go": srcs["b.go"]}) {
		return
	}
	if !step("saved again", map[string]string{"a.go": withCall, "b.go": srcs["b.go"]}) {
		return
	}
	fa.Body.List = nil
	fb := byName["b.go"]
	fb.Decls = fb.Decls[:1] // the import declaration stays in the tree, its only user goes
	step("references removed", map[string]string{"a.go": srcs["a.go"], "b.go": "package pkg\n"})
}

// c20Corpus: unedited identity on real files. Every gofmt-canonical corpus file that the syntax-based
// resolver accepts (no dot-import) and that does not import one path twice (K4, under C08) is written to
// a directory, decorated with import management, put into a hand-built Package and saved: the bytes on
// disk are those that were there, and nothing else in the directory is touched.
func c20Corpus(c *Ctx) {
	files := corpus(c, map[bool]int{true: 40, false: 600}[c.Quick()])
	type res struct{ sig, what string }
	out := make([]res, len(files))
	parallel(len(files), func(i int) {
		f := files[i]
		if len(f.Src) > 40000 || !isCanonical(f.Src) || dupImport(f.Src) || bytes.Contains(f.Src, []byte("import \"C\"")) {
			return
		}
		// accurate package names (read from the imported packages' sources; the hand-written files import
		// invented packages, whose names are the last elements of their paths): a resolver that only guesses
		// would be the one to blame for an import that disappears
		names, ok := exactImportNames(f.Src)
		if !ok {
			if !strings.Contains(f.Path, "/corpus/extra/") {
				return
			}
			names = nil
		}
		var rr resolver.RestorerResolver = guess.New()
		if names != nil {
			rr = simple.New(names)
		}
		root, err := os.MkdirTemp("", "dstv-savec-")
		if err != nil {
			return
		}
		defer os.RemoveAll(root)
		p := filepath.Join(root, "x.go")
		other := filepath.Join(root, "other.txt")
		os.WriteFile(p, f.Src, 0644)
		os.WriteFile(other, []byte("keep"), 0644)
		fset := token.NewFileSet()
		d := decorator.NewDecoratorWithImports(fset, "example.com/pkg", goast.WithResolver(rr))
		af, err := parser.ParseFile(fset, p, nil, parser.ParseComments)
		if err != nil {
			return
		}
		var df *dst.File
		if msg := guard(func() { df, err = d.DecorateFile(af) }); msg != "" || err != nil {
			return // refused (dot-import) or a panic that C15 / C09 report
		}
		pkg := &decorator.Package{Package: &packages.Package{PkgPath: "example.com/pkg"}, Decorator: d, Dir: root, Syntax: []*dst.File{df}}
		var serr error
		msg := guard(func() { serr = pkg.SaveWithResolver(rr) })
		key := "corpus-save|" + f.Path
		c.Eval(key, true)
		switch {
		case msg != "":
			out[i] = res{"save-panics", msg}
		case serr != nil:
			out[i] = res{"save-unedited-fails", serr.Error()}
		default:
			after, _ := os.ReadFile(p)
			oth, _ := os.ReadFile(other)
			names, _ := os.ReadDir(root)
			if !bytes.Equal(after, f.Src) {
				switch {
				case unindentClosingComments(after) == unindentClosingComments(f.Src):
					// K6 (recorded under C01): the only difference is a comment aligned with the closing bracket below it
					out[i] = res{"comment-before-closing-bracket-reindented", diffAt(f.Src, after)}
				case unindentLineDirectives(after) == unindentLineDirectives(f.Src):
					// K5: a //line directive in column 1 inside indented code
					out[i] = res{"line-directive-reindented", diffAt(f.Src, after)}
				default:
					out[i] = res{"save-unedited-file-changed", diffAt(f.Src, after)}
				}
			} else if string(oth) != "keep" || len(names) != 2 {
				out[i] = res{"save-touches-other-files", fmt.Sprintf("%d entries in the directory", len(names))}
			}
		}
	})
	n := 0
	for i, r := range out {
		if r.sig != "" {
			in := "corpus-save|" + files[i].Path
			if r.sig == "comment-before-closing-bracket-reindented" {
				in = "closing-aligned|" + in
			}
			if r.sig == "line-directive-reindented" {
				in = "line-directives|" + in
			}
			c.Fail(Finding{Sig: r.sig, Input: in, What: r.what + " (" + files[i].Path + ")", Replay: obj{"kind": "none"}})
		}
		n++
	}
	c.Set("corpus_files_saved", n)
}
