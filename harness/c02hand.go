package main

import (
	"fmt"
	"go/token"
	"reflect"
	"strings"

	"github.com/dave/dst"
)

// c02HandBuilt: the TLC-generated edit histories on declaration lists that no parser produced. Every
// element is built from struct literals (stubs without a body, methods, grouped constants, struct
// types, ...), every decoration point of every node in it - including the points of the FuncType
// inside a FuncDecl, which the decorator never fills - carries one block comment that names the element,
// and the elements are an empty line apart. Oracles: (1) each element's comments are printed exactly
// once; (2) after the edits each file prints as the concatenation, in the edited order, of the text
// each element prints as when it stands alone in a file (clones print like their originals).
var c02HandShapes = []struct {
	name string
	mk   func(id int) dst.Decl
}{
	{"stub", func(id int) dst.Decl {
		return &dst.FuncDecl{Name: dst.NewIdent(fmt.Sprintf("stub%d", id)), Type: &dst.FuncType{
			Params:  &dst.FieldList{List: []*dst.Field{{Names: []*dst.Ident{dst.NewIdent("p")}, Type: dst.NewIdent("uintptr")}}},
			Results: &dst.FieldList{List: []*dst.Field{{Type: dst.NewIdent("int")}}}}}
	}},
	{"func", func(id int) dst.Decl {
		return &dst.FuncDecl{Name: dst.NewIdent(fmt.Sprintf("fn%d", id)), Type: &dst.FuncType{Params: &dst.FieldList{}},
			Body: &dst.BlockStmt{List: []dst.Stmt{&dst.ReturnStmt{}}}}
	}},
	{"var", func(id int) dst.Decl {
		return &dst.GenDecl{Tok: token.VAR, Specs: []dst.Spec{&dst.ValueSpec{Names: []*dst.Ident{dst.NewIdent(fmt.Sprintf("v%d", id))},
			Type: dst.NewIdent("int"), Values: []dst.Expr{&dst.BasicLit{Kind: token.INT, Value: "1"}}}}}
	}},
	{"struct", func(id int) dst.Decl {
		return &dst.GenDecl{Tok: token.TYPE, Specs: []dst.Spec{&dst.TypeSpec{Name: dst.NewIdent(fmt.Sprintf("T%d", id)),
			Type: &dst.StructType{Fields: &dst.FieldList{Opening: true, Closing: true, List: []*dst.Field{{Names: []*dst.Ident{dst.NewIdent("A")}, Type: dst.NewIdent("int")}}}}}}}
	}},
	{"method", func(id int) dst.Decl {
		return &dst.FuncDecl{Recv: &dst.FieldList{Opening: true, Closing: true, List: []*dst.Field{{Names: []*dst.Ident{dst.NewIdent("r")}, Type: dst.NewIdent("R")}}},
			Name: dst.NewIdent(fmt.Sprintf("m%d", id)), Type: &dst.FuncType{Params: &dst.FieldList{Opening: true, Closing: true}}, Body: &dst.BlockStmt{}}
	}},
	{"stub-method", func(id int) dst.Decl {
		return &dst.FuncDecl{Recv: &dst.FieldList{List: []*dst.Field{{Type: dst.NewIdent("R")}}},
			Name: dst.NewIdent(fmt.Sprintf("sm%d", id)), Type: &dst.FuncType{Params: &dst.FieldList{}}} // go/ast: Params is non-nil
	}},
	{"const-group", func(id int) dst.Decl {
		s1 := &dst.ValueSpec{Names: []*dst.Ident{dst.NewIdent(fmt.Sprintf("c%d", id))}, Values: []dst.Expr{dst.NewIdent("iota")}}
		s2 := &dst.ValueSpec{Names: []*dst.Ident{dst.NewIdent(fmt.Sprintf("d%d", id))}}
		s1.Decs.Before, s2.Decs.Before, s2.Decs.After = dst.NewLine, dst.NewLine, dst.NewLine
		return &dst.GenDecl{Tok: token.CONST, Lparen: true, Rparen: true, Specs: []dst.Spec{s1, s2}}
	}},
}

// fillHand puts one block comment on every decoration point of every node of the element.
func fillHand(d dst.Decl, id int) (texts []string) {
	k := 0
	dst.Inspect(d, func(n dst.Node) bool {
		if n == nil {
			return false
		}
		k++
		v := reflect.ValueOf(n).Elem().FieldByName("Decs")
		if !v.IsValid() {
			return true
		}
		var fill func(v reflect.Value)
		fill = func(v reflect.Value) {
			for i := 0; i < v.NumField(); i++ {
				fv := v.Field(i)
				switch {
				case fv.Type() == reflect.TypeOf(dst.Decorations{}):
					t := fmt.Sprintf("/*e%d.%d.%s*/", id, k, v.Type().Field(i).Name)
					fv.Set(reflect.ValueOf(dst.Decorations{t}))
					texts = append(texts, t)
				case fv.Kind() == reflect.Struct:
					fill(fv)
				}
			}
		}
		fill(v)
		return true
	})
	d.Decorations().Before, d.Decorations().After = dst.EmptyLine, dst.EmptyLine
	return texts
}

func c02HandBuilt(c *Ctx, hists [][]editOp) {
	n := 3
	nShapes := len(c02HandShapes)
	perShape := 12
	if !c.Quick() {
		perShape = 150
	}
	build := func(id, rot int) (dst.Decl, []string) {
		d := c02HandShapes[(id+rot)%nShapes].mk(id)
		return d, fillHand(d, id)
	}
	alone := func(d dst.Decl) (string, string) {
		out, msg := printFile(&dst.File{Name: dst.NewIdent("p"), Decls: []dst.Decl{d}})
		if msg != "" {
			return "", msg
		}
		return strings.TrimSuffix(strings.TrimPrefix(out, "package p\n\n"), "\n"), ""
	}
	for rot := 0; rot < nShapes; rot++ {
		// the text of each element on its own, and oracle (1)
		chunks := map[int]string{}
		bad := false
		for id := 1; id <= 2*n; id++ {
			d, texts := build(id, rot)
			shape := c02HandShapes[(id+rot)%nShapes].name
			key := fmt.Sprintf("hand-built|%s|alone", shape)
			c.Eval(key, true)
			txt, msg := alone(d)
			if msg != "" {
				c.Fail(Finding{Sig: "edit-print-fails", Input: key, What: "a hand-built declaration alone in a file: " + msg, Replay: obj{"kind": "none"}})
				bad = true
				break
			}
			chunks[id] = txt
			for _, t := range texts {
				if strings.Count(txt, t) != 1 {
					c.Fail(Finding{Sig: "hand-built-comment-not-rendered-once", Input: key, What: fmt.Sprintf("%s: the comment %s of a hand-built %s is printed %d times:\n%s", shape, t, shape, strings.Count(txt, t), txt), Replay: obj{"kind": "none"}})
					bad = true
				}
			}
		}
		if bad {
			continue
		}
		for k := 0; k < perShape; k++ {
			hist := hists[(rot*7919+k*104729)%len(hists)]
			fa, fb := &dst.File{Name: dst.NewIdent("p")}, &dst.File{Name: dst.NewIdent("p")}
			for id := 1; id <= n; id++ {
				da, _ := build(id, rot)
				db, _ := build(n+id, rot)
				fa.Decls, fb.Decls = append(fa.Decls, da), append(fb.Decls, db)
			}
			la, lb := reflect.ValueOf(&fa.Decls).Elem(), reflect.ValueOf(&fb.Decls).Elem()
			get := func(l string) reflect.Value {
				if l == "a" {
					return la
				}
				return lb
			}
			var last editOp
			for _, op := range hist {
				last = op
				v := get(op.L)
				switch op.Op {
				case "swap":
					x, y := reflect.ValueOf(v.Index(op.I-1).Interface()), reflect.ValueOf(v.Index(op.J-1).Interface())
					v.Index(op.I - 1).Set(y)
					v.Index(op.J - 1).Set(x)
				case "delete":
					removeAt(v, op.I-1)
				case "dup":
					insertAt(v, op.J-1, reflect.ValueOf(dst.Clone(v.Index(op.I-1).Interface().(dst.Node))))
				case "move":
					other := "a"
					if op.L == "a" {
						other = "b"
					}
					insertAt(get(other), op.J-1, removeAt(v, op.I-1))
				}
			}
			key := fmt.Sprintf("hand-built|rot%d|%s", rot, histString(hist))
			c.Eval(key, true)
			c.Add("cases|hand-built File.Decls", 1)
			for fi, f := range []*dst.File{fa, fb} {
				ids := last.RA
				if fi == 1 {
					ids = last.RB
				}
				var parts []string
				for _, id := range ids {
					parts = append(parts, chunks[id%100])
				}
				want := "package p\n"
				if len(parts) > 0 {
					want = "package p\n\n" + strings.Join(parts, "\n\n") + "\n"
				}
				got, msg := printFile(f)
				if msg != "" {
					c.Fail(Finding{Sig: "edit-print-fails", Input: key, What: msg, Replay: obj{"kind": "none"}})
					break
				}
				if got != want {
					c.Fail(Finding{Sig: "hand-built-list-edit-text-differs", Input: key, What: truncate(fmt.Sprintf("hand-built declarations after %s: file %d prints\n%s\nbut its elements, each alone, print as\n%s", histString(hist), fi+1, got, want), 1500), Replay: obj{"kind": "none"}})
					break
				}
			}
		}
	}
}
