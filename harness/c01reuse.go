package main

import (
	"bytes"
	"encoding/json"
	"fmt"
	"go/ast"
	"go/format"
	"go/token"
	"strings"
	"time"

	"github.com/dave/dst"
	"github.com/dave/dst/decorator"
	"github.com/dave/dst/decorator/resolver/goast"
	"github.com/dave/dst/decorator/resolver/guess"
)

// ---- Reuse.tla: one Decorator, one Restorer and one FileRestorer used for several files ----

// three gofmt-canonical sources whose line structure differs at every line
var reuseSources = []string{
	`package p

// A is documented
// on two lines.
type A struct {
	X int // x

	Y []int
}

func (a A) f() {
	switch a.X {
	case 1:
		// fall through
	}

	g(1,
		2,
	)
}
`,
	`// Package p has a package comment.
package p

import "fmt"

var x = []int{
	1, // one
	2,

	3, // three
}

func h(a int,
	b int,
) {
	fmt.Println(a, b) /* done */
}
`,
	`package p

const c = 1

/* block */

// last
func k() {}
`,
}

const reuseMC = `---- MODULE ReuseMC ----
EXTENDS Reuse
MCSize == [f \in Files |-> CASE f = 1 -> %d [] f = 2 -> %d [] OTHER -> %d]
====
`

func reuseCfg(maxCalls int, variant string, emit bool) string {
	return fmt.Sprintf("CONSTANTS Files = {1, 2, 3} MaxCalls = %d Variant = \"%s\" EmitHist = %s CanRefuse = %s\nSize <- MCSize\nINIT Init\nNEXT Next\nINVARIANTS Stable Unshared Disjoint MapsKept Emit\nVIEW View\nCHECK_DEADLOCK FALSE\n", maxCalls, variant, tlaBool(emit), tlaBool(reuseImports || variant == "resetOnRefusal"))
}

type reuseOp struct {
	Op  string
	A   int
	Via string
}
type reuseBeh struct{ Hist []reuseOp }

// reuseReplay steps one behaviour of Reuse.tla through the real objects. Every print must give the
// source of the file (C01: the sources are canonical), and every restored file must equal, in line
// count and position range size, what a fresh Restorer makes of the same decorated file.
func reuseReplay(b reuseBeh) string { return reuseReplayWith(b, reuseSources, reuseJudgeBytes) }

// reuseJudgeBytes: canonical sources come back byte for byte (C01, C05)
func reuseJudgeBytes(src, out string) string {
	if out != src {
		return "is not the source: " + diffAt([]byte(src), []byte(out))
	}
	return ""
}

// reuseImports: the objects of the replay manage imports (goast decorator resolver, guess restorer
// resolver); set by the C07 run only, for the duration of that run
var reuseImports bool

func reuseObjects() (*decorator.Decorator, *decorator.Restorer) {
	if reuseImports {
		return decorator.NewDecoratorWithImports(token.NewFileSet(), "main", goast.New()), decorator.NewRestorerWithImports("main", guess.New())
	}
	return decorator.NewDecorator(token.NewFileSet()), decorator.NewRestorer()
}

func reuseReplayWith(b reuseBeh, sources []string, judge func(src, out string) string) string {
	d, r := reuseObjects()
	fr := r.FileRestorer()
	type dfile struct {
		src int
		f   *dst.File
	}
	type result struct {
		src int
		f   *ast.File
	}
	var dfiles []dfile
	var results []result
	printOf := func(k int) string {
		res := results[k]
		var buf bytes.Buffer
		if err := format.Node(&buf, r.Fset, res.f); err != nil {
			return fmt.Sprintf("result %d (source %d) does not print: %v", k+1, res.src, err)
		}
		if msg := judge(sources[res.src-1], buf.String()); msg != "" {
			return fmt.Sprintf("result %d (source %d), printed after %d restores on the same objects, %s", k+1, res.src, len(results), msg)
		}
		tf := r.Fset.File(res.f.Pos())
		if tf == nil || r.Fset.File(res.f.End()-1) != tf {
			return fmt.Sprintf("result %d (source %d) does not lie in one file of the restorer's file set", k+1, res.src)
		}
		if want := reuseFreshLines(sources[res.src-1]); tf.LineCount() != want {
			return fmt.Sprintf("result %d (source %d): the line table of its token.File has %d lines, restored alone it has %d", k+1, res.src, tf.LineCount(), want)
		}
		return ""
	}
	for n, op := range b.Hist {
		switch op.Op {
		case "refuse":
			// a file the syntax-based resolver refuses (dot-import), on the same Decorator
			if _, err := d.Parse("package refused\n\nimport . \"strings\"\n\nvar _ = ToUpper(\"x\")\n"); err == nil {
				return "harness: the dot-import file was not refused"
			}
			for i, df := range dfiles {
				if d.Ast.Nodes[df.f] == nil {
					return fmt.Sprintf("call %d: after a refused decoration the Decorator's maps no longer know decorated file %d (source %d)", n+1, i+1, df.src)
				}
			}
		case "decorate":
			f, err := d.Parse(sources[op.A-1])
			if err != nil {
				return "harness: " + err.Error()
			}
			dfiles = append(dfiles, dfile{op.A, f})
		case "restore":
			df := dfiles[op.A-1]
			var af *ast.File
			var err error
			if op.Via == "fr" {
				af, err = fr.RestoreFile(df.f)
			} else {
				af, err = r.RestoreFile(df.f)
			}
			if err != nil {
				return fmt.Sprintf("call %d: restore of source %d fails: %v", n+1, df.src, err)
			}
			results = append(results, result{df.src, af})
		case "print":
			if msg := printOf(op.A - 1); msg != "" {
				return fmt.Sprintf("call %d: %s", n+1, msg)
			}
		}
	}
	// at the end every result still prints as its source
	for k := range results {
		if msg := printOf(k); msg != "" {
			return "at the end: " + msg
		}
	}
	return ""
}

// reuseFreshLines: the line count of the token.File when the source is decorated and restored alone.
func reuseFreshLines(src string) int {
	d, r := reuseObjects()
	f, err := d.Parse(src)
	if err != nil {
		return -1
	}
	af, err := r.RestoreFile(f)
	if err != nil {
		return -1
	}
	return r.Fset.File(af.Pos()).LineCount()
}

func c01Reuse(c *Ctx) bool {
	for i, s := range reuseSources {
		if !isCanonical([]byte(s)) {
			c.Infra(fmt.Sprintf("reuse source %d is not canonical", i+1))
			return false
		}
	}
	return reuseCheck(c, reuseSources, reuseJudgeBytes, "c01reuse")
}

// reuseCheck: Reuse.tla model-checked, its variants rejected, every emitted call sequence replayed on
// the real objects with the given sources and judge.
func reuseCheck(c *Ctx, sources []string, judge func(src, out string) string, kind string) bool {
	mcalls := 5
	if !c.Quick() {
		mcalls = 6
	}
	files := map[string][]byte{"ReuseMC.tla": []byte(fmt.Sprintf(reuseMC, len(sources[0]), len(sources[1]), len(sources[2])))}
	mc, err := RunTLC(TLCRun{Module: "ReuseMC", Cfg: reuseCfg(mcalls+1, "ok", false), Workers: 8, Timeout: 20 * time.Minute, Files: files})
	if err != nil || !mc.OK() {
		c.Infra("TLC model check of Reuse failed: " + errText(mc, err))
		return false
	}
	c.TLC(mc)
	for variant, inv := range map[string]string{"reuseLines": "Stable", "sameBase": "Disjoint", "resetOnRefusal": "MapsKept"} {
		v, err := RunTLC(TLCRun{Module: "ReuseMC", Cfg: reuseCfg(4, variant, false), Workers: 1, Timeout: 20 * time.Minute, Files: files})
		if err != nil || (v.Violated != inv && v.Violated != "Unshared") {
			c.Infra("TLC did not reject the " + variant + " variant of Reuse: " + errText(v, err))
			return false
		}
		c.TLC(v)
	}
	gen, err := RunTLC(TLCRun{Module: "ReuseMC", Cfg: reuseCfg(mcalls, "ok", true), Workers: 8, Timeout: 20 * time.Minute, Files: files})
	if err != nil || !gen.OK() {
		c.Infra("TLC generation run of Reuse failed: " + errText(gen, err))
		return false
	}
	c.TLC(gen)
	behs := gen.Payloads("BEH ")
	if len(behs) == 0 {
		c.Infra("TLC emitted no Reuse behaviours")
		return false
	}
	c.Set("reuse_histories_replayed", len(behs))
	c.Set("reuse_bounds", fmt.Sprintf("all sequences of %d calls (decorate one of 3 sources with the shared Decorator; restore any decorated file through the shared FileRestorer or through Restorer.RestoreFile; print any earlier result) that end in a print", mcalls))
	fails := make([]string, len(behs))
	parallel(len(behs), func(i int) {
		var b reuseBeh
		if err := json.Unmarshal([]byte(behs[i]), &b); err != nil {
			fails[i] = "harness: bad Reuse behaviour: " + err.Error()
			return
		}
		if msg := guard(func() { fails[i] = reuseReplayWith(b, sources, judge) }); msg != "" {
			fails[i] = msg
		}
	})
	for i, msg := range fails {
		c.Eval("reuse-history|"+behs[i], true)
		c.Traces(1)
		if msg == "" {
			continue
		}
		if strings.HasPrefix(msg, "harness:") {
			c.Infra(msg)
			return false
		}
		c.Fail(Finding{Sig: "reused-objects-history-dependent", Input: "reuse-history|" + shortHash(behs[i]), What: "one Decorator / Restorer / FileRestorer used for several files, calls " + truncate(behs[i], 300) + ": " + msg, Replay: obj{"kind": kind, "beh": behs[i]}})
	}
	return true
}

func init() {
	replayers["c01reuse"] = func(raw json.RawMessage) string {
		var r struct{ Beh string }
		json.Unmarshal(raw, &r)
		var b reuseBeh
		if json.Unmarshal([]byte(r.Beh), &b) != nil {
			return ""
		}
		return reuseReplay(b)
	}
}

// sources for Reuse.tla under C07: one path under an alias, plainly, and a standard name used as the
// alias of another package; what a file is printed as may not depend on the files restored before it
var c07ReuseSources = []string{
	"package main\n\nimport f \"fmt\"\n\nfunc a() { f.Println(\"a\") }\n",
	"package main\n\nimport \"fmt\"\n\nfunc b() { fmt.Println(\"b\") }\n",
	"package main\n\nimport (\n\tfmt \"os\"\n\tstr \"strings\"\n)\n\nfunc c() { fmt.Exit(len(str.ToUpper(\"c\"))) }\n",
}

// c07ReuseJudge: the print equals the import-managed print of the same source through fresh objects
func c07ReuseJudge(src, out string) string {
	d, r := reuseObjects()
	f, err := d.Parse(src)
	if err != nil {
		return ""
	}
	var buf bytes.Buffer
	if err := r.Fprint(&buf, f); err != nil {
		return ""
	}
	if buf.String() != out {
		return "is not what fresh objects print: " + diffAt(buf.Bytes(), []byte(out))
	}
	return ""
}

func c07Reuse(c *Ctx) bool {
	reuseImports = true
	defer func() { reuseImports = false }()
	return reuseCheck(c, c07ReuseSources, c07ReuseJudge, "c07reuse")
}

func init() {
	replayers["c07reuse"] = func(raw json.RawMessage) string {
		var r struct{ Beh string }
		json.Unmarshal(raw, &r)
		var b reuseBeh
		if json.Unmarshal([]byte(r.Beh), &b) != nil {
			return ""
		}
		reuseImports = true
		defer func() { reuseImports = false }()
		return reuseReplayWith(b, c07ReuseSources, c07ReuseJudge)
	}
}
