package main

import (
	"encoding/json"
	"fmt"
	"go/ast"
	"go/parser"
	"go/token"
	"math/rand"
	"os"
	"time"

	"github.com/dave/dst"
	"github.com/dave/dst/decorator"
)

func init() { register("C13", "model_checking", checkC13) }

const walkTraceCfg = `INIT TInit
NEXT TNext
VIEW View
INVARIANTS VisitedExactly AstOrder
POSTCONDITION Accepted
CHECK_DEADLOCK FALSE
`

// pruneRule decides, for the k-th visit of node n at depth d, whether to descend.
type pruneRule struct {
	Name string
	Keep func(k int, n dst.Node, depth int) bool
}

func c13Rules(r *rand.Rand, nNodes int) []pruneRule {
	rules := []pruneRule{
		{"none", func(int, dst.Node, int) bool { return true }},
		{"depth>3", func(_ int, _ dst.Node, d int) bool { return d <= 3 }},
		{"type=BlockStmt", func(_ int, n dst.Node, _ int) bool { _, ok := n.(*dst.BlockStmt); return !ok }},
		{"type=FuncType|CallExpr|GenDecl", func(_ int, n dst.Node, _ int) bool {
			switch n.(type) {
			case *dst.FuncType, *dst.CallExpr, *dst.GenDecl:
				return false
			}
			return true
		}},
		{"root", func(k int, _ dst.Node, _ int) bool { return k != 1 }},
	}
	for i := 0; i < 2; i++ {
		m := 2 + r.Intn(7)
		rules = append(rules, pruneRule{fmt.Sprintf("every-%dth", m), func(k int, _ dst.Node, _ int) bool { return k%m != 0 }})
	}
	if nNodes > 3 {
		kk := 2 + r.Intn(nNodes-2)
		rules = append(rules, pruneRule{fmt.Sprintf("only-visit-%d", kk), func(k int, _ dst.Node, _ int) bool { return k != kk }})
	}
	return rules
}

type walkLogger struct {
	ids   map[dst.Node]int
	rule  pruneRule
	out   *ndjson
	k     int
	depth int
	bad   string
}

// Visit implements dst.Visitor; the returned visitor carries the depth.
type walkVisitor struct {
	l     *walkLogger
	depth int
}

func (v walkVisitor) Visit(n dst.Node) dst.Visitor {
	if n == nil {
		v.l.out.Add(obj{"ev": "nil", "vis": v.depth})
		return nil
	}
	v.l.k++
	id, ok := v.l.ids[n]
	if !ok {
		v.l.bad = fmt.Sprintf("visited a node that is not reachable through struct fields: %T", n)
		id = 0
	}
	keep := v.l.rule.Keep(v.l.k, n, v.depth)
	v.l.out.Add(obj{"ev": "visit", "n": id, "keep": keep, "vis": v.depth})
	if !keep {
		return nil
	}
	return walkVisitor{v.l, v.depth + 1}
}

func checkC13(c *Ctx) {
	c.Assume("the exported tree (reflection over struct fields) is the ground truth for 'reachable through syntactic child fields'")
	c.Assume("go/ast.Inspect defines the reference order on the original ast")
	// (M) the Walk machine satisfies the property on every ordered tree up to MaxNodes nodes and every pruning choice
	maxNodes := 5
	if !c.Quick() {
		maxNodes = 7
	}
	mc, err := RunTLC(TLCRun{Module: "Walk", Workers: 8, Timeout: 20 * time.Minute, Cfg: fmt.Sprintf(`CONSTANT MaxNodes = %d
INIT MCInit
NEXT MCNext
INVARIANTS VisitedAtMostOnce VisitedExactly PreOrder SiblingOrder
CHECK_DEADLOCK FALSE
`, maxNodes)})
	if err != nil || !mc.OK() {
		c.Infra("TLC model check of Walk failed: " + errText(mc, err))
		return
	}
	c.TLC(mc)
	c.Set("mc_bounds", fmt.Sprintf("all ordered trees with <= %d nodes x all keep/prune answers", maxNodes))
	c.Set("exhaustive", true)

	// (T) visitor logs of the real Walk / Inspect validated against the machine
	nFiles := 14
	if !c.Quick() {
		nFiles = 160
	}
	files := corpus(c, nFiles)
	r := rand.New(rand.NewSource(c.Seed))
	type job struct {
		f     srcFile
		trace *ndjson
		runs  int
		seeds int64
	}
	jobs := make([]*job, len(files))
	for i, f := range files {
		jobs[i] = &job{f: f, seeds: r.Int63()}
	}
	parallel(len(jobs), func(i int) {
		j := jobs[i]
		j.trace, j.runs = c13Record(c, j.f, rand.New(rand.NewSource(j.seeds)))
	})
	var items []traceItem
	for _, j := range jobs {
		if j.trace == nil {
			continue
		}
		items = append(items, traceItem{Key: j.f.Path, Trace: j.trace.Bytes(), Events: j.trace.Len(), Replay: obj{"kind": "c13", "path": j.f.Path}})
		c.Traces(int64(j.runs))
	}
	events := validateTraces(c, "WalkTrace", walkTraceCfg, items, 25000, false, func(it traceItem, res *TLCResult) {
		c.Fail(Finding{Sig: "walk-trace-rejected", Input: it.Key, What: rejectText(res) + " " + offendingEvent(it, res) + " in " + it.Key, Replay: it.Replay})
	})
	c.Set("trace_events", events)
	c13Clones(c)
	c13HandBuilt(c)
	c13Package(c)
	c.Set("rule", "case = one traversal (Walk or Inspect) of one file under one pruning rule; non-trivial = the rule prunes at least one node that has children, or it is the full traversal compared with go/ast; distinct by file+rule")
}

// c13Record records the traversals of one file. P-oracles that need no model run here as well.
func c13Record(c *Ctx, f srcFile, r *rand.Rand) (*ndjson, int) {
	fset := token.NewFileSet()
	af, err := parser.ParseFile(fset, f.Path, f.Src, parser.ParseComments)
	if err != nil {
		return nil, 0
	}
	var df *dst.File
	d := decorator.NewDecorator(fset)
	if msg := guard(func() { df, err = d.DecorateFile(af) }); msg != "" || err != nil {
		return nil, 0 // decoration failures belong to C01/C15
	}
	tree, ids := ExportDst(df)
	if len(tree.Nodes) > 6000 {
		return nil, 0 // the trace machine copies O(nodes) per event: very large files are left to the other checks
	}
	// reference order: ast.Inspect on the original ast, mapped to dst ids
	var astorder []int
	ast.Inspect(af, func(n ast.Node) bool {
		switch n.(type) {
		case nil, *ast.Comment, *ast.CommentGroup:
			return false
		}
		if dn, ok := d.Dst.Nodes[n]; ok {
			astorder = append(astorder, ids[dn])
		} else {
			astorder = append(astorder, -1)
		}
		return true
	})
	out := &ndjson{}
	out.Add(obj{"ev": "tree", "tree": obj{"root": tree.Root, "nodes": tree.Nodes, "astorder": astorder}})
	runs := 0
	first := true
	for _, rule := range c13Rules(r, len(tree.Nodes)) {
		for _, mode := range []string{"Walk", "Inspect"} {
			if !first {
				out.Add(obj{"ev": "reset"})
			}
			first = false
			lg := &walkLogger{ids: ids, rule: rule, out: out}
			var order []int
			msg := guard(func() {
				if mode == "Walk" {
					dst.Walk(walkVisitor{lg, 0}, df)
				} else {
					// Inspect has no depth; emulate with a stack
					depth := 0
					dst.Inspect(df, func(n dst.Node) bool {
						if n == nil {
							out.Add(obj{"ev": "nil", "vis": depth})
							depth--
							return false
						}
						lg.k++
						id := ids[n]
						order = append(order, id)
						keep := rule.Keep(lg.k, n, depth)
						out.Add(obj{"ev": "visit", "n": id, "keep": keep, "vis": depth})
						if keep {
							depth++
						}
						return keep
					})
				}
			})
			out.Add(obj{"ev": "end"})
			runs++
			key := f.Path + "|" + rule.Name + "|" + mode
			c.Eval(key, rule.Name != "root")
			if msg != "" {
				c.Fail(Finding{Sig: "walk-panic", Input: key, What: msg, Replay: obj{"kind": "c13", "path": f.Path}})
			}
			if lg.bad != "" {
				c.Fail(Finding{Sig: "walk-foreign-node", Input: key, What: lg.bad, Replay: obj{"kind": "c13", "path": f.Path}})
			}
		}
	}
	c.Sample(obj{"file": f.Path, "nodes": len(tree.Nodes), "traversals": runs, "events": out.Len()})
	return out, runs
}

func init() {
	replayers["c13"] = func(raw json.RawMessage) string {
		var r struct {
			Path string `json:"path"`
		}
		json.Unmarshal(raw, &r)
		b, err := os.ReadFile(r.Path)
		if err != nil {
			return "harness: " + err.Error()
		}
		c := newCtx("C13", "quick", 1, "model_checking")
		tr, _ := c13Record(c, srcFile{r.Path, b}, rand.New(rand.NewSource(1)))
		msg := ""
		if tr != nil {
			validateTraces(c, "WalkTrace", walkTraceCfg, []traceItem{{Key: r.Path, Trace: tr.Bytes(), Events: tr.Len()}}, 1<<30, false, func(it traceItem, res *TLCResult) {
				msg = rejectText(res) + " " + offendingEvent(it, res)
			})
		}
		if msg == "" && len(c.findings) > 0 {
			msg = c.findings[0].What
		}
		return msg
	}
}

// c13Clones: a tree that holds clones next to their sources (every declaration followed by a clone of
// itself, cloned twice over) is still a tree: Walk visits every node exactly once, and twice as many
// nodes as in the source.
func c13Clones(c *Ctx) {
	srcs := [][]byte{}
	if t, err := templateSrc(); err == nil {
		srcs = append(srcs, t)
	}
	for _, f := range corpus(c, 12) {
		srcs = append(srcs, f.Src)
	}
	for i, src := range srcs {
		f, err := decorator.Parse(src)
		if err != nil {
			continue
		}
		key := fmt.Sprintf("clones-in-tree|%d", i)
		c.Eval(key, true)
		count := func(n dst.Node) (int, map[dst.Node]int) {
			seen := map[dst.Node]int{}
			total := 0
			dst.Inspect(n, func(x dst.Node) bool {
				if x != nil {
					seen[x]++
					total++
				}
				return true
			})
			return total, seen
		}
		before, _ := count(f)
		var decls []dst.Decl
		for _, d := range f.Decls {
			decls = append(decls, d, dst.Clone(dst.Clone(d)).(dst.Decl))
		}
		f.Decls = decls
		after, seen := count(f)
		for n, k := range seen {
			if k > 1 {
				c.Fail(Finding{Sig: "node-visited-twice", Input: key, What: fmt.Sprintf("a %T is visited %d times in a tree made of declarations and their clones (a clone shares it with its source)", n, k), Replay: obj{"kind": "none"}})
				break
			}
		}
		// the file node and its name are not doubled
		if want := 2*before - 2; after != want {
			c.Fail(Finding{Sig: "clone-walk-count", Input: key, What: fmt.Sprintf("the source has %d nodes, with a clone next to every declaration Walk visits %d, expected %d", before, after, want), Replay: obj{"kind": "none"}})
		}
	}
}
