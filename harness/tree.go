package main

import (
	"fmt"
	"go/ast"
	"go/token"
	"reflect"
	"sort"
	"strings"

	"github.com/dave/dst"
)

// AKid is one child-carrying struct field of a node, in struct-declaration order.
type AKid struct {
	F    string `json:"f"`
	List bool   `json:"list"`
	Ids  []int  `json:"ids"`
}

// ADec is the content of one decoration point.
type ADec struct {
	P string   `json:"p"`
	D []string `json:"d"`
}

// ANode is the abstract node the specification talks about (NodeSchema.tla): the type, the facts the
// schema's conditions range over, the leaf text, the dynamic token, the child fields and decorations.
// It is produced by reflection over struct fields only, i.e. independently of walk.go, rewrite.go,
// the generated decorator/restorer/clone code and dstutil.Decorations.
type ANode struct {
	ID     int      `json:"id"`
	Type   string   `json:"type"`
	Truthy []string `json:"truthy"`
	S      string   `json:"s"` // Ident.Name / BasicLit.Value
	T      string   `json:"t"` // dynamic token text (Tok / Op)
	Kids   []AKid   `json:"kids"`
	Decs   []ADec   `json:"decs"`
	Before int      `json:"before"`
	After  int      `json:"after"`
	Path   string   `json:"path"`
}

// ATree is an exported tree; Nodes[i].ID == i+1; Root is the id of the root.
type ATree struct {
	Root  int     `json:"root"`
	Nodes []ANode `json:"nodes"`
}

var (
	dstNodeType = reflect.TypeOf((*dst.Node)(nil)).Elem()
	astNodeType = reflect.TypeOf((*ast.Node)(nil)).Elem()
	posType     = reflect.TypeOf(token.Pos(0))
	tokType     = reflect.TypeOf(token.Token(0))
)

type exporter struct {
	isAst bool
	ids   map[interface{}]int
	order []interface{}
	tree  ATree
}

func typeName(n interface{}) string {
	s := reflect.TypeOf(n).String()
	if i := strings.LastIndex(s, "."); i >= 0 {
		s = s[i+1:]
	}
	return s
}

func isNilNode(v reflect.Value) bool {
	switch v.Kind() {
	case reflect.Ptr, reflect.Interface:
		if v.IsNil() {
			return true
		}
		if v.Kind() == reflect.Interface {
			return isNilNode(v.Elem())
		}
	}
	return false
}

// skipField lists struct fields that hold nodes but are not syntactic children (documented in
// go/ast: Imports and Unresolved repeat nodes of the tree; Doc/Comment/Comments are comments, which
// dst does not have; Obj/Scope are not nodes).
func skipField(typ, f string) bool {
	switch f {
	case "Doc", "Comment", "Comments", "Obj", "Scope", "Decs":
		return true
	}
	if typ == "File" && (f == "Imports" || f == "Unresolved") {
		return true
	}
	return false
}

func (e *exporter) nodeIface() reflect.Type {
	if e.isAst {
		return astNodeType
	}
	return dstNodeType
}

func (e *exporter) export(n interface{}) int {
	v := reflect.ValueOf(n)
	if !v.IsValid() || isNilNode(v) {
		return 0
	}
	if id, ok := e.ids[n]; ok {
		return -id // shared node: reported as a negative reference, never expanded twice
	}
	id := len(e.tree.Nodes) + 1
	e.ids[n] = id
	e.order = append(e.order, n)
	e.tree.Nodes = append(e.tree.Nodes, ANode{})
	an := ANode{ID: id, Type: typeName(n), Truthy: []string{}, Kids: []AKid{}, Decs: []ADec{}}
	sv := v.Elem()
	st := sv.Type()
	if an.Type == "Package" {
		// map[string]*File, traversed in key order
		files := sv.FieldByName("Files")
		var keys []string
		for _, k := range files.MapKeys() {
			keys = append(keys, k.String())
		}
		sort.Strings(keys)
		kid := AKid{F: "Files", List: true, Ids: []int{}}
		for _, k := range keys {
			kid.Ids = append(kid.Ids, e.export(files.MapIndex(reflect.ValueOf(k)).Interface()))
		}
		an.Kids = append(an.Kids, kid)
		e.tree.Nodes[id-1] = an
		return id
	}
	for i := 0; i < st.NumField(); i++ {
		f := st.Field(i)
		fv := sv.Field(i)
		name := f.Name
		if name == "Decs" && !e.isAst {
			e.exportDecs(&an, fv)
			continue
		}
		if skipField(an.Type, name) {
			continue
		}
		switch {
		case f.Type == posType:
			if token.Pos(fv.Int()).IsValid() {
				an.Truthy = append(an.Truthy, name)
			}
		case f.Type == tokType:
			tk := token.Token(fv.Int())
			an.T = tk.String()
			if tk != token.ILLEGAL {
				an.Truthy = append(an.Truthy, name)
			}
		case f.Type.Kind() == reflect.Bool:
			if fv.Bool() {
				an.Truthy = append(an.Truthy, name)
			}
		case f.Type.Kind() == reflect.String:
			switch name {
			case "Name", "Value":
				an.S = fv.String()
			case "Path":
				an.Path = fv.String()
			}
		case name == "Dir" && f.Type.Kind() == reflect.Int:
			switch fv.Int() {
			case 1:
				an.Truthy = append(an.Truthy, "Dir=SEND")
			case 2:
				an.Truthy = append(an.Truthy, "Dir=RECV")
			}
		case f.Type.Kind() == reflect.Int && name != "Dir":
			an.Truthy = append(an.Truthy, fmt.Sprintf("%s=%d", name, fv.Int()))
		case f.Type.Implements(e.nodeIface()):
			if !isNilNode(fv) {
				an.Truthy = append(an.Truthy, name)
				an.Kids = append(an.Kids, AKid{F: name, Ids: []int{e.export(fv.Interface())}})
			}
		case f.Type.Kind() == reflect.Slice && f.Type.Elem().Implements(e.nodeIface()):
			if !fv.IsNil() {
				an.Truthy = append(an.Truthy, name)
			}
			kid := AKid{F: name, List: true, Ids: []int{}}
			for j := 0; j < fv.Len(); j++ {
				kid.Ids = append(kid.Ids, e.export(fv.Index(j).Interface()))
			}
			if fv.Len() > 0 {
				an.Kids = append(an.Kids, kid)
			}
		}
	}
	if an.Type == "FuncDecl" {
		tv := sv.FieldByName("Type")
		if !tv.IsNil() {
			for _, inner := range []string{"TypeParams", "Params", "Results"} {
				if !tv.Elem().FieldByName(inner).IsNil() {
					an.Truthy = append(an.Truthy, "Type."+inner)
				}
			}
			if !e.isAst {
				if tv.Elem().FieldByName("Func").Bool() {
					an.Truthy = append(an.Truthy, "Type.Func")
				}
			}
		}
	}
	sort.Strings(an.Truthy)
	e.tree.Nodes[id-1] = an
	return id
}

func (e *exporter) exportDecs(an *ANode, dv reflect.Value) {
	dt := dv.Type()
	for i := 0; i < dt.NumField(); i++ {
		f := dt.Field(i)
		if f.Name == "NodeDecs" {
			nd := dv.Field(i).Interface().(dst.NodeDecs)
			an.Before, an.After = int(nd.Before), int(nd.After)
			an.Decs = append(an.Decs, ADec{P: "Start", D: strs(nd.Start)}, ADec{P: "End", D: strs(nd.End)})
			continue
		}
		if d, ok := dv.Field(i).Interface().(dst.Decorations); ok {
			an.Decs = append(an.Decs, ADec{P: f.Name, D: strs(d)})
		}
	}
}

func strs(d dst.Decorations) []string {
	out := make([]string, len(d))
	copy(out, d)
	return out
}

// ExportDst exports a dst tree. The second result maps every node to its id.
func ExportDst(root dst.Node) (*ATree, map[dst.Node]int) {
	e := &exporter{ids: map[interface{}]int{}}
	e.tree.Root = e.export(root)
	m := map[dst.Node]int{}
	for k, v := range e.ids {
		m[k.(dst.Node)] = v
	}
	return &e.tree, m
}

// ExportAst exports a go/ast tree (comments excluded).
func ExportAst(root ast.Node) (*ATree, map[ast.Node]int) {
	e := &exporter{ids: map[interface{}]int{}, isAst: true}
	e.tree.Root = e.export(root)
	m := map[ast.Node]int{}
	for k, v := range e.ids {
		m[k.(ast.Node)] = v
	}
	return &e.tree, m
}

// NodesInOrder returns the nodes of the last export in id order.
func dstNodesByID(m map[dst.Node]int) []dst.Node {
	out := make([]dst.Node, len(m))
	for n, id := range m {
		out[id-1] = n
	}
	return out
}
