package main

// The library packages every scenario program can import.
func libPackages() []*memPkg {
	return []*memPkg{
		{Import: "example.com/lib/a", Path: "example.com/lib/a", Files: map[string]string{"a.go": `package a

// T is a struct with a field and a method.
type T struct {
	F int
	G string
}

func (t T) M() int   { return t.F }
func (t *T) P(x int) { t.F = x }

func Fn(x int) int { return x }

var V = 1

const C = 2

type I interface{ M() int }

func G[X any](x X) X { return x }

type Box[X any] struct{ Val X }

func (b Box[X]) Get() X { return b.Val }

var Err error
`}},
		{Import: "example.com/lib/b", Path: "example.com/lib/b", Files: map[string]string{"b.go": `package a

// same package name as example.com/lib/a on purpose
type U struct{ F int }

func Fn2() int { return 2 }

var W = 3
`}},
		{Import: "other.io/q", Path: "other.io/q", Files: map[string]string{"q.go": `package q

type Q struct{ N int }

func New() *Q { return &Q{} }

func (q *Q) Do() {}

var Default = New()
`}},
		// path elements that merely end in "vendor" are ordinary elements
		{Import: "example.com/govendor/ctx", Path: "example.com/govendor/ctx", Files: map[string]string{"ctx.go": `package ctx

type Ctx struct{ N int }

func Background() Ctx { return Ctx{} }
`}},
		{Import: "xvendor/cfg", Path: "xvendor/cfg", Files: map[string]string{"cfg.go": `package cfg

var Default = 1

func Load() int { return Default }
`}},
		{Import: "example.com/myvendor/w", Path: "example.com/app/vendor/example.com/myvendor/w", Files: map[string]string{"w.go": `package w

type W struct{}

func New() W { return W{} }
`}},
		// a package vendored inside a vendored package: two vendor elements in its path
		{Import: "example.com/inner/n", Path: "example.com/app/vendor/example.com/lib/vendor/example.com/inner/n", Files: map[string]string{"n.go": `package n

type N struct{}

func New() N { return N{} }

var Default = New()
`}},
		{Import: "example.com/lib/v", Path: "example.com/app/vendor/example.com/lib/v", Files: map[string]string{"v.go": `package v

import "example.com/myvendor/w"

type Vend struct{ X int }

func Make() Vend { return Vend{} }

var Shared = Make()

var other = w.New()

func use() (Vend, w.W) { return Shared, other }
`}},
	}
}

// scenario is one file of package example.com/app with the features it exercises.
type scenario struct {
	Name        string
	Src         string
	DotFree     bool // no dot-import: the syntax-based resolver may be compared
	Shadowed    bool // a package name is shadowed by a package-level declaration of another file
	GoastErr    bool // the syntax-based resolver must refuse (dot-import / duplicate name)
	NoTypeCheck bool // not a type-correct program (only the syntax-based resolver is exercised)
}

const appOther = `package app

// declared in another file of the same package
func localFunc() int { return 1 }

type localType struct{ F int }

var localVar = 3
`

var scenarios = []scenario{
	{Name: "qualified-basic", DotFree: true, Src: `package app

import (
	"example.com/lib/a"
	"other.io/q"
)

// uses of every kind of package-level object
var v1 a.T
var v2 = a.Fn(a.V + a.C)
var v3 = q.New()
var v4 a.I = a.T{F: 1, G: "g"}
var v5 = q.Default

func f1(x a.T) (r q.Q) {
	_ = x.F     // field selector
	_ = x.M()   // method selector
	x.P(2)
	_ = a.T.M   // method expression
	_ = (*a.T).P
	q.Default.Do()
	_ = localFunc() + localVar
	var l localType
	_ = l.F
	return q.Q{N: 1}
}
`},
	{Name: "aliases", DotFree: true, Src: `package app

import (
	x "example.com/lib/a"
	y "example.com/lib/b"
	_ "other.io/q"
)

var w1 = x.Fn(1) + y.Fn2() + y.W
var w2 = x.T{F: x.C}
var w3 y.U
`},
	{Name: "shadowing-local", DotFree: true, Src: `package app

import "example.com/lib/a"

type holder struct{ Fn func(int) int; T int }

// a parameter, a variable and a field named like the package
func f2(a holder) int {
	return a.Fn(1) + a.T // not qualified identifiers
}

func f3() int {
	r := a.Fn(1) // qualified
	{
		a := holder{}
		r += a.T // local
	}
L:
	for {
		break L
	}
	return r + a.V
}

// a function-local constant, a function-local type and a function-local function value named like the
// package: selectors on them are method / field selections, not qualified identifiers
type dur int

func (d dur) M() int { return int(d) }

func f3b() int {
	const a = dur(3)
	return a.M()
}

func f3c() int {
	type a = dur
	return a.M(2) // a method expression on a local type
}

func f3d() int {
	a := func() holder { return holder{} }
	return a().T
}

func (h holder) a() int { return h.T }
`},
	{Name: "generics", DotFree: true, Src: `package app

import (
	"example.com/lib/a"
	"other.io/q"
)

var g1 = a.G[q.Q](q.Q{})
var g2 a.Box[a.T]
var g3 = a.Box[*q.Q]{Val: q.New()}.Get()

func f4[P a.I](p P) int { return p.M() }

type wrap[K comparable, V any] struct {
	m map[K]a.Box[V]
}
`},
	{Name: "vendored", DotFree: true, Src: `package app

import "example.com/lib/v"

var vv = v.Make()
var vw v.Vend
`},
	{Name: "vendored-nested", DotFree: true, Src: `package app

import "example.com/inner/n"

var nn = n.New()
var nd n.N = n.Default
`},
	{Name: "vendor-lookalikes", DotFree: true, Src: `package app

import (
	"example.com/govendor/ctx"
	"example.com/myvendor/w"
	vcfg "xvendor/cfg"
)

var c1 = ctx.Background()
var c2 ctx.Ctx
var c3 = vcfg.Load() + vcfg.Default
var c4 = w.New()
var c5 w.W
`},
	{Name: "composite-keys-and-fields", DotFree: true, Src: `package app

import "example.com/lib/a"

type rec struct {
	a int // a field named like the package
	T a.T
}

var r1 = rec{a: 1, T: a.T{F: 2}}
var r2 = map[string]a.T{"k": {F: 3}}
var r3 = []a.Box[int]{{Val: 1}}
var r4 = r1.T.F + r1.a
`},
	{Name: "dot-import", GoastErr: true, Src: `package app

import (
	. "example.com/lib/a"
	"other.io/q"
)

var d1 T
var d2 = Fn(V + C)
var d3 = q.New()
var d4 = G[int](1)
var d5 Box[T]

func f5(t T) int { return t.M() + t.F }

// dot-imported and local names in every element position of composite literals: keys of map, array and
// slice literals are ordinary expressions, keys of struct literals are field names
const localKey = 1

var d6 = map[int]string{C: "c", localKey: "l"}
var d7 = [...]string{C: "c", localKey: "l"}
var d8 = []int{C: V, localKey: C}
var d9 = T{F: C, G: "g"}
var d10 = map[T]Box[int]{{F: C}: {Val: V}}
var d11 = map[int]int{q.Default.N: C}

// a dot-imported name standing alone as the value of a specification or as an operand of a statement
var d12 = V
var d13, d14 = C, V

const d15 = C

const (
	d16 int = C
	d17     = C + 1
)

func f11() (int, T) {
	var l1 = V
	var l2, l3 T = T{}, T{F: V}
	l4 := C
	_, _, _ = l2, l3, l4
	if V > C {
		return V, T{}
	}
	return l1, l2
}

// every kind of assignment to a dot-imported variable
func f12(n int) {
	V = n
	V += C
	V |= 1
	V <<= 1
	V++
	n, V = V, n
	for V = range []int{C} {
	}
}
`},
	{Name: "duplicate-name", DotFree: true, GoastErr: true, NoTypeCheck: true, Src: `package app

import (
	"example.com/lib/a"
	"example.com/lib/b"
)

var e1 = a.W
`},
	{Name: "shadowed-by-other-file", DotFree: true, Shadowed: true, Src: `package app

// localType is declared in another file; q is an import here
import "other.io/q"

var s1 = q.New()
var s2 = localFunc()
`},
}
