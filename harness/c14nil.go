package main

import (
	"fmt"
	"go/ast"
	"strings"

	"github.com/dave/dst"
	"github.com/dave/dst/dstutil"
	"golang.org/x/tools/go/ast/astutil"
)

// c14NilElems: hand-built trees with nil entries in the lists whose element type is a pointer
// (FieldList.List, Field.Names, ValueSpec.Names).  astutil.Apply presents such an entry to pre and
// post like any other element (Node() == nil, Index() locating it), so that a clean-up pass can
// delete or replace it; dstutil.Apply has to make the same callbacks and the same cursor edits have
// to leave the same lists behind.  No parser produces these trees.
func c14NilElems(c *Ctx) {
	type shape struct {
		name  string
		names [][]string // per field: names ("" = nil entry); a nil field = nil entry of List
	}
	shapes := []shape{
		{"names-middle", [][]string{{"a", "", "b"}, {"c"}}},
		{"list-middle", [][]string{{"a"}, nil, {"c"}}},
		{"both", [][]string{{"a", "", "b"}, nil, {"c"}}},
		{"first-and-last", [][]string{nil, {"", "a", ""}, nil}},
		{"only-nil", [][]string{nil, {""}}},
		{"adjacent", [][]string{{"a", "", "", "b"}, nil, nil, {"c"}}},
	}
	mkDst := func(s shape) *dst.FieldList {
		l := &dst.FieldList{}
		for _, f := range s.names {
			if f == nil {
				l.List = append(l.List, nil)
				continue
			}
			fl := &dst.Field{Type: dst.NewIdent("int")}
			for _, n := range f {
				if n == "" {
					fl.Names = append(fl.Names, nil)
				} else {
					fl.Names = append(fl.Names, dst.NewIdent(n))
				}
			}
			l.List = append(l.List, fl)
		}
		return l
	}
	mkAst := func(s shape) *ast.FieldList {
		l := &ast.FieldList{}
		for _, f := range s.names {
			if f == nil {
				l.List = append(l.List, nil)
				continue
			}
			fl := &ast.Field{Type: ast.NewIdent("int")}
			for _, n := range f {
				if n == "" {
					fl.Names = append(fl.Names, nil)
				} else {
					fl.Names = append(fl.Names, ast.NewIdent(n))
				}
			}
			l.List = append(l.List, fl)
		}
		return l
	}
	kind := func(n interface{}) string {
		if n == nil {
			return "nil"
		}
		t := fmt.Sprintf("%T", n)
		return t[strings.LastIndex(t, ".")+1:]
	}
	dshape := func(l *dst.FieldList) string {
		var sb strings.Builder
		for _, f := range l.List {
			if f == nil {
				sb.WriteString("<nil>; ")
				continue
			}
			for _, n := range f.Names {
				if n == nil {
					sb.WriteString("<nil>,")
				} else {
					sb.WriteString(n.Name + ",")
				}
			}
			sb.WriteString(" " + kind(f.Type) + "; ")
		}
		return sb.String()
	}
	ashape := func(l *ast.FieldList) string {
		var sb strings.Builder
		for _, f := range l.List {
			if f == nil {
				sb.WriteString("<nil>; ")
				continue
			}
			for _, n := range f.Names {
				if n == nil {
					sb.WriteString("<nil>,")
				} else {
					sb.WriteString(n.Name + ",")
				}
			}
			sb.WriteString(" " + kind(f.Type) + "; ")
		}
		return sb.String()
	}
	ops := []string{"none", "delete", "replace", "insert-after", "insert-before", "insert-after+delete"}
	for _, s := range shapes {
		for _, op := range ops {
			for _, inPost := range []bool{false, true} {
				key := fmt.Sprintf("nil-elements|%s|%s|post=%v", s.name, op, inPost)
				c.Eval(key, true)
				var dlog, alog []string
				fresh := 0
				dl, al := mkDst(s), mkAst(s)
				dmsg := guard(func() {
					edit := func(cu *dstutil.Cursor) {
						if cu.Node() != nil || cu.Index() < 0 {
							return
						}
						fresh++
						var nn dst.Node = dst.NewIdent(fmt.Sprintf("n%d", fresh))
						if cu.Name() == "List" {
							nn = &dst.Field{Names: []*dst.Ident{dst.NewIdent(fmt.Sprintf("n%d", fresh))}, Type: dst.NewIdent("int")}
						}
						switch op {
						case "delete":
							cu.Delete()
						case "replace":
							cu.Replace(nn)
						case "insert-after":
							cu.InsertAfter(nn)
						case "insert-before":
							cu.InsertBefore(nn)
						case "insert-after+delete":
							cu.InsertAfter(nn)
							cu.Delete()
						}
					}
					dstutil.Apply(dl, func(cu *dstutil.Cursor) bool {
						dlog = append(dlog, fmt.Sprintf("pre %s in %s.%s[%d]", kind(cu.Node()), kind(cu.Parent()), cu.Name(), cu.Index()))
						if !inPost {
							edit(cu)
						}
						return true
					}, func(cu *dstutil.Cursor) bool {
						dlog = append(dlog, fmt.Sprintf("post %s in %s.%s[%d]", kind(cu.Node()), kind(cu.Parent()), cu.Name(), cu.Index()))
						if inPost {
							edit(cu)
						}
						return true
					})
				})
				fresh = 0
				amsg := guard(func() {
					edit := func(cu *astutil.Cursor) {
						if cu.Node() != nil || cu.Index() < 0 {
							return
						}
						fresh++
						var nn ast.Node = ast.NewIdent(fmt.Sprintf("n%d", fresh))
						if cu.Name() == "List" {
							nn = &ast.Field{Names: []*ast.Ident{ast.NewIdent(fmt.Sprintf("n%d", fresh))}, Type: ast.NewIdent("int")}
						}
						switch op {
						case "delete":
							cu.Delete()
						case "replace":
							cu.Replace(nn)
						case "insert-after":
							cu.InsertAfter(nn)
						case "insert-before":
							cu.InsertBefore(nn)
						case "insert-after+delete":
							cu.InsertAfter(nn)
							cu.Delete()
						}
					}
					astutil.Apply(al, func(cu *astutil.Cursor) bool {
						if cu.Name() == "Doc" || cu.Name() == "Comment" || cu.Name() == "Tag" {
							return false
						}
						alog = append(alog, fmt.Sprintf("pre %s in %s.%s[%d]", kind(cu.Node()), kind(cu.Parent()), cu.Name(), cu.Index()))
						if !inPost {
							edit(cu)
						}
						return true
					}, func(cu *astutil.Cursor) bool {
						if cu.Name() == "Doc" || cu.Name() == "Comment" || cu.Name() == "Tag" {
							return true
						}
						alog = append(alog, fmt.Sprintf("post %s in %s.%s[%d]", kind(cu.Node()), kind(cu.Parent()), cu.Name(), cu.Index()))
						if inPost {
							edit(cu)
						}
						return true
					})
				})
				if amsg != "" {
					// astutil itself refuses this combination: nothing to compare with
					if dmsg == "" {
						c.Note("astutil panics on " + key + " and dstutil does not")
					}
					continue
				}
				if dmsg != "" {
					c.Fail(Finding{Sig: "apply-panic", Input: key, What: "astutil.Apply completes, dstutil.Apply panics: " + dmsg, Replay: obj{"kind": "none"}})
					continue
				}
				// dst has no Tag/Doc/Comment children of a Field with Node()==nil to report: drop dst's callbacks for the Tag slot
				var dl2 []string
				for _, l := range dlog {
					if strings.Contains(l, ".Tag[") {
						continue
					}
					dl2 = append(dl2, l)
				}
				if strings.Join(dl2, "\n") != strings.Join(alog, "\n") {
					i := 0
					for i < len(dl2) && i < len(alog) && dl2[i] == alog[i] {
						i++
					}
					dd, aa := "<end>", "<end>"
					if i < len(dl2) {
						dd = dl2[i]
					}
					if i < len(alog) {
						aa = alog[i]
					}
					c.Fail(Finding{Sig: "traversal-differs-from-astutil", Input: key, What: fmt.Sprintf("hand-built field list with nil entries: callback %d is %q for dstutil, %q for astutil", i+1, dd, aa), Replay: obj{"kind": "none"}})
					continue
				}
				if dshape(dl) != ashape(al) {
					c.Fail(Finding{Sig: "list-after-edit-differs-from-astutil", Input: key, What: fmt.Sprintf("hand-built field list with nil entries after %s: dstutil leaves %q, astutil %q", op, dshape(dl), ashape(al)), Replay: obj{"kind": "none"}})
				}
			}
		}
	}
}
