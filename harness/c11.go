package main

import (
	"encoding/json"
	"fmt"
	"go/ast"
	"go/parser"
	"go/token"
	"os"
	"strings"

	"github.com/dave/dst"
	"github.com/dave/dst/decorator"
	"github.com/dave/dst/decorator/resolver/goast"
	"github.com/dave/dst/decorator/resolver/guess"
)

func init() { register("C11", "model_checking", checkC11) }

const mapsTraceCfg = `INIT TInit
NEXT TNext
INVARIANTS WellFormed Total TypeCorresponds MutuallyInverse Commutes
POSTCONDITION Accepted
CHECK_DEADLOCK FALSE
`

// mapsRecord projects both trees and both node maps to ids.
func mapsRecord(side string, af *ast.File, df *dst.File, m decorator.Map) obj {
	at, aids := ExportAst(af)
	dt, dids := ExportDst(df)
	aid := func(n ast.Node) int {
		if n == nil || isNilNode(reflectValue(n)) {
			return -1
		}
		return aids[n] // 0 when the node is not part of the tree
	}
	did := func(n dst.Node) int {
		if n == nil || isNilNode(reflectValue(n)) {
			return -1
		}
		return dids[n]
	}
	a2d := make([][]int, len(at.Nodes))
	d2a := make([][]int, len(dt.Nodes))
	for i := range a2d {
		a2d[i] = []int{}
	}
	for i := range d2a {
		d2a[i] = []int{}
	}
	extraA2D, extraD2A := [][2]int{}, [][2]int{}
	for k, v := range m.Dst.Nodes {
		switch k.(type) {
		case *ast.Comment, *ast.CommentGroup:
			continue
		}
		if a := aid(k); a > 0 {
			a2d[a-1] = append(a2d[a-1], did(v))
		} else {
			extraA2D = append(extraA2D, [2]int{a, did(v)})
		}
	}
	for k, v := range m.Ast.Nodes {
		if d := did(k); d > 0 {
			d2a[d-1] = append(d2a[d-1], aid(v))
		} else {
			extraD2A = append(extraD2A, [2]int{d, aid(v)})
		}
	}
	return obj{"side": side, "a": at, "d": dt, "a2d": a2d, "d2a": d2a, "extraA2D": extraA2D, "extraD2A": extraD2A}
}

// c11Observe decorates (optionally with import resolution) and restores one source, returning the
// two observations.
func c11Observe(path string, src []byte, withResolver bool) ([]obj, string) {
	fset := token.NewFileSet()
	af, err := parser.ParseFile(fset, path, src, parser.ParseComments)
	if err != nil {
		return nil, ""
	}
	var d *decorator.Decorator
	if withResolver {
		d = decorator.NewDecoratorWithImports(fset, "example.com/local", goast.New())
	} else {
		d = decorator.NewDecorator(fset)
	}
	var df *dst.File
	if msg := guard(func() { df, err = d.DecorateFile(af) }); msg != "" {
		return nil, "decorate: " + msg
	}
	if err != nil {
		return nil, "" // goast refuses dot-imports etc.: C09's business
	}
	out := []obj{mapsRecord("decorator", af, df, d.Map)}
	// the same file through the same Decorator once more: the maps must still describe one correspondence
	var df2 *dst.File
	if msg := guard(func() { df2, err = d.DecorateFile(af) }); msg != "" {
		return out, "decorate (second call on the same file): " + msg
	}
	if err == nil && df2 != nil {
		rec := mapsRecord("decorator", af, df2, d.Map)
		rec["side"] = "decorator"
		rec["call"] = 2
		out = append(out, rec)
		if df2 != df {
			// a new tree for the same ast: then the first tree is no longer the counterpart of its ast
			out = append(out, mapsRecord("decorator", af, df, d.Map))
		}
	}
	// ... and asked again for the counterpart of every single node (what a caller does who carries
	// information keyed by ast nodes over to dst): the answers are the recorded counterparts and the
	// maps are what they were
	asked, wrong := 0, ""
	ast.Inspect(af, func(n ast.Node) bool {
		switch n.(type) {
		case nil, *ast.Comment, *ast.CommentGroup:
			return false
		}
		asked++
		want := d.Dst.Nodes[n]
		var got dst.Node
		var aerr error
		if msg := guard(func() { got, aerr = d.DecorateNode(n) }); msg != "" || aerr != nil {
			if wrong == "" {
				wrong = fmt.Sprintf("DecorateNode(%T) on an already decorated node: %s %v", n, msg, aerr)
			}
			return true
		}
		if want != nil && got != want && wrong == "" {
			wrong = fmt.Sprintf("DecorateNode(%T) on an already decorated node returns another node than Dst.Nodes records", n)
		}
		return true
	})
	if wrong != "" {
		return out, wrong
	}
	if asked > 0 {
		rec := mapsRecord("decorator", af, df, d.Map)
		rec["side"] = "decorator"
		rec["call"] = 3
		out = append(out, rec)
	}
	var r *decorator.Restorer
	if withResolver {
		r = decorator.NewRestorerWithImports("example.com/local", guess.New())
	} else {
		r = decorator.NewRestorer()
	}
	var raf *ast.File
	if msg := guard(func() { raf, err = r.RestoreFile(df) }); msg != "" {
		return out, "restore: " + msg
	}
	if err != nil {
		return out, ""
	}
	out = append(out, mapsRecord("restorer", raf, df, r.Map))
	// a second restorer that also restores objects and scopes (Extras): declarations are then reached a second
	// time through Object.Decl; its maps obey the same laws
	var r2 *decorator.Restorer
	if withResolver {
		r2 = decorator.NewRestorerWithImports("example.com/local", guess.New())
	} else {
		r2 = decorator.NewRestorer()
	}
	r2.Extras = true
	var raf2 *ast.File
	if msg := guard(func() { raf2, err = r2.RestoreFile(df) }); msg != "" {
		return out, "restore with Extras: " + msg
	}
	if err == nil {
		rec := mapsRecord("restorer", raf2, df, r2.Map)
		rec["extras"] = true
		out = append(out, rec)
	}
	return out, ""
}

// c11ObserveMulti: one Decorator and one Restorer for several files; the laws are evaluated for every
// file after ALL files have been processed (the maps are shared by the files of a package).
func c11ObserveMulti(paths []string, srcs [][]byte, withResolver bool) ([]obj, string) {
	fset := token.NewFileSet()
	var d *decorator.Decorator
	var r *decorator.Restorer
	if withResolver {
		d = decorator.NewDecoratorWithImports(fset, "example.com/local", goast.New())
		r = decorator.NewRestorerWithImports("example.com/local", guess.New())
	} else {
		d = decorator.NewDecorator(fset)
		r = decorator.NewRestorer()
	}
	var afs []*ast.File
	var dfs []*dst.File
	for i, src := range srcs {
		af, err := parser.ParseFile(fset, paths[i], src, parser.ParseComments)
		if err != nil {
			return nil, ""
		}
		var df *dst.File
		if msg := guard(func() { df, err = d.DecorateFile(af) }); msg != "" {
			return nil, "decorate: " + msg
		}
		if err != nil {
			return nil, ""
		}
		afs, dfs = append(afs, af), append(dfs, df)
	}
	if withResolver {
		// a decoration the resolver refuses (a dot-import, for the syntax-based resolver) on the same
		// Decorator: the maps still describe the files decorated before
		if bf, err := parser.ParseFile(fset, "refused.go", "package refused\n\nimport . \"strings\"\n\nvar _ = ToUpper(\"x\")\n", parser.ParseComments); err == nil {
			guard(func() { d.DecorateFile(bf) })
		}
	}
	// the decorator's maps are judged after decoration (of all files), before any restore: restoring
	// with import management rewrites the import declarations of the dst tree it is given
	decRecs := make([]obj, len(dfs))
	for i := range dfs {
		decRecs[i] = mapsRecord("decorator", afs[i], dfs[i], d.Map)
	}
	var rafs []*ast.File
	for _, df := range dfs {
		var raf *ast.File
		var err error
		if msg := guard(func() { raf, err = r.RestoreFile(df) }); msg != "" {
			return nil, "restore: " + msg
		}
		if err != nil {
			return nil, ""
		}
		rafs = append(rafs, raf)
	}
	var out []obj
	for i := range dfs {
		out = append(out, decRecs[i], mapsRecord("restorer", rafs[i], dfs[i], r.Map))
	}
	return out, ""
}

func checkC11(c *Ctx) {
	c.Assume("trees are exported by reflection over struct fields; comments are not syntax nodes")
	nFiles := 40
	if !c.Quick() {
		nFiles = 500
	}
	files := corpus(c, nFiles)
	type res struct {
		items []traceItem
	}
	results := make([]res, len(files))
	parallel(len(files), func(i int) {
		f := files[i]
		if len(f.Src) > 40000 {
			return
		}
		for _, wr := range []bool{false, true} {
			obs, msg := c11Observe(f.Path, f.Src, wr)
			key := fmt.Sprintf("%s|resolver=%v", f.Path, wr)
			if msg != "" {
				c.Fail(Finding{Sig: "maps-observe-fails", Input: key, What: msg, Replay: obj{"kind": "c11", "path": f.Path, "resolver": wr}})
			}
			for _, o := range obs {
				b, _ := json.Marshal(o)
				k := key + "|" + o["side"].(string)
				c.Eval(k, wr && strings.Contains(string(f.Src), "import"))
				results[i].items = append(results[i].items, traceItem{Key: k, Trace: append(b, '\n'), Events: 1, Replay: obj{"kind": "c11", "path": f.Path, "resolver": wr}})
			}
		}
		if i%11 == 0 {
			c.Sample(obj{"file": f.Path, "observations": len(results[i].items)})
		}
	})
	var items []traceItem
	for _, r := range results {
		items = append(items, r.items...)
	}
	// several files through one Decorator / one Restorer
	var small []srcFile
	for _, f := range files {
		if len(f.Src) < 8000 {
			small = append(small, f)
		}
	}
	for g := 0; g+2 < len(small) && g < map[bool]int{true: 18, false: 300}[c.Quick()]; g += 3 {
		for _, wr := range []bool{false, true} {
			paths := []string{small[g].Path, small[g+1].Path, small[g+2].Path}
			obs, msg := c11ObserveMulti(paths, [][]byte{small[g].Src, small[g+1].Src, small[g+2].Src}, wr)
			key := fmt.Sprintf("multi|%v|resolver=%v", paths, wr)
			if msg != "" {
				c.Fail(Finding{Sig: "maps-observe-fails", Input: key, What: msg, Replay: obj{"kind": "c11multi", "paths": paths, "resolver": wr}})
			}
			for i, o := range obs {
				b, _ := json.Marshal(o)
				k := fmt.Sprintf("%s|file%d|%s", key, i/2, o["side"])
				c.Eval(k, true)
				items = append(items, traceItem{Key: k, Trace: append(b, '\n'), Events: 1, Replay: obj{"kind": "c11multi", "paths": paths, "resolver": wr}})
			}
		}
	}
	// files no parser produced: nodes built from struct literals with the minimal fields (a FuncType without
	// a parameter list, field lists without brackets, literals without Kind, ...), restored plainly, with
	// import management and with Extras; the restorer's maps obey the same laws
	handFiles := c11HandFiles()
	// (a parsed file too: decorated with import management, restored with an alias that turns one of its
	// imports into a dot-import - its qualified identifiers are restored as plain ones)
	if pf, err := decorator.NewDecoratorWithImports(token.NewFileSet(), "example.com/local", goast.New()).Parse("package p\n\nimport (\n\t\"fmt\"\n\t\"strings\"\n)\n\nfunc f() string {\n\tfmt.Println(strings.ToUpper(fmt.Sprint(1)))\n\treturn strings.Repeat(\"x\", 2)\n}\n"); err == nil {
		handFiles = append(handFiles, pf)
	}
	for hi, hf := range handFiles {
		for _, mode := range []string{"plain", "imports", "extras", "dot-alias"} {
			if mode == "dot-alias" && hi < 2 {
				continue
			}
			df := dst.Clone(hf).(*dst.File)
			r := decorator.NewRestorer()
			if hi >= 2 { // identifiers with paths: import management is required
				r = decorator.NewRestorerWithImports("example.com/local", guess.New())
			}
			switch mode {
			case "imports":
				r = decorator.NewRestorerWithImports("example.com/local", guess.New())
			case "extras":
				r.Extras = true
			}
			key := fmt.Sprintf("hand-built-%d|%s|restorer", hi, mode)
			var raf *ast.File
			var rerr error
			if mode == "dot-alias" {
				fr := r.FileRestorer()
				fr.Alias["fmt"] = "."
				if msg := guard(func() { raf, rerr = fr.RestoreFile(df) }); msg != "" || rerr != nil {
					c.Fail(Finding{Sig: "maps-observe-fails", Input: key, What: fmt.Sprintf("restoring with a dot-import alias: %s %v", msg, rerr), Replay: obj{"kind": "none"}})
					continue
				}
				b, _ := json.Marshal(mapsRecord("restorer", raf, df, r.Map))
				c.Eval(key, true)
				items = append(items, traceItem{Key: key, Trace: append(b, '\n'), Events: 1, Replay: obj{"kind": "none"}})
				continue
			}
			if msg := guard(func() { raf, rerr = r.RestoreFile(df) }); msg != "" || rerr != nil {
				c.Fail(Finding{Sig: "maps-observe-fails", Input: key, What: fmt.Sprintf("restoring a hand-built file: %s %v", msg, rerr), Replay: obj{"kind": "none"}})
				continue
			}
			b, _ := json.Marshal(mapsRecord("restorer", raf, df, r.Map))
			c.Eval(key, true)
			items = append(items, traceItem{Key: key, Trace: append(b, '\n'), Events: 1, Replay: obj{"kind": "none"}})
		}
	}
	c.Traces(int64(len(items)))
	validateTraces(c, "MapsTrace", mapsTraceCfg, items, 12, false, func(it traceItem, res *TLCResult) {
		side := "decorator"
		if strings.HasSuffix(it.Key, "|restorer") {
			side = "restorer"
		}
		c.Fail(Finding{Sig: "maps-" + res.Violated, Input: side + "|" + it.Key, What: fmt.Sprintf("law %s of MapsTrace.tla fails for the %s's maps (%s)", res.Violated, side, it.Key), Replay: it.Replay})
	})
	c.Set("rule", "case = the node maps after decorating or restoring one corpus file, with and without import resolution (goast / guess resolvers); non-trivial = import resolution on and the file has imports (selector collapse exercised); distinct by file + configuration + side")
}

func init() {
	replayers["c11"] = func(raw json.RawMessage) string {
		var r struct {
			Path     string `json:"path"`
			Resolver bool   `json:"resolver"`
		}
		json.Unmarshal(raw, &r)
		src, err := os.ReadFile(r.Path)
		if err != nil {
			return "harness: " + err.Error()
		}
		obs, msg := c11Observe(r.Path, src, r.Resolver)
		if msg != "" {
			return msg
		}
		c := newCtx("C11", "quick", 1, "model_checking")
		out := ""
		for _, o := range obs {
			b, _ := json.Marshal(o)
			validateTraces(c, "MapsTrace", mapsTraceCfg, []traceItem{{Key: "replay", Trace: append(b, '\n'), Events: 1}}, 10, false, func(it traceItem, res *TLCResult) {
				out += fmt.Sprintf("law %s fails for the %s's maps; ", res.Violated, o["side"])
			})
		}
		return out
	}
}

func init() {
	replayers["c11multi"] = func(raw json.RawMessage) string {
		var r struct {
			Paths    []string `json:"paths"`
			Resolver bool     `json:"resolver"`
		}
		json.Unmarshal(raw, &r)
		var srcs [][]byte
		for _, p := range r.Paths {
			b, err := os.ReadFile(p)
			if err != nil {
				return "harness: " + err.Error()
			}
			srcs = append(srcs, b)
		}
		obs, msg := c11ObserveMulti(r.Paths, srcs, r.Resolver)
		if msg != "" {
			return msg
		}
		c := newCtx("C11", "quick", 1, "model_checking")
		out := ""
		for i, o := range obs {
			b, _ := json.Marshal(o)
			validateTraces(c, "MapsTrace", mapsTraceCfg, []traceItem{{Key: "replay", Trace: append(b, '\n'), Events: 1}}, 10, false, func(it traceItem, res *TLCResult) {
				out += fmt.Sprintf("law %s fails for the %s's maps of file %d (%s): %s; ", res.Violated, o["side"], i/2, r.Paths[i/2], truncate(rejectText(res), 600))
			})
		}
		return out
	}
}

func c11HandFiles() []*dst.File {
	var all []dst.Decl
	for i, sh := range c02HandShapes {
		all = append(all, sh.mk(i+1))
	}
	return []*dst.File{
		{Name: dst.NewIdent("p"), Decls: []dst.Decl{
			&dst.FuncDecl{Name: dst.NewIdent("f"), Type: &dst.FuncType{}, Body: &dst.BlockStmt{}},
			&dst.GenDecl{Tok: token.VAR, Specs: []dst.Spec{&dst.ValueSpec{Names: []*dst.Ident{dst.NewIdent("g")},
				Values: []dst.Expr{&dst.FuncLit{Type: &dst.FuncType{}, Body: &dst.BlockStmt{List: []dst.Stmt{&dst.ReturnStmt{}}}}}}}},
			&dst.FuncDecl{Name: dst.NewIdent("h"), Type: &dst.FuncType{Results: &dst.FieldList{List: []*dst.Field{{Type: dst.NewIdent("int")}}}},
				Body: &dst.BlockStmt{List: []dst.Stmt{&dst.ReturnStmt{Results: []dst.Expr{&dst.BasicLit{Value: "1"}}}}}},
		}},
		{Name: dst.NewIdent("p"), Decls: all},
		{Name: dst.NewIdent("p"), Decls: []dst.Decl{
			&dst.GenDecl{Tok: token.IMPORT, Specs: []dst.Spec{&dst.ImportSpec{Path: &dst.BasicLit{Value: "\"fmt\""}}}},
			&dst.FuncDecl{Name: dst.NewIdent("main"), Type: &dst.FuncType{}, Body: &dst.BlockStmt{List: []dst.Stmt{
				&dst.ExprStmt{X: &dst.CallExpr{Fun: &dst.Ident{Name: "Println", Path: "fmt"}, Args: []dst.Expr{
					&dst.CompositeLit{Type: &dst.ArrayType{Elt: dst.NewIdent("int")}, Elts: []dst.Expr{&dst.BasicLit{Value: "1"}}},
					&dst.CallExpr{Fun: &dst.Ident{Name: "Join", Path: "strings"}}}}},
				&dst.IfStmt{Cond: dst.NewIdent("true"), Body: &dst.BlockStmt{}},
				&dst.ForStmt{Body: &dst.BlockStmt{List: []dst.Stmt{&dst.BranchStmt{Tok: token.BREAK}}}},
			}}},
		}},
	}
}
