package main

import (
	"strings"

	"github.com/dave/dst"
	"github.com/dave/dst/decorator"
)

const renderCursorCfg = `INIT TInit
NEXT TNext
VIEW View
INVARIANTS InFile LinesOrdered
PROPERTIES MonotoneT LinesGrowT
POSTCONDITION Accepted
CHECK_DEADLOCK FALSE
`

// cursorTrace restores f with the cursor hooks on and returns the events as a trace item body.
func cursorTrace(f *dst.File) (*ndjson, string) {
	hookMu.Lock()
	defer hookMu.Unlock()
	out := &ndjson{}
	decorator.VerifHook = func(ev string, data interface{}) {
		if ev != "cursor" {
			return
		}
		o := data.(decorator.VerifCursor)
		decs := []obj{}
		for _, d := range o.Decs {
			k := "B"
			switch {
			case d == "\n":
				k = "N"
			case strings.HasPrefix(d, "//"):
				k = "L"
			case !strings.HasPrefix(d, "/*"):
				k = "X" // not a comment and not a newline: rendered as nothing
			}
			inner, lastInner := 0, 0
			if k == "B" {
				for i, ch := range d {
					if ch == '\n' {
						inner++
						lastInner = i
					}
				}
			}
			n := len(d)
			if k == "N" || k == "X" {
				n = 0
			}
			decs = append(decs, obj{"k": k, "len": n, "inner": inner, "lastInner": lastInner})
		}
		out.Add(obj{"ev": o.Ev, "name": o.Name, "space": o.Space, "end": o.End, "file": o.File, "decs": decs,
			"cursor": o.Cursor, "atnl": o.AtNL, "lines": o.Lines, "lastline": o.LastLine, "base": o.Base, "size": o.Size})
	}
	defer func() { decorator.VerifHook = nil }()
	msg := guard(func() { decorator.NewRestorer().RestoreFile(f) })
	return out, msg
}
