package main

import (
	"bytes"
	"fmt"
	"sync"
	"time"
)

// traceItem is one self-contained recorded trace (it starts with its own reset/tree event).
type traceItem struct {
	Key    string
	Trace  []byte
	Events int
	Replay interface{}
}

// validateTraces feeds recorded traces to TLC in batches (one JVM start per batch). When a batch is
// rejected it is bisected so that the offending trace is identified; reject is called for each
// rejected trace with TLC's result. A TLC crash or timeout is an infrastructure problem (exit 2).
func validateTraces(c *Ctx, module, cfg string, items []traceItem, maxEvents int, dfs bool, reject func(it traceItem, res *TLCResult)) (events int) {
	return validateTracesF(c, module, cfg, nil, items, maxEvents, dfs, reject)
}

// validateTracesF is validateTraces with extra files (e.g. a generated MC module) next to the spec.
func validateTracesF(c *Ctx, module, cfg string, extra map[string][]byte, items []traceItem, maxEvents int, dfs bool, reject func(it traceItem, res *TLCResult)) (events int) {
	run := func(its []traceItem) (*TLCResult, bool) {
		var buf bytes.Buffer
		for _, it := range its {
			buf.Write(it.Trace)
		}
		files := map[string][]byte{"trace.ndjson": buf.Bytes()}
		for k, v := range extra {
			files[k] = v
		}
		res, err := RunTLC(TLCRun{Module: module, Cfg: cfg, Workers: 1, DFS: dfs, Timeout: 30 * time.Minute, Files: files})
		if err != nil || res == nil || res.TimedOut || (res.ExitCode != 0 && res.Violated == "" && !res.Postcond) {
			c.Infra("TLC trace validation (" + module + ") did not run: " + errText(res, err))
			return res, false
		}
		c.TLC(res)
		return res, true
	}
	var bisect func(its []traceItem)
	bisect = func(its []traceItem) {
		res, ok := run(its)
		if !ok || res.OK() {
			return
		}
		if len(its) == 1 {
			reject(its[0], res)
			return
		}
		bisect(its[:len(its)/2])
		bisect(its[len(its)/2:])
	}
	var batches [][]traceItem
	var batch []traceItem
	n := 0
	for _, it := range items {
		batch = append(batch, it)
		n += it.Events
		events += it.Events
		if n >= maxEvents {
			batches = append(batches, batch)
			batch, n = nil, 0
		}
	}
	if len(batch) > 0 {
		batches = append(batches, batch)
	}
	sem := make(chan struct{}, 6) // each TLC runs with one worker; several JVMs side by side
	var wg sync.WaitGroup
	for _, b := range batches {
		wg.Add(1)
		sem <- struct{}{}
		go func(b []traceItem) {
			defer wg.Done()
			defer func() { <-sem }()
			bisect(b)
		}(b)
	}
	wg.Wait()
	return events
}

func rejectText(res *TLCResult) string {
	if res.Violated != "" {
		return fmt.Sprintf("invariant %s of the specification fails on the recorded execution after %d events", res.Violated, res.Distinct-1)
	}
	return fmt.Sprintf("the recorded execution is not a behaviour of the specification: event %d has no matching action", res.Distinct)
}

// offendingEvent returns the trace line TLC could not match.
func offendingEvent(it traceItem, res *TLCResult) string {
	lines := bytes.Split(it.Trace, []byte("\n"))
	i := int(res.Distinct) - 1
	if res.Violated != "" {
		i--
	}
	if i >= 0 && i < len(lines) {
		return truncate(string(lines[i]), 300)
	}
	return ""
}
