package main

import (
	"bytes"
	"fmt"
	"os"
	"sync"
	"sync/atomic"
	"time"
)

// traceItem is one self-contained recorded trace (it starts with its own reset/tree event).
type traceItem struct {
	Key    string
	Trace  []byte
	Events int
	Replay interface{}
}

// validateTraces feeds recorded traces to TLC in batches (one JVM start per batch, several JVMs
// side by side). TLC consumes a linear trace event by event, so when a batch is rejected the
// number of distinct states it reached names the event - and therefore the item - it could not
// match; that item is confirmed on its own and validation continues behind it. reject is called
// for each rejected trace with TLC's result. A TLC crash or timeout is an infrastructure problem.
func validateTraces(c *Ctx, module, cfg string, items []traceItem, maxEvents int, dfs bool, reject func(it traceItem, res *TLCResult)) (events int) {
	return validateTracesF(c, module, cfg, nil, items, maxEvents, dfs, reject)
}

// validateTracesF is validateTraces with extra files (e.g. a generated MC module) next to the spec.
func validateTracesF(c *Ctx, module, cfg string, extra map[string][]byte, items []traceItem, maxEvents int, dfs bool, reject func(it traceItem, res *TLCResult)) (events int) {
	run := func(its []traceItem) (*TLCResult, bool) {
		var buf bytes.Buffer
		for _, it := range its {
			buf.Write(it.Trace)
		}
		files := map[string][]byte{"trace.ndjson": buf.Bytes()}
		for k, v := range extra {
			files[k] = v
		}
		res, err := RunTLC(TLCRun{Module: module, Cfg: cfg, Workers: 1, DFS: dfs, Timeout: 30 * time.Minute, Files: files})
		if err != nil || res == nil || res.TimedOut || (res.ExitCode != 0 && res.Violated == "" && !res.Postcond) {
			c.Infra("TLC trace validation (" + module + ") did not run: " + errText(res, err))
			return res, false
		}
		c.TLC(res)
		if os.Getenv("VERIF_DEBUG") != "" {
			fmt.Fprintf(os.Stderr, "debug: validated %d items: ok=%v violated=%q postcond=%v distinct=%d wall=%.1fs\n", len(its), res.OK(), res.Violated, res.Postcond, res.Distinct, res.Wall)
		}
		return res, true
	}
	var rejected int32
	const maxRejects = 6
	var locate func(its []traceItem)
	locate = func(its []traceItem) {
		for len(its) > 0 {
			if atomic.LoadInt32(&rejected) >= maxRejects {
				return // enough evidence; do not spend the run on locating more
			}
			res, ok := run(its)
			if !ok || res.OK() {
				return
			}
			if len(its) == 1 {
				atomic.AddInt32(&rejected, 1)
				reject(its[0], res)
				return
			}
			ev := int(res.Distinct) // index of the first event without matching action (or of the violating state)
			k, cum := len(its)-1, 0
			for i, it := range its {
				cum += it.Events
				if ev <= cum {
					k = i
					break
				}
			}
			found := false
			for _, cand := range []int{k, k - 1, k + 1} {
				if cand < 0 || cand >= len(its) {
					continue
				}
				r1, ok1 := run(its[cand : cand+1])
				if !ok1 {
					return
				}
				if !r1.OK() {
					atomic.AddInt32(&rejected, 1)
					reject(its[cand], r1)
					its = its[cand+1:]
					found = true
					break
				}
			}
			if !found {
				// not reproducible on its own: fall back to halving
				h := len(its) / 2
				locate(its[:h])
				its = its[h:]
			}
		}
	}
	var batches [][]traceItem
	var batch []traceItem
	n := 0
	for _, it := range items {
		batch = append(batch, it)
		n += it.Events
		events += it.Events
		if n >= maxEvents {
			batches = append(batches, batch)
			batch, n = nil, 0
		}
	}
	if len(batch) > 0 {
		batches = append(batches, batch)
	}
	sem := make(chan struct{}, 6)
	var wg sync.WaitGroup
	for _, b := range batches {
		wg.Add(1)
		sem <- struct{}{}
		go func(b []traceItem) {
			defer wg.Done()
			defer func() { <-sem }()
			locate(b)
		}(b)
	}
	wg.Wait()
	return events
}

func rejectText(res *TLCResult) string {
	if res.Violated != "" {
		return fmt.Sprintf("invariant %s of the specification fails on the recorded execution after %d events", res.Violated, maxI64(res.Distinct-1, 0))
	}
	return fmt.Sprintf("the recorded execution is not a behaviour of the specification: event %d has no matching action", res.Distinct)
}

// offendingEventFull returns the whole trace line TLC could not match.
func offendingEventFull(it traceItem, res *TLCResult) string {
	lines := bytes.Split(it.Trace, []byte("\n"))
	i := int(res.Distinct) - 1
	if i >= 0 && i < len(lines) {
		return string(lines[i])
	}
	return ""
}

// offendingEvent returns the trace line TLC could not match.
func offendingEvent(it traceItem, res *TLCResult) string {
	lines := bytes.Split(it.Trace, []byte("\n"))
	i := int(res.Distinct) - 1 // the state that failed has l = Distinct and looks at Trace[l]
	if i >= 0 && i < len(lines) {
		return truncate(string(lines[i]), diagLen())
	}
	return ""
}

func diagLen() int {
	if os.Getenv("VERIF_FULL") != "" {
		return 1 << 30
	}
	return 1200
}
