package main

import (
	"encoding/json"
	"fmt"
	"go/ast"
	"go/importer"
	"go/parser"
	"go/token"
	"go/types"
	"path/filepath"
	"sort"
	"strconv"
	"strings"
	"time"

	"github.com/dave/dst"
	"github.com/dave/dst/decorator"
	"github.com/dave/dst/decorator/resolver/goast"
	"github.com/dave/dst/decorator/resolver/gotypes"
	"github.com/dave/dst/decorator/resolver/simple"
)

func init() { register("C09", "model_checking", checkC09) }

const resolveTraceCfg = `CONSTANTS Names = {"a"} ImpPaths = {"p"} MaxSpecs = 0
INIT TInit
NEXT TNext
INVARIANTS TypesExact AstAgrees RefusesWhenUndecidable
POSTCONDITION Accepted
CHECK_DEADLOCK FALSE
`

// identRole classifies an identifier from go/types facts alone (independently of any resolver)
// and returns the package path of the object it denotes (vendor prefix stripped).
func identRole(id *ast.Ident, parent ast.Node, info *types.Info, pkg *types.Package) (role, objPath string) {
	if sel, ok := parent.(*ast.SelectorExpr); ok && sel.Sel == id {
		if x, ok := sel.X.(*ast.Ident); ok {
			if pn, ok := info.Uses[x].(*types.PkgName); ok {
				return "qualified", stripVendorPath(pn.Imported().Path())
			}
		}
		return "selector", ""
	}
	obj, ok := info.Uses[id] // an embedded field's identifier is both a definition and a use of the type
	if !ok {
		if _, ok := info.Defs[id]; ok {
			return "declaring", ""
		}
		return "other", ""
	}
	switch o := obj.(type) {
	case *types.PkgName:
		return "pkgname", ""
	case *types.Var:
		if o.IsField() {
			return "field", ""
		}
	case *types.Label:
		return "label", ""
	}
	if obj.Pkg() == nil {
		return "universe", ""
	}
	if obj.Pkg() == pkg {
		if obj.Parent() == pkg.Scope() {
			return "local", stripVendorPath(obj.Pkg().Path())
		}
		return "localvar", ""
	}
	if obj.Parent() == obj.Pkg().Scope() {
		return "dotuse", stripVendorPath(obj.Pkg().Path())
	}
	return "other", ""
}

type resolveRec struct {
	Role    string `json:"role"`
	ObjPath string `json:"objPath"`
	Local   string `json:"local"`
	Types   string `json:"types"`
	Ast     string `json:"ast"`
	Name    string `json:"name"`
	RL      bool   `json:"rl"`
}

// c09File decorates one type-checked file with both resolvers and records every identifier.
func c09File(c *Ctx, key string, fset *token.FileSet, af *ast.File, info *types.Info, pkg *types.Package, localPath string, names map[string]string, compareAst bool, out *ndjson) {
	c09FileRL(c, key, fset, af, info, pkg, localPath, names, compareAst, false, out)
	c09FileRL(c, key+"|ResolveLocalPath", fset, af, info, pkg, localPath, names, false, true, out)
}

func c09FileRL(c *Ctx, key string, fset *token.FileSet, af *ast.File, info *types.Info, pkg *types.Package, localPath string, names map[string]string, compareAst bool, resolveLocal bool, out *ndjson) {
	// parents
	parents := map[*ast.Ident]ast.Node{}
	var stack []ast.Node
	ast.Inspect(af, func(n ast.Node) bool {
		if n == nil {
			stack = stack[:len(stack)-1]
			return false
		}
		if id, ok := n.(*ast.Ident); ok && len(stack) > 0 {
			parents[id] = stack[len(stack)-1]
		}
		stack = append(stack, n)
		return true
	})
	dt := decorator.NewDecoratorWithImports(fset, localPath, gotypes.New(info.Uses))
	dt.ResolveLocalPath = resolveLocal
	var dft *dst.File
	var err error
	if msg := guard(func() { dft, err = dt.DecorateFile(af) }); msg != "" || err != nil {
		c.Fail(Finding{Sig: "gotypes-decorate-fails", Input: key, What: fmt.Sprintf("%s %v", msg, err), Replay: obj{"kind": "c09", "key": key}})
		return
	}
	_ = dft
	var da *decorator.Decorator
	if compareAst {
		da = decorator.NewDecoratorWithImports(fset, localPath, goast.WithResolver(simple.New(names)))
		// the decorator memoises ast nodes per Decorator: a second decorator on the same ast is fine
		if msg := guard(func() { _, err = da.DecorateFile(af) }); msg != "" || err != nil {
			da = nil
		}
	}
	ast.Inspect(af, func(n ast.Node) bool {
		id, ok := n.(*ast.Ident)
		if !ok {
			return true
		}
		role, objPath := identRole(id, parents[id], info, pkg)
		// the decorated package may itself live in a vendor directory: paths are reported without the prefix
		expLocal := stripVendorPath(localPath)
		if role == "local" {
			objPath = expLocal
		}
		rec := resolveRec{Role: role, ObjPath: objPath, Local: expLocal, Ast: "<n/a>", Name: id.Name, RL: resolveLocal}
		if dn, ok := dt.Dst.Nodes[id].(*dst.Ident); ok {
			rec.Types = dn.Path
			if role == "pkgname" || role == "selector" && false {
				// the X of a qualified identifier maps onto the collapsed dst.Ident: its path is the Sel's
			}
		} else {
			rec.Types = "<unmapped>"
		}
		if role == "pkgname" {
			return true // the package name itself has no dst identifier of its own (three-to-one collapse)
		}
		if da != nil {
			if dn, ok := da.Dst.Nodes[id].(*dst.Ident); ok {
				rec.Ast = dn.Path
			}
		}
		c.Eval(key+"|"+id.Name+"|"+fset.Position(id.Pos()).String(), role == "qualified" || role == "dotuse")
		out.Add(rec)
		return true
	})
}

// goastVerdict asks the syntax-based resolver about a file and reports the import specs as the
// specification sees them.
func goastVerdict(af *ast.File, fset *token.FileSet, names map[string]string) obj {
	var specs []obj
	for _, d := range af.Decls {
		gd, ok := d.(*ast.GenDecl)
		if !ok || gd.Tok != token.IMPORT {
			break
		}
		for _, s := range gd.Specs {
			is := s.(*ast.ImportSpec)
			p, _ := strconv.Unquote(is.Path.Value)
			alias := ""
			if is.Name != nil {
				alias = is.Name.Name
			}
			specs = append(specs, obj{"alias": alias, "path": p, "name": names[p]})
		}
	}
	if specs == nil {
		specs = []obj{}
	}
	d := decorator.NewDecoratorWithImports(fset, "example.com/app", goast.WithResolver(simple.New(names)))
	var err error
	msg := guard(func() { _, err = d.DecorateFile(af) })
	return obj{"role": "file", "specs": specs, "refused": err != nil || msg != ""}
}

func checkC09(c *Ctx) {
	if !c09PackageModel(c) {
		return
	}
	c09Package(c)
	c09Redecorate(c)
	c.Assume("go/types (Uses, Defs, PkgName, scopes) gives the reference meaning of every identifier, independently of the resolvers under test")
	mc, err := RunTLC(TLCRun{Module: "Resolve", Workers: 8, Timeout: 10 * time.Minute, Cfg: fmt.Sprintf("CONSTANTS Names = {\"a\",\"b\"} ImpPaths = {\"p1\",\"p2\",\"C\"} MaxSpecs = %d\nINIT Init\nNEXT Next\nINVARIANTS RefusesExactly TableSound\nCHECK_DEADLOCK FALSE\n", map[bool]int{true: 3, false: 4}[c.Quick()])})
	if err != nil || !mc.OK() {
		c.Infra("TLC model check of Resolve failed: " + errText(mc, err))
		return
	}
	c.TLC(mc)
	if !c09Cache(c) {
		return
	}
	c.Set("mc_bounds", "all import lists up to the bound over 2 names x 3 paths (one \"C\") x alias in {none, a, b, _, .}")
	tr := &ndjson{}
	// scenario programs; each also with its import paths respelled (a raw string, an escape inside the
	// interpreted string): the path of an import is the VALUE of the literal, not its text
	var allScenarios []scenario
	for _, sc := range scenarios {
		allScenarios = append(allScenarios, sc)
		for mode := 1; mode <= 2; mode++ {
			if src := respellImports(sc.Src, mode); src != sc.Src {
				v := sc
				v.Name, v.Src = sc.Name+map[int]string{1: "|raw-import-paths", 2: "|escaped-import-paths"}[mode], src
				allScenarios = append(allScenarios, v)
			}
		}
	}
	for _, sc := range allScenarios {
		app := &memPkg{Import: "example.com/app", Path: "example.com/app", Files: map[string]string{"main.go": sc.Src, "other.go": appOther}}
		u := newUniverse(append(libPackages(), app)...)
		names := u.packageNames()
		if sc.NoTypeCheck {
			af, err := parser.ParseFile(u.fset, "main.go", sc.Src, parser.ParseComments)
			if err != nil {
				c.Infra("scenario " + sc.Name + ": " + err.Error())
				return
			}
			tr.Add(goastVerdict(af, u.fset, names))
			c.Eval("scenario|"+sc.Name, true)
			continue
		}
		pkg, info, files, err := u.Check("example.com/app")
		if err != nil {
			c.Infra("scenario " + sc.Name + " does not type-check: " + err.Error())
			return
		}
		for _, af := range files {
			isMain := strings.HasSuffix(u.fset.File(af.Pos()).Name(), "main.go")
			if !isMain {
				continue
			}
			c09File(c, "scenario|"+sc.Name, u.fset, af, info, pkg, "example.com/app", names, sc.DotFree && !sc.GoastErr && !sc.Shadowed, tr)
			// the syntax-based resolver's verdict on a fresh parse (object resolution as the parser does it)
			af2, _ := parser.ParseFile(u.fset, "main2.go", sc.Src, parser.ParseComments)
			tr.Add(goastVerdict(af2, u.fset, names))
		}
		c.Sample(obj{"scenario": sc.Name, "dot_free": sc.DotFree, "goast_must_refuse": sc.GoastErr})
	}
	// packages that live in a vendor directory themselves, decorated as the local package
	{
		u := newUniverse(libPackages()...)
		names := u.packageNames()
		for _, lp := range libPackages() {
			if !strings.Contains(lp.Path, "/vendor/") {
				continue
			}
			pkg, info, files, err := u.Check(lp.Import)
			if err != nil {
				c.Infra("vendored package " + lp.Import + " does not type-check: " + err.Error())
				return
			}
			for _, af := range files {
				c09File(c, "vendored-local|"+lp.Path, u.fset, af, info, pkg, lp.Path, names, false, tr)
			}
		}
	}
	// standard-library packages type-checked from source
	stdPkgs := []string{"strings", "bufio", "sort", "net/url"}
	if !c.Quick() {
		stdPkgs = append(stdPkgs, "encoding/json", "go/ast", "text/template", "go/printer", "net/http", "os", "flag", "regexp", "time", "encoding/xml", "archive/tar")
	}
	for _, p := range stdPkgs {
		fset := token.NewFileSet()
		imp := importer.ForCompiler(fset, "source", nil)
		dir := filepath.Join(goroot(), p)
		pkgs, err := parser.ParseDir(fset, dir, func(fi fsFileInfo) bool {
			return !strings.HasSuffix(fi.Name(), "_test.go")
		}, parser.ParseComments)
		if err != nil {
			continue
		}
		for _, ap := range pkgs {
			var files []*ast.File
			var fnames []string
			for fn := range ap.Files {
				fnames = append(fnames, fn)
			}
			sortStrings(fnames)
			for _, fn := range fnames {
				if buildOK(ap.Files[fn], fset) {
					files = append(files, ap.Files[fn])
				}
			}
			info := &types.Info{Uses: map[*ast.Ident]types.Object{}, Defs: map[*ast.Ident]types.Object{}, Selections: map[*ast.SelectorExpr]*types.Selection{}}
			conf := types.Config{Importer: imp, Error: func(error) {}}
			tp, _ := conf.Check(p, fset, files, info)
			if tp == nil {
				continue
			}
			names := map[string]string{}
			for _, ip := range tp.Imports() {
				names[ip.Path()] = ip.Name()
			}
			for _, af := range files {
				dotFree := true
				for _, is := range af.Imports {
					if is.Name != nil && is.Name.Name == "." {
						dotFree = false
					}
				}
				c09File(c, "std|"+p+"|"+filepath.Base(fset.File(af.Pos()).Name()), fset, af, info, tp, p, names, dotFree && !c.Quick(), tr)
			}
		}
	}
	c.Traces(1)
	res, err := RunTLC(TLCRun{Module: "ResolveTrace", Cfg: resolveTraceCfg, Workers: 1, Timeout: 30 * time.Minute, Files: map[string][]byte{"trace.ndjson": tr.Bytes()}})
	if err != nil || res.TimedOut || (res.ExitCode != 0 && res.Violated == "" && !res.Postcond) {
		c.Infra("TLC (ResolveTrace) did not run: " + errText(res, err))
		return
	}
	c.TLC(res)
	if !res.OK() {
		lines := strings.Split(string(tr.Bytes()), "\n")
		i := int(res.Distinct) - 1
		rec := ""
		if i >= 0 && i < len(lines) {
			rec = lines[i]
		}
		c.Fail(Finding{Sig: "resolve-" + res.Violated, Input: rec, What: fmt.Sprintf("predicate %s of ResolveTrace.tla fails on %s", res.Violated, truncate(rec, 400)), Replay: obj{"kind": "c09", "rec": rec}})
	}
	c.Set("identifiers", tr.Len())
	c.Set("rule", "case = one identifier of a type-checked program (9 hand-written multi-package scenarios and standard-library packages checked from source) with its role from go/types and the paths both resolvers assign; non-trivial = the identifier is a qualified or dot-imported remote reference; distinct by position")
}

// ---- the syntax-based resolver as an object with state (ResolveCache.tla) ----

const resolveCacheMC = `---- MODULE ResolveCacheMC ----
EXTENDS ResolveCache
MCNameOf == [p \in ImpPaths |-> CASE p = "p1" -> "a" [] p = "p2" -> "a" [] p = "p3" -> "b" [] p = "pu" -> "" [] OTHER -> "C"]
====
`

func resolveCacheCfg(maxSpecs, maxCalls int, variant string, emit bool) string {
	return fmt.Sprintf("CONSTANTS Names = {\"a\",\"b\"} ImpPaths = {\"p1\",\"p2\",\"p3\",\"pu\",\"C\"} MaxSpecs = %d MaxCalls = %d Variant = \"%s\" EmitHist = %s\nNameOf <- MCNameOf\nINIT Init\nNEXT Next\nINVARIANTS EveryCallDecides HistoryFree AnswersSound Emit\nVIEW View\nCHECK_DEADLOCK FALSE\n", maxSpecs, maxCalls, variant, tlaBool(emit))
}

type rcSpec struct{ Alias, Path, Name string }
type rcCall struct {
	F    string
	Err  bool
	A, B string
}
type rcBeh struct {
	Specs []rcSpec
	Hist  []rcCall
}

func rcSource(specs []rcSpec) string {
	var sb strings.Builder
	sb.WriteString("package main\n\n")
	if len(specs) > 0 {
		sb.WriteString("import (\n")
		for _, s := range specs {
			sb.WriteString("\t")
			if s.Alias != "" {
				sb.WriteString(s.Alias + " ")
			}
			sb.WriteString(strconv.Quote(s.Path) + "\n")
		}
		sb.WriteString(")\n\n")
	}
	sb.WriteString("var _ = a.T\n\nvar _ = b.T\n\nvar _ = plain\n")
	return sb.String()
}

// rcReplay runs one history of calls on one real goast resolver and compares every answer with the
// specification's.
func rcReplay(b rcBeh) string {
	fset := token.NewFileSet()
	files := map[string]*ast.File{}
	var perr error
	files["A"], perr = parser.ParseFile(fset, "a.go", rcSource(b.Specs), parser.ParseComments)
	if perr != nil {
		return "harness: " + perr.Error()
	}
	files["B"], _ = parser.ParseFile(fset, "b.go", rcSource([]rcSpec{{"", "p3", "b"}}), parser.ParseComments)
	res := goast.WithResolver(simple.New(map[string]string{"p1": "a", "p2": "a", "p3": "b"}))
	sel := func(f *ast.File, x string) *ast.SelectorExpr {
		var out *ast.SelectorExpr
		ast.Inspect(f, func(n ast.Node) bool {
			if se, ok := n.(*ast.SelectorExpr); ok {
				if id, ok := se.X.(*ast.Ident); ok && id.Name == x {
					out = se
				}
			}
			return true
		})
		return out
	}
	for i, want := range b.Hist {
		f := files[want.F]
		var got rcCall
		got.F = want.F
		msg := guard(func() {
			sa, sb := sel(f, "a"), sel(f, "b")
			pa, ea := res.ResolveIdent(f, sa, "Sel", sa.Sel)
			pb, eb := res.ResolveIdent(f, sb, "Sel", sb.Sel)
			// an identifier that is no selector at all: on an undecidable file (a dot-import may provide it) the
			// resolver has to refuse here too
			var plain *ast.Ident
			var plainParent ast.Node
			ast.Inspect(f, func(n ast.Node) bool {
				if vs, ok := n.(*ast.ValueSpec); ok && len(vs.Values) == 1 {
					if id, ok := vs.Values[0].(*ast.Ident); ok && id.Name == "plain" {
						plain, plainParent = id, vs
					}
				}
				return true
			})
			pp, ep := res.ResolveIdent(f, plainParent, "Values", plain)
			got.Err = ea != nil || eb != nil
			if (ea != nil) != (eb != nil) || (ea != nil) != (ep != nil) {
				got.A = "<one call refused, another did not>"
			} else if ep == nil && pp != "" {
				got.A = "<a plain identifier got the path " + pp + ">"
			} else if !got.Err {
				got.A, got.B = pa, pb
			}
		})
		if msg != "" {
			return fmt.Sprintf("call %d on file %s panicked: %s", i+1, want.F, msg)
		}
		if got != want {
			return fmt.Sprintf("call %d on file %s: the resolver answered err=%v a=%q b=%q, the specification err=%v a=%q b=%q", i+1, want.F, got.Err, got.A, got.B, want.Err, want.A, want.B)
		}
	}
	return ""
}

func c09Cache(c *Ctx) bool {
	ms, mc := 2, 3
	if !c.Quick() {
		ms, mc = 3, 4
	}
	files := map[string][]byte{"ResolveCacheMC.tla": []byte(resolveCacheMC)}
	r, err := RunTLC(TLCRun{Module: "ResolveCacheMC", Cfg: resolveCacheCfg(ms, mc, "ok", false), Workers: 8, Timeout: 20 * time.Minute, Files: files})
	if err != nil || !r.OK() {
		c.Infra("TLC model check of ResolveCache failed: " + errText(r, err))
		return false
	}
	c.TLC(r)
	v, err := RunTLC(TLCRun{Module: "ResolveCacheMC", Cfg: resolveCacheCfg(2, 3, "storeEarly", false), Workers: 8, Timeout: 20 * time.Minute, Files: files})
	if err != nil || v.Violated != "EveryCallDecides" {
		c.Infra("TLC did not reject the storeEarly variant of ResolveCache: " + errText(v, err))
		return false
	}
	c.TLC(v)
	gen, err := RunTLC(TLCRun{Module: "ResolveCacheMC", Cfg: resolveCacheCfg(ms, mc, "ok", true), Workers: 8, Timeout: 20 * time.Minute, Files: files})
	if err != nil || !gen.OK() {
		c.Infra("TLC generation run of ResolveCache failed: " + errText(gen, err))
		return false
	}
	c.TLC(gen)
	behs := gen.Payloads("BEH ")
	if len(behs) == 0 {
		c.Infra("TLC emitted no ResolveCache behaviours")
		return false
	}
	c.Set("resolver_histories_replayed", len(behs))
	c.Set("resolver_history_bounds", fmt.Sprintf("all import lists of <= %d specs over 5 aliases x 5 paths (two paths share a name, one is unresolvable, one is \"C\") x all sequences of %d calls on that file and a second file, one shared resolver", ms, mc))
	for _, bs := range behs {
		var b rcBeh
		if err := json.Unmarshal([]byte(bs), &b); err != nil {
			c.Infra("bad ResolveCache behaviour: " + err.Error())
			return false
		}
		refused := false
		for _, h := range b.Hist {
			refused = refused || h.Err
		}
		c.Eval("resolver-history|"+bs, refused)
		c.Traces(1)
		if msg := rcReplay(b); msg != "" {
			if strings.HasPrefix(msg, "harness:") {
				c.Infra(msg)
				return false
			}
			c.Fail(Finding{Sig: "goast-history-dependent", Input: "resolver-history|" + shortHash(bs), What: "imports " + truncate(rcSource(b.Specs), 200) + ": " + msg, Replay: obj{"kind": "c09cache", "beh": bs}})
		}
	}
	return true
}

func init() {
	replayers["c09cache"] = func(raw json.RawMessage) string {
		var r struct{ Beh string }
		json.Unmarshal(raw, &r)
		var b rcBeh
		if json.Unmarshal([]byte(r.Beh), &b) != nil {
			return ""
		}
		return rcReplay(b)
	}
}

// c09Package: the syntax-based resolver asked through a package decoration (Decorator.ParseDir,
// DecorateNode on an *ast.Package). Every identifier must get the path it gets when its file is
// decorated alone - the files import different packages under one name, and //line directives make
// positions report other file names.
func c09Package(c *Ctx) {
	names := map[string]string{"example.com/one": "one", "example.com/two": "two", "example.com/three": "three"}
	variants := map[string][2]string{
		"same-alias":     {"package p\n\nimport x \"example.com/one\"\n\nvar A = x.V\n\nfunc fa() int { return x.F(A) }\n", "package p\n\nimport x \"example.com/two\"\n\nvar B = x.V\n"},
		"line-directive": {"package p\n\nimport x \"example.com/one\"\n\n//line b.go:100\nvar A = x.V\n\nfunc fa() int { return x.F(A) }\n", "package p\n\nimport x \"example.com/two\"\n\nvar B = x.V\n"},
		"line-elsewhere": {"package p\n\nimport \"example.com/one\"\n\n//line gen.y:7\nvar A = one.V\n", "package p\n\nimport (\n\t\"example.com/three\"\n\t\"example.com/two\"\n)\n\n//line a.go:1\nvar B = two.V + three.V\n"},
	}
	pathsOf := func(d *decorator.Decorator, af *ast.File) []string {
		var out []string
		ast.Inspect(af, func(n ast.Node) bool {
			if id, ok := n.(*ast.Ident); ok {
				if dn, ok := d.Dst.Nodes[id].(*dst.Ident); ok {
					out = append(out, id.Name+"@"+dn.Path)
				}
			}
			return true
		})
		return out
	}
	var keys []string
	for k := range variants {
		keys = append(keys, k)
	}
	sort.Strings(keys)
	for _, k := range keys {
		srcs := variants[k]
		key := "package-decoration|" + k
		c.Eval(key, true)
		// reference: every file alone
		var want [][]string
		for i, src := range srcs {
			fset := token.NewFileSet()
			af, err := parser.ParseFile(fset, []string{"a.go", "b.go"}[i], src, parser.ParseComments)
			if err != nil {
				c.Infra("package source does not parse: " + err.Error())
				return
			}
			d := decorator.NewDecoratorWithImports(fset, "example.com/p", goast.WithResolver(simple.New(names)))
			if _, err := d.DecorateFile(af); err != nil {
				c.Infra("package source is refused: " + err.Error())
				return
			}
			want = append(want, pathsOf(d, af))
		}
		fset := token.NewFileSet()
		pkg := &ast.Package{Name: "p", Files: map[string]*ast.File{}}
		var afs []*ast.File
		for i, src := range srcs {
			af, _ := parser.ParseFile(fset, []string{"a.go", "b.go"}[i], src, parser.ParseComments)
			pkg.Files[[]string{"a.go", "b.go"}[i]] = af
			afs = append(afs, af)
		}
		d := decorator.NewDecoratorWithImports(fset, "example.com/p", goast.WithResolver(simple.New(names)))
		var err error
		if msg := guard(func() { _, err = d.DecorateNode(pkg) }); msg != "" || err != nil {
			c.Fail(Finding{Sig: "package-decoration-fails", Input: key, What: fmt.Sprintf("%s %v", msg, err), Replay: obj{"kind": "none"}})
			continue
		}
		for i, af := range afs {
			if got := pathsOf(d, af); strings.Join(got, " ") != strings.Join(want[i], " ") {
				c.Fail(Finding{Sig: "package-decoration-paths-differ", Input: key, What: fmt.Sprintf("file %d decorated as part of the package: %v; decorated alone: %v", i+1, got, want[i]), Replay: obj{"kind": "none"}})
			}
		}
	}
}

// c09Redecorate: the syntax-based resolver asked about an *ast.File that did not come from go/parser:
// the restorer's own output (no object resolution, no File.Imports list), decorated again. Every
// identifier gets the path it got the first time, and a dot-import is refused as it is for a parsed file.
func c09Redecorate(c *Ctx) {
	names := map[string]string{"example.com/one": "one", "example.com/two": "two", "strings": "strings", "fmt": "fmt"}
	srcs := map[string]string{
		"plain-and-alias": "package p\n\nimport (\n\t\"fmt\"\n\tx \"example.com/one\"\n\t\"example.com/two\"\n)\n\nfunc f() { fmt.Println(x.V, two.W) }\n",
		"single":          "package p\n\nimport \"strings\"\n\nvar b strings.Builder\n",
		"dot-import":      "package p\n\nimport . \"fmt\"\n\nfunc f() { Println() }\n",
	}
	pathsOf := func(f *dst.File) []string {
		var out []string
		dst.Inspect(f, func(n dst.Node) bool {
			if id, ok := n.(*dst.Ident); ok && id.Path != "" {
				out = append(out, id.Name+"@"+id.Path)
			}
			return true
		})
		return out
	}
	// a file built by hand: the import path literal carries its text only (no Kind), as hand-built
	// literals often do; printers and type-checkers read the text, and so must the resolver
	{
		key := "redecorate-restored-ast|hand-built-import"
		c.Eval(key, true)
		hf := &dst.File{Name: dst.NewIdent("p"), Decls: []dst.Decl{
			&dst.GenDecl{Tok: token.IMPORT, Specs: []dst.Spec{&dst.ImportSpec{Path: &dst.BasicLit{Value: "\"example.com/one\""}}}},
			&dst.GenDecl{Tok: token.VAR, Specs: []dst.Spec{&dst.ValueSpec{Names: []*dst.Ident{dst.NewIdent("a")}, Values: []dst.Expr{&dst.SelectorExpr{X: dst.NewIdent("one"), Sel: dst.NewIdent("V")}}}}},
		}}
		r := decorator.NewRestorer()
		af, err := r.RestoreFile(hf)
		if err != nil {
			c.Infra("hand-built file does not restore: " + err.Error())
			return
		}
		var f2 *dst.File
		var derr error
		d := decorator.NewDecoratorWithImports(r.Fset, "example.com/p", goast.WithResolver(simple.New(names)))
		if msg := guard(func() { f2, derr = d.DecorateFile(af) }); msg != "" || derr != nil {
			c.Fail(Finding{Sig: "redecorate-fails", Input: key, What: fmt.Sprintf("%s %v", msg, derr), Replay: obj{"kind": "none"}})
		} else if got := pathsOf(f2); strings.Join(got, " ") != "V@example.com/one" {
			c.Fail(Finding{Sig: "redecorate-paths-differ", Input: key, What: fmt.Sprintf("a hand-built file importing example.com/one and using one.V, restored and decorated: %v", got), Replay: obj{"kind": "none"}})
		}
	}
	var keys []string
	for k := range srcs {
		keys = append(keys, k)
	}
	sort.Strings(keys)
	for _, k := range keys {
		key := "redecorate-restored-ast|" + k
		c.Eval(key, true)
		mk := func(fset *token.FileSet) *decorator.Decorator {
			return decorator.NewDecoratorWithImports(fset, "example.com/p", goast.WithResolver(simple.New(names)))
		}
		if k == "dot-import" {
			// decorated without import resolution (the resolver refuses it), restored, then asked again
			f0, err := decorator.Parse(srcs[k])
			if err != nil {
				c.Infra(err.Error())
				return
			}
			r := decorator.NewRestorer()
			af, err := r.RestoreFile(f0)
			if err != nil {
				c.Infra(err.Error())
				return
			}
			var derr error
			if msg := guard(func() { _, derr = mk(r.Fset).DecorateFile(af) }); msg != "" {
				c.Fail(Finding{Sig: "redecorate-panics", Input: key, What: msg, Replay: obj{"kind": "none"}})
			} else if derr == nil {
				c.Fail(Finding{Sig: "dot-import-not-refused", Input: key, What: "the restorer's *ast.File with a dot-import is decorated by the syntax-based resolver without an error (the parsed file is refused)", Replay: obj{"kind": "none"}})
			}
			continue
		}
		f1, err := mk(token.NewFileSet()).Parse(srcs[k])
		if err != nil {
			c.Infra("redecorate source is refused: " + err.Error())
			return
		}
		want := pathsOf(f1)
		r := decorator.NewRestorerWithImports("example.com/p", simple.New(names))
		af, err := r.RestoreFile(f1)
		if err != nil {
			c.Fail(Finding{Sig: "redecorate-restore-fails", Input: key, What: err.Error(), Replay: obj{"kind": "none"}})
			continue
		}
		var f2 *dst.File
		var derr error
		if msg := guard(func() { f2, derr = mk(r.Fset).DecorateFile(af) }); msg != "" || derr != nil {
			c.Fail(Finding{Sig: "redecorate-fails", Input: key, What: fmt.Sprintf("%s %v", msg, derr), Replay: obj{"kind": "none"}})
			continue
		}
		if got := pathsOf(f2); strings.Join(got, " ") != strings.Join(want, " ") {
			c.Fail(Finding{Sig: "redecorate-paths-differ", Input: key, What: fmt.Sprintf("first decoration %v, the restored *ast.File decorated again %v", want, got), Replay: obj{"kind": "none"}})
		}
	}
}

// respellImports rewrites the path literals of the import declarations: mode 1 as raw strings, mode 2 with
// the first letter of the last path element written as a \x escape (and the first slash as \u002f).
func respellImports(src string, mode int) string {
	fset := token.NewFileSet()
	af, err := parser.ParseFile(fset, "", src, parser.ImportsOnly)
	if err != nil {
		return src
	}
	out := src
	for i := len(af.Imports) - 1; i >= 0; i-- {
		is := af.Imports[i]
		path, err := strconv.Unquote(is.Path.Value)
		if err != nil || path == "C" || path == "" {
			continue
		}
		lit := "`" + path + "`"
		if mode == 2 {
			j := strings.LastIndex(path, "/") + 1
			esc := path[:j] + fmt.Sprintf("\\x%02x", path[j]) + path[j+1:]
			esc = strings.Replace(esc, "/", "\\u002f", 1)
			lit = "\"" + esc + "\""
		}
		from, to := fset.Position(is.Path.Pos()).Offset, fset.Position(is.Path.End()).Offset
		out = out[:from] + lit + out[to:]
	}
	return out
}

// c09PackageModel: PackageFiles.tla (which file's import table an identifier is resolved against when a
// package is decorated as a whole). The three wrong lookups are shown rejected; every layout of the model
// (what a //line directive names, whether the file ends in an identifier) is then built as a real
// package whose files import different packages under one name, decorated in one DecorateNode call
// with the syntax-based resolver, and every qualified identifier has to carry the path of ITS file.
func c09PackageModel(c *Ctx) bool {
	cfg := func(v string, emit bool) string {
		return fmt.Sprintf("CONSTANTS NFiles = 3 Variant = \"%s\" EmitHist = %s\nINIT Init\nNEXT Next\nINVARIANTS OwnFile Emit\nCHECK_DEADLOCK FALSE\n", v, tlaBool(emit))
	}
	for _, v := range []string{"whole", "name", "remember"} {
		r, err := RunTLC(TLCRun{Module: "PackageFiles", Cfg: cfg(v, false), Workers: 2, Timeout: 10 * time.Minute})
		if err != nil || r.Violated != "OwnFile" {
			c.Infra("TLC did not reject the " + v + " variant of PackageFiles: " + errText(r, err))
			return false
		}
	}
	gen, err := RunTLC(TLCRun{Module: "PackageFiles", Cfg: cfg("range", true), Workers: 1, Timeout: 10 * time.Minute})
	if err != nil || !gen.OK() {
		c.Infra("TLC (PackageFiles) failed: " + errText(gen, err))
		return false
	}
	c.TLC(gen)
	layouts := gen.Payloads("BEH ")
	if len(layouts) != 216 {
		c.Infra(fmt.Sprintf("PackageFiles emitted %d layouts, expected 216", len(layouts)))
		return false
	}
	for _, raw := range layouts {
		var lay struct {
			Files []struct {
				Dir  string `json:"dir"`
				Last bool   `json:"last"`
			} `json:"files"`
		}
		if json.Unmarshal([]byte(raw), &lay) != nil || len(lay.Files) != 3 {
			c.Infra("bad PackageFiles layout: " + raw)
			return false
		}
		var keyParts []string
		fset := token.NewFileSet()
		pkg := &ast.Package{Name: "p", Files: map[string]*ast.File{}}
		var afs []*ast.File
		n := len(lay.Files)
		for i, lf := range lay.Files {
			keyParts = append(keyParts, fmt.Sprintf("%s/%v", lf.Dir, lf.Last))
			directive := ""
			switch lf.Dir {
			case "sibling":
				directive = fmt.Sprintf("//line f%d.go:1\n", (i+1)%n+1)
			case "other":
				directive = "//line gen.y:40\n"
			}
			last := fmt.Sprintf("var Z%d = x.Z()\n", i+1)
			if lf.Last {
				last = fmt.Sprintf("var Z%d = x.Z\n", i+1)
			}
			src := fmt.Sprintf("package p\n\nimport x \"example.com/pkg%d\"\n\n%svar A%d = x.A\n\n%s", i+1, directive, i+1, last)
			name := fmt.Sprintf("f%d.go", i+1)
			af, err := parser.ParseFile(fset, name, src, parser.ParseComments)
			if err != nil {
				c.Infra("PackageFiles source does not parse: " + err.Error())
				return false
			}
			pkg.Files[name] = af
			afs = append(afs, af)
		}
		key := "package-files|" + strings.Join(keyParts, " ")
		c.Eval(key, true)
		d := decorator.NewDecoratorWithImports(fset, "example.com/p", goast.WithResolver(simple.New(map[string]string{"example.com/pkg1": "x", "example.com/pkg2": "x", "example.com/pkg3": "x"})))
		var derr error
		if msg := guard(func() { _, derr = d.DecorateNode(pkg) }); msg != "" || derr != nil {
			c.Fail(Finding{Sig: "package-decoration-fails", Input: key, What: fmt.Sprintf("%s %v", msg, derr), Replay: obj{"kind": "none"}})
			continue
		}
		for i, af := range afs {
			df, _ := d.Dst.Nodes[af].(*dst.File)
			if df == nil {
				c.Fail(Finding{Sig: "package-decoration-fails", Input: key, What: fmt.Sprintf("file %d has no decorated counterpart", i+1), Replay: obj{"kind": "none"}})
				break
			}
			want := fmt.Sprintf("example.com/pkg%d", i+1)
			var got []string
			bad := false
			dst.Inspect(df, func(m dst.Node) bool {
				if id, ok := m.(*dst.Ident); ok && (id.Name == "A" || id.Name == "Z") {
					got = append(got, id.Name+"@"+id.Path)
					bad = bad || id.Path != want
				}
				return true
			})
			if bad || len(got) != 2 {
				c.Fail(Finding{Sig: "package-decoration-paths-differ", Input: key, What: fmt.Sprintf("file %d of a package decorated as a whole imports %s as x; its qualified identifiers got %v", i+1, want, got), Replay: obj{"kind": "none"}})
				break
			}
		}
	}
	c.Set("package_files_model", "PackageFiles.tla: 3 files x {no directive, //line naming a sibling, //line naming a file outside the package} x {ends in an identifier or not} x every decoration order; whole / name / remember lookups rejected; 216 layouts replayed")
	return true
}
