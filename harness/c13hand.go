package main

import (
	"fmt"
	"go/ast"
	"reflect"
	"strings"

	"github.com/dave/dst"
)

// c13HandBuilt: nodes that no parser produced. For every node type, every combination of present and
// absent children is built from zero values (a range statement with a value and no key, a field with a
// tag and no type, a slice expression with a capacity and no bounds, ...): Walk and Inspect visit the
// node and each child that is there exactly once, and nothing else.
var c13NodeTypes = []dst.Node{
	&dst.ArrayType{}, &dst.AssignStmt{}, &dst.BadDecl{}, &dst.BadExpr{}, &dst.BadStmt{}, &dst.BasicLit{}, &dst.BinaryExpr{},
	&dst.BlockStmt{}, &dst.BranchStmt{}, &dst.CallExpr{}, &dst.CaseClause{}, &dst.ChanType{}, &dst.CommClause{}, &dst.CompositeLit{},
	&dst.DeclStmt{}, &dst.DeferStmt{}, &dst.Ellipsis{}, &dst.EmptyStmt{}, &dst.ExprStmt{}, &dst.Field{}, &dst.FieldList{}, &dst.File{},
	&dst.ForStmt{}, &dst.FuncDecl{}, &dst.FuncLit{}, &dst.FuncType{}, &dst.GenDecl{}, &dst.GoStmt{}, &dst.Ident{}, &dst.IfStmt{},
	&dst.ImportSpec{}, &dst.IncDecStmt{}, &dst.IndexExpr{}, &dst.IndexListExpr{}, &dst.InterfaceType{}, &dst.KeyValueExpr{},
	&dst.LabeledStmt{}, &dst.MapType{}, &dst.ParenExpr{}, &dst.RangeStmt{}, &dst.ReturnStmt{}, &dst.SelectStmt{}, &dst.SelectorExpr{},
	&dst.SendStmt{}, &dst.SliceExpr{}, &dst.StarExpr{}, &dst.StructType{}, &dst.SwitchStmt{}, &dst.TypeAssertExpr{}, &dst.TypeSpec{},
	&dst.TypeSwitchStmt{}, &dst.UnaryExpr{}, &dst.ValueSpec{},
}

var c13AstTypes = map[string]ast.Node{
	"ArrayType": &ast.ArrayType{},
	"AssignStmt": &ast.AssignStmt{},
	"BadDecl": &ast.BadDecl{},
	"BadExpr": &ast.BadExpr{},
	"BadStmt": &ast.BadStmt{},
	"BasicLit": &ast.BasicLit{},
	"BinaryExpr": &ast.BinaryExpr{},
	"BlockStmt": &ast.BlockStmt{},
	"BranchStmt": &ast.BranchStmt{},
	"CallExpr": &ast.CallExpr{},
	"CaseClause": &ast.CaseClause{},
	"ChanType": &ast.ChanType{},
	"CommClause": &ast.CommClause{},
	"CompositeLit": &ast.CompositeLit{},
	"DeclStmt": &ast.DeclStmt{},
	"DeferStmt": &ast.DeferStmt{},
	"Ellipsis": &ast.Ellipsis{},
	"EmptyStmt": &ast.EmptyStmt{},
	"ExprStmt": &ast.ExprStmt{},
	"Field": &ast.Field{},
	"FieldList": &ast.FieldList{},
	"File": &ast.File{},
	"ForStmt": &ast.ForStmt{},
	"FuncDecl": &ast.FuncDecl{},
	"FuncLit": &ast.FuncLit{},
	"FuncType": &ast.FuncType{},
	"GenDecl": &ast.GenDecl{},
	"GoStmt": &ast.GoStmt{},
	"Ident": &ast.Ident{},
	"IfStmt": &ast.IfStmt{},
	"ImportSpec": &ast.ImportSpec{},
	"IncDecStmt": &ast.IncDecStmt{},
	"IndexExpr": &ast.IndexExpr{},
	"IndexListExpr": &ast.IndexListExpr{},
	"InterfaceType": &ast.InterfaceType{},
	"KeyValueExpr": &ast.KeyValueExpr{},
	"LabeledStmt": &ast.LabeledStmt{},
	"MapType": &ast.MapType{},
	"ParenExpr": &ast.ParenExpr{},
	"RangeStmt": &ast.RangeStmt{},
	"ReturnStmt": &ast.ReturnStmt{},
	"SelectStmt": &ast.SelectStmt{},
	"SelectorExpr": &ast.SelectorExpr{},
	"SendStmt": &ast.SendStmt{},
	"SliceExpr": &ast.SliceExpr{},
	"StarExpr": &ast.StarExpr{},
	"StructType": &ast.StructType{},
	"SwitchStmt": &ast.SwitchStmt{},
	"TypeAssertExpr": &ast.TypeAssertExpr{},
	"TypeSpec": &ast.TypeSpec{},
	"TypeSwitchStmt": &ast.TypeSwitchStmt{},
	"UnaryExpr": &ast.UnaryExpr{},
	"ValueSpec": &ast.ValueSpec{},
}

func c13AstLeaf(t reflect.Type) reflect.Value {
	switch {
	case t.Kind() == reflect.Ptr:
		return reflect.New(t.Elem())
	case t == reflect.TypeOf((*ast.Stmt)(nil)).Elem():
		return reflect.ValueOf(&ast.EmptyStmt{})
	case t == reflect.TypeOf((*ast.Decl)(nil)).Elem():
		return reflect.ValueOf(&ast.BadDecl{})
	case t == reflect.TypeOf((*ast.Spec)(nil)).Elem():
		return reflect.ValueOf(&ast.ValueSpec{})
	}
	return reflect.ValueOf(&ast.Ident{Name: "x"})
}

func c13Leaf(t reflect.Type) reflect.Value {
	switch {
	case t.Kind() == reflect.Ptr:
		return reflect.New(t.Elem())
	case t == reflect.TypeOf((*dst.Expr)(nil)).Elem():
		return reflect.ValueOf(&dst.Ident{Name: "x"})
	case t == reflect.TypeOf((*dst.Stmt)(nil)).Elem():
		return reflect.ValueOf(&dst.EmptyStmt{})
	case t == reflect.TypeOf((*dst.Decl)(nil)).Elem():
		return reflect.ValueOf(&dst.BadDecl{})
	case t == reflect.TypeOf((*dst.Spec)(nil)).Elem():
		return reflect.ValueOf(&dst.ValueSpec{})
	}
	return reflect.ValueOf(&dst.Ident{Name: "x"})
}

func c13HandBuilt(c *Ctx) {
	nodeT := reflect.TypeOf((*dst.Node)(nil)).Elem()
	for _, proto := range c13NodeTypes {
		rt := reflect.TypeOf(proto).Elem()
		var single, lists []int
		for i := 0; i < rt.NumField(); i++ {
			f := rt.Field(i)
			if rt.Name() == "File" && (f.Name == "Imports" || f.Name == "Unresolved") {
				continue // not children: the traversal does not enter them
			}
			switch {
			case f.Type.Kind() == reflect.Slice && f.Type.Elem().Implements(nodeT):
				lists = append(lists, i)
			case (f.Type.Kind() == reflect.Ptr || f.Type.Kind() == reflect.Interface) && f.Type.Implements(nodeT):
				single = append(single, i)
			}
		}
		fields := append(append([]int{}, single...), lists...)
		for mask := 0; mask < 1<<uint(len(fields)); mask++ {
			root := reflect.New(rt)
			aroot := reflect.New(reflect.TypeOf(c13AstTypes[rt.Name()]).Elem())
			want := map[dst.Node]string{}
			awant := map[ast.Node]string{}
			var present []string
			for bi, fi := range fields {
				if mask&(1<<uint(bi)) == 0 {
					continue
				}
				fv := root.Elem().Field(fi)
				av := aroot.Elem().FieldByName(rt.Field(fi).Name)
				present = append(present, rt.Field(fi).Name)
				if fv.Kind() == reflect.Slice {
					for k := 0; k < 2; k++ {
						leaf, aleaf := c13Leaf(fv.Type().Elem()), c13AstLeaf(av.Type().Elem())
						fv.Set(reflect.Append(fv, leaf))
						av.Set(reflect.Append(av, aleaf))
						want[leaf.Interface().(dst.Node)] = fmt.Sprintf("%s[%d]", rt.Field(fi).Name, k)
						awant[aleaf.Interface().(ast.Node)] = fmt.Sprintf("%s[%d]", rt.Field(fi).Name, k)
					}
				} else {
					leaf, aleaf := c13Leaf(fv.Type()), c13AstLeaf(av.Type())
					fv.Set(leaf)
					av.Set(aleaf)
					want[leaf.Interface().(dst.Node)] = rt.Field(fi).Name
					awant[aleaf.Interface().(ast.Node)] = rt.Field(fi).Name
				}
			}
			// what go/ast makes of the same node: a combination it cannot walk (a required child is absent) is
			// no tree at all; otherwise its order of the children is the reference
			var aseq []string
			if amsg := guard(func() {
				ast.Inspect(aroot.Interface().(ast.Node), func(n ast.Node) bool {
					if n != nil && !reflect.ValueOf(n).IsNil() {
						if l, ok := awant[n]; ok {
							aseq = append(aseq, l)
						}
					}
					return true
				})
			}); amsg != "" {
				continue
			}
			rn := root.Interface().(dst.Node)
			key := fmt.Sprintf("hand-built|%s|%s", rt.Name(), strings.Join(present, "+"))
			c.Eval(key, len(present) > 0)
			for _, how := range []string{"Inspect", "Walk"} {
				got := map[dst.Node]int{}
				var dseq []string
				msg := guard(func() {
					visit := func(n dst.Node) bool {
						if n != nil && !reflect.ValueOf(n).IsNil() {
							got[n]++
							if l, ok := want[n]; ok {
								dseq = append(dseq, l)
							}
						}
						return true
					}
					if how == "Inspect" {
						dst.Inspect(rn, visit)
					} else {
						dst.Walk(walkFunc(visit), rn)
					}
				})
				if msg != "" {
					c.Fail(Finding{Sig: "walk-panics", Input: key, What: fmt.Sprintf("%s on a hand-built %s with children %v: %s", how, rt.Name(), present, msg), Replay: obj{"kind": "none"}})
					continue
				}
				bad := ""
				if got[rn] != 1 {
					bad = fmt.Sprintf("the node itself is visited %d times", got[rn])
				}
				for n, name := range want {
					if got[n] != 1 && bad == "" {
						bad = fmt.Sprintf("the child in %s is visited %d times", name, got[n])
					}
				}
				if len(got) > len(want)+1 && bad == "" {
					bad = fmt.Sprintf("%d nodes are visited, the node has %d children", len(got), len(want))
				}
				if bad == "" && strings.Join(dseq, " ") != strings.Join(aseq, " ") {
					bad = fmt.Sprintf("the children are visited in the order %v, go/ast visits them in the order %v", dseq, aseq)
				}
				if bad != "" {
					c.Fail(Finding{Sig: "hand-built-node-children-not-visited-once", Input: key, What: fmt.Sprintf("%s on a hand-built %s with the children %v: %s", how, rt.Name(), present, bad), Replay: obj{"kind": "none"}})
				}
			}
		}
	}
}

type walkFunc func(dst.Node) bool

func (f walkFunc) Visit(n dst.Node) dst.Visitor {
	if f(n) {
		return f
	}
	return nil
}
