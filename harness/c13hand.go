package main

import (
	"encoding/json"
	"fmt"
	"go/ast"
	"go/parser"
	"go/token"
	"reflect"
	"sort"
	"strings"
	"time"

	"github.com/dave/dst"
	"github.com/dave/dst/decorator"
)

// c13HandBuilt: nodes that no parser produced. For every node type, every combination of present and
// absent children is built from zero values (a range statement with a value and no key, a field with a
// tag and no type, a slice expression with a capacity and no bounds, ...): Walk and Inspect visit the
// node and each child that is there exactly once, and nothing else.
var c13NodeTypes = []dst.Node{
	&dst.ArrayType{}, &dst.AssignStmt{}, &dst.BadDecl{}, &dst.BadExpr{}, &dst.BadStmt{}, &dst.BasicLit{}, &dst.BinaryExpr{},
	&dst.BlockStmt{}, &dst.BranchStmt{}, &dst.CallExpr{}, &dst.CaseClause{}, &dst.ChanType{}, &dst.CommClause{}, &dst.CompositeLit{},
	&dst.DeclStmt{}, &dst.DeferStmt{}, &dst.Ellipsis{}, &dst.EmptyStmt{}, &dst.ExprStmt{}, &dst.Field{}, &dst.FieldList{}, &dst.File{},
	&dst.ForStmt{}, &dst.FuncDecl{}, &dst.FuncLit{}, &dst.FuncType{}, &dst.GenDecl{}, &dst.GoStmt{}, &dst.Ident{}, &dst.IfStmt{},
	&dst.ImportSpec{}, &dst.IncDecStmt{}, &dst.IndexExpr{}, &dst.IndexListExpr{}, &dst.InterfaceType{}, &dst.KeyValueExpr{},
	&dst.LabeledStmt{}, &dst.MapType{}, &dst.ParenExpr{}, &dst.RangeStmt{}, &dst.ReturnStmt{}, &dst.SelectStmt{}, &dst.SelectorExpr{},
	&dst.SendStmt{}, &dst.SliceExpr{}, &dst.StarExpr{}, &dst.StructType{}, &dst.SwitchStmt{}, &dst.TypeAssertExpr{}, &dst.TypeSpec{},
	&dst.TypeSwitchStmt{}, &dst.UnaryExpr{}, &dst.ValueSpec{},
}

var c13AstTypes = map[string]ast.Node{
	"ArrayType":      &ast.ArrayType{},
	"AssignStmt":     &ast.AssignStmt{},
	"BadDecl":        &ast.BadDecl{},
	"BadExpr":        &ast.BadExpr{},
	"BadStmt":        &ast.BadStmt{},
	"BasicLit":       &ast.BasicLit{},
	"BinaryExpr":     &ast.BinaryExpr{},
	"BlockStmt":      &ast.BlockStmt{},
	"BranchStmt":     &ast.BranchStmt{},
	"CallExpr":       &ast.CallExpr{},
	"CaseClause":     &ast.CaseClause{},
	"ChanType":       &ast.ChanType{},
	"CommClause":     &ast.CommClause{},
	"CompositeLit":   &ast.CompositeLit{},
	"DeclStmt":       &ast.DeclStmt{},
	"DeferStmt":      &ast.DeferStmt{},
	"Ellipsis":       &ast.Ellipsis{},
	"EmptyStmt":      &ast.EmptyStmt{},
	"ExprStmt":       &ast.ExprStmt{},
	"Field":          &ast.Field{},
	"FieldList":      &ast.FieldList{},
	"File":           &ast.File{},
	"ForStmt":        &ast.ForStmt{},
	"FuncDecl":       &ast.FuncDecl{},
	"FuncLit":        &ast.FuncLit{},
	"FuncType":       &ast.FuncType{},
	"GenDecl":        &ast.GenDecl{},
	"GoStmt":         &ast.GoStmt{},
	"Ident":          &ast.Ident{},
	"IfStmt":         &ast.IfStmt{},
	"ImportSpec":     &ast.ImportSpec{},
	"IncDecStmt":     &ast.IncDecStmt{},
	"IndexExpr":      &ast.IndexExpr{},
	"IndexListExpr":  &ast.IndexListExpr{},
	"InterfaceType":  &ast.InterfaceType{},
	"KeyValueExpr":   &ast.KeyValueExpr{},
	"LabeledStmt":    &ast.LabeledStmt{},
	"MapType":        &ast.MapType{},
	"ParenExpr":      &ast.ParenExpr{},
	"RangeStmt":      &ast.RangeStmt{},
	"ReturnStmt":     &ast.ReturnStmt{},
	"SelectStmt":     &ast.SelectStmt{},
	"SelectorExpr":   &ast.SelectorExpr{},
	"SendStmt":       &ast.SendStmt{},
	"SliceExpr":      &ast.SliceExpr{},
	"StarExpr":       &ast.StarExpr{},
	"StructType":     &ast.StructType{},
	"SwitchStmt":     &ast.SwitchStmt{},
	"TypeAssertExpr": &ast.TypeAssertExpr{},
	"TypeSpec":       &ast.TypeSpec{},
	"TypeSwitchStmt": &ast.TypeSwitchStmt{},
	"UnaryExpr":      &ast.UnaryExpr{},
	"ValueSpec":      &ast.ValueSpec{},
}

func c13AstLeaf(t reflect.Type) reflect.Value {
	switch {
	case t.Kind() == reflect.Ptr:
		return reflect.New(t.Elem())
	case t == reflect.TypeOf((*ast.Stmt)(nil)).Elem():
		return reflect.ValueOf(&ast.EmptyStmt{})
	case t == reflect.TypeOf((*ast.Decl)(nil)).Elem():
		return reflect.ValueOf(&ast.BadDecl{})
	case t == reflect.TypeOf((*ast.Spec)(nil)).Elem():
		return reflect.ValueOf(&ast.ValueSpec{})
	}
	return reflect.ValueOf(&ast.Ident{Name: "x"})
}

func c13Leaf(t reflect.Type) reflect.Value {
	switch {
	case t.Kind() == reflect.Ptr:
		return reflect.New(t.Elem())
	case t == reflect.TypeOf((*dst.Expr)(nil)).Elem():
		return reflect.ValueOf(&dst.Ident{Name: "x"})
	case t == reflect.TypeOf((*dst.Stmt)(nil)).Elem():
		return reflect.ValueOf(&dst.EmptyStmt{})
	case t == reflect.TypeOf((*dst.Decl)(nil)).Elem():
		return reflect.ValueOf(&dst.BadDecl{})
	case t == reflect.TypeOf((*dst.Spec)(nil)).Elem():
		return reflect.ValueOf(&dst.ValueSpec{})
	}
	return reflect.ValueOf(&dst.Ident{Name: "x"})
}

func c13HandBuilt(c *Ctx) {
	// the shapes and the order their children have to be visited in come from WalkSchema.tla (derived from
	// the node description table); the wrong transcriptions are shown rejected first
	cfg := func(v string) string {
		return fmt.Sprintf("CONSTANT Variant = \"%s\"\nINIT Init\nNEXT Next\nINVARIANTS Complete Once OptionalAreOptional Emit\nCHECK_DEADLOCK FALSE\n", v)
	}
	for v, inv := range map[string]string{"value-needs-key": "Complete", "type-required": "OptionalAreOptional"} {
		r, err := RunTLC(TLCRun{Module: "WalkSchema", Cfg: cfg(v), Workers: 1, Timeout: 10 * time.Minute})
		if err != nil || r.Violated != inv {
			c.Infra("TLC did not reject the " + v + " variant of WalkSchema: " + errText(r, err))
			return
		}
	}
	gen, err := RunTLC(TLCRun{Module: "WalkSchema", Cfg: cfg("schema"), Workers: 1, Timeout: 10 * time.Minute})
	if err != nil || !gen.OK() {
		c.Infra("TLC (WalkSchema) failed: " + errText(gen, err))
		return
	}
	c.TLC(gen)
	protos := map[string]reflect.Type{}
	for _, proto := range c13NodeTypes {
		protos[reflect.TypeOf(proto).Elem().Name()] = reflect.TypeOf(proto).Elem()
	}
	shapes := gen.Payloads("BEH ")
	if len(shapes) < 200 {
		c.Infra(fmt.Sprintf("WalkSchema emitted %d shapes", len(shapes)))
		return
	}
	seenType := map[string]bool{}
	for _, raw := range shapes {
		var shape struct {
			Type    string   `json:"type"`
			Present []string `json:"present"`
			Order   []struct {
				F    string `json:"f"`
				List bool   `json:"list"`
			} `json:"order"`
		}
		if json.Unmarshal([]byte(raw), &shape) != nil {
			c.Infra("bad WalkSchema shape: " + raw)
			return
		}
		rt, ok := protos[shape.Type]
		if !ok {
			c.Infra("WalkSchema names a node type the harness cannot build: " + shape.Type)
			return
		}
		seenType[shape.Type] = true
		var fields []int
		for _, f := range shape.Present {
			sf, ok := rt.FieldByName(f)
			if !ok {
				c.Infra("WalkSchema names a child the type does not have: " + shape.Type + "." + f)
				return
			}
			fields = append(fields, sf.Index[0])
		}
		sort.Ints(fields)
		var specOrder []string
		for _, o := range shape.Order {
			if o.List {
				specOrder = append(specOrder, o.F+"[0]", o.F+"[1]")
			} else {
				specOrder = append(specOrder, o.F)
			}
		}
		{
			mask := 1<<uint(len(fields)) - 1
			root := reflect.New(rt)
			aroot := reflect.New(reflect.TypeOf(c13AstTypes[rt.Name()]).Elem())
			want := map[dst.Node]string{}
			awant := map[ast.Node]string{}
			var present []string
			for bi, fi := range fields {
				if mask&(1<<uint(bi)) == 0 {
					continue
				}
				fv := root.Elem().Field(fi)
				av := aroot.Elem().FieldByName(rt.Field(fi).Name)
				present = append(present, rt.Field(fi).Name)
				if fv.Kind() == reflect.Slice {
					for k := 0; k < 2; k++ {
						leaf, aleaf := c13Leaf(fv.Type().Elem()), c13AstLeaf(av.Type().Elem())
						fv.Set(reflect.Append(fv, leaf))
						av.Set(reflect.Append(av, aleaf))
						want[leaf.Interface().(dst.Node)] = fmt.Sprintf("%s[%d]", rt.Field(fi).Name, k)
						awant[aleaf.Interface().(ast.Node)] = fmt.Sprintf("%s[%d]", rt.Field(fi).Name, k)
					}
				} else {
					leaf, aleaf := c13Leaf(fv.Type()), c13AstLeaf(av.Type())
					fv.Set(leaf)
					av.Set(aleaf)
					want[leaf.Interface().(dst.Node)] = rt.Field(fi).Name
					awant[aleaf.Interface().(ast.Node)] = rt.Field(fi).Name
				}
			}
			// what go/ast makes of the same node: a combination it cannot walk (a required child is absent) is
			// no tree at all; otherwise its order of the children is the reference
			var aseq []string
			if amsg := guard(func() {
				ast.Inspect(aroot.Interface().(ast.Node), func(n ast.Node) bool {
					if n != nil && !reflect.ValueOf(n).IsNil() {
						if l, ok := awant[n]; ok {
							aseq = append(aseq, l)
						}
					}
					return true
				})
			}); amsg != "" {
				continue
			}
			rn := root.Interface().(dst.Node)
			key := fmt.Sprintf("hand-built|%s|%s", rt.Name(), strings.Join(present, "+"))
			c.Eval(key, len(present) > 0)
			for _, how := range []string{"Inspect", "Walk"} {
				got := map[dst.Node]int{}
				var dseq []string
				msg := guard(func() {
					visit := func(n dst.Node) bool {
						if n != nil && !reflect.ValueOf(n).IsNil() {
							got[n]++
							if l, ok := want[n]; ok {
								dseq = append(dseq, l)
							}
						}
						return true
					}
					if how == "Inspect" {
						dst.Inspect(rn, visit)
					} else {
						dst.Walk(walkFunc(visit), rn)
					}
				})
				if msg != "" {
					c.Fail(Finding{Sig: "walk-panics", Input: key, What: fmt.Sprintf("%s on a hand-built %s with children %v: %s", how, rt.Name(), present, msg), Replay: obj{"kind": "none"}})
					continue
				}
				bad := ""
				if got[rn] != 1 {
					bad = fmt.Sprintf("the node itself is visited %d times", got[rn])
				}
				for n, name := range want {
					if got[n] != 1 && bad == "" {
						bad = fmt.Sprintf("the child in %s is visited %d times", name, got[n])
					}
				}
				if len(got) > len(want)+1 && bad == "" {
					bad = fmt.Sprintf("%d nodes are visited, the node has %d children", len(got), len(want))
				}
				if bad == "" && strings.Join(dseq, " ") != strings.Join(specOrder, " ") {
					bad = fmt.Sprintf("the children are visited in the order %v, the node description table (WalkSchema.tla) gives %v", dseq, specOrder)
				}
				if bad == "" && strings.Join(dseq, " ") != strings.Join(aseq, " ") {
					bad = fmt.Sprintf("the children are visited in the order %v, go/ast visits them in the order %v", dseq, aseq)
				}
				if bad != "" {
					c.Fail(Finding{Sig: "hand-built-node-children-not-visited-once", Input: key, What: fmt.Sprintf("%s on a hand-built %s with the children %v: %s", how, rt.Name(), present, bad), Replay: obj{"kind": "none"}})
				}
			}
		}
	}
}

type walkFunc func(dst.Node) bool

func (f walkFunc) Visit(n dst.Node) dst.Visitor {
	if f(n) {
		return f
	}
	return nil
}

// c13Package: Walk rooted at a package. The package is decorated as a whole; its files come from
// generated code, so //line directives in front of the package clause give two of them the same
// adjusted file name. Every file of the source package is a file of the decorated package under the
// same key, and Walk visits each file's nodes exactly once (as go/ast's Walk visits the originals).
func c13Package(c *Ctx) {
	cases := map[string]map[string]string{
		"plain": {"a.go": "package p\n\nvar A = 1\n", "b.go": "package p\n\nfunc B() int { return A }\n", "c.go": "package p\n\ntype C struct{ x int }\n"},
		"same-line-directive": {"expr.go": "//line grammar.y:2\npackage p\n\nvar A = 1\n", "stmt.go": "//line grammar.y:2\npackage p\n\nfunc B() int { return A }\n",
			"plain.go": "package p\n\ntype C struct{ x int }\n"},
		"directive-names-sibling": {"a.go": "//line b.go:1\npackage p\n\nvar A = 1\n", "b.go": "package p\n\nfunc B() int { return A }\n"},
	}
	for name, srcs := range cases {
		key := "package-walk|" + name
		c.Eval(key, name != "plain")
		fset := token.NewFileSet()
		apkg := &ast.Package{Name: "p", Files: map[string]*ast.File{}}
		for fn, src := range srcs {
			af, err := parser.ParseFile(fset, fn, src, parser.ParseComments)
			if err != nil {
				c.Infra("c13Package: " + err.Error())
				return
			}
			apkg.Files[fn] = af
		}
		d := decorator.NewDecorator(fset)
		var dn dst.Node
		var err error
		if msg := guard(func() { dn, err = d.DecorateNode(apkg) }); msg != "" || err != nil {
			c.Fail(Finding{Sig: "walk-panics", Input: key, What: fmt.Sprintf("package decoration: %s %v", msg, err), Replay: obj{"kind": "none"}})
			continue
		}
		dpkg := dn.(*dst.Package)
		var missing []string
		for fn := range apkg.Files {
			if dpkg.Files[fn] == nil {
				missing = append(missing, fn)
			}
		}
		sort.Strings(missing)
		if len(missing) > 0 || len(dpkg.Files) != len(apkg.Files) {
			c.Fail(Finding{Sig: "package-files-lost", Input: key, What: fmt.Sprintf("the source package has %d files, the decorated package %d; not under their key: %v", len(apkg.Files), len(dpkg.Files), missing), Replay: obj{"kind": "none"}})
			continue
		}
		// every non-comment node of the originals has a counterpart that Walk visits exactly once
		visits := map[dst.Node]int{}
		dst.Inspect(dpkg, func(n dst.Node) bool {
			if n != nil {
				visits[n]++
			}
			return true
		})
		bad := ""
		nAst := 0
		ast.Inspect(apkg, func(n ast.Node) bool {
			switch n.(type) {
			case nil, *ast.Comment, *ast.CommentGroup:
				return false
			}
			nAst++
			if dn := d.Dst.Nodes[n]; dn == nil {
				if bad == "" {
					bad = fmt.Sprintf("%T has no dst counterpart", n)
				}
			} else if visits[dn] != 1 && bad == "" {
				bad = fmt.Sprintf("the counterpart of a %T is visited %d times", n, visits[dn])
			}
			return true
		})
		if bad == "" && nAst != len(visits) {
			bad = fmt.Sprintf("go/ast visits %d nodes, dst.Inspect %d", nAst, len(visits))
		}
		if bad != "" {
			c.Fail(Finding{Sig: "package-walk-differs", Input: key, What: bad, Replay: obj{"kind": "none"}})
		}
	}
}
