package main

import (
	"bytes"
	"fmt"
	"go/ast"
	"sort"
	"strings"

	"github.com/dave/dst"
	"github.com/dave/dst/decorator"
	"github.com/dave/dst/decorator/resolver/goast"
	"github.com/dave/dst/decorator/resolver/gotypes"
	"github.com/dave/dst/decorator/resolver/simple"
)

// c10Split: a decorated file divided among several new files of the same package. The new files are
// made by hand - &dst.File{Name: ..., Decls: old.Decls[i:j]} - without the import block, so each of
// them gets its imports from the import manager, and their declaration lists are windows of ONE
// backing array, as slicing gives them. Each file is restored on its own, in either order; the outputs
// together are the package: they type-check, every declaration is there once, and every identifier
// of every declaration denotes what it denoted in the original file.
func c10Split(c *Ctx) {
	cs := c10Case{SrcState: map[string]string{"A/y": "", "a/x": "z2", "b.io/x": ""}, DstState: map[string]string{}}
	srcText := c10Source(cs)
	names := map[string]string{"app/src": "src"}
	for p, n := range impPkg {
		names[p] = n
	}
	declName := func(d ast.Decl) string {
		switch x := d.(type) {
		case *ast.FuncDecl:
			return x.Name.Name
		case *ast.GenDecl:
			switch s := x.Specs[0].(type) {
			case *ast.ValueSpec:
				return s.Names[0].Name
			case *ast.TypeSpec:
				return s.Name.Name
			}
		}
		return ""
	}
	norm := func(fs []identFact) string {
		var s []string
		for _, f := range fs {
			s = append(s, f.Pkg+"."+f.Obj)
		}
		sort.Strings(s)
		return strings.Join(s, " ")
	}
	nDecls := 10 // LocalHelper + Moved0..Moved8
	for cut1 := 1; cut1 < nDecls; cut1++ {
		for cut2 := cut1; cut2 <= nDecls; cut2 += 3 {
			for _, order := range []string{"forward", "backward"} {
				key := fmt.Sprintf("split|cuts %d,%d|%s", cut1, cut2, order)
				c.Eval(key, true)
				u := newUniverse(append(c10Libs(), &memPkg{Import: "app/src", Path: "app/src", Files: map[string]string{"s.go": srcText}})...)
				_, info, afs, err := u.Check("app/src")
				if err != nil {
					c.Infra("c10Split: the source does not type-check: " + err.Error())
					return
				}
				before := map[string]string{}
				for _, d := range afs[0].Decls {
					if n := declName(d); n != "" {
						before[n] = norm(declFacts(d, info))
					}
				}
				sf, err := decorator.NewDecoratorWithImports(u.fset, "app/src", gotypes.New(info.Uses)).DecorateFile(afs[0])
				if err != nil || len(sf.Decls) != nDecls+1 {
					c.Infra(fmt.Sprintf("c10Split: decoration: %v, %d declarations", err, len(sf.Decls)))
					return
				}
				all := sf.Decls[1:] // without the import block
				bounds := [][2]int{{0, cut1}, {cut1, cut2}, {cut2, nDecls}}
				var parts []*dst.File
				for _, b := range bounds {
					if b[0] < b[1] {
						parts = append(parts, &dst.File{Name: dst.NewIdent("src"), Decls: all[b[0]:b[1]]})
					}
				}
				idx := make([]int, len(parts))
				for i := range idx {
					idx[i] = i
					if order == "backward" {
						idx[i] = len(parts) - 1 - i
					}
				}
				outs := map[string]string{}
				failed := false
				for _, i := range idx {
					var buf bytes.Buffer
					var rerr error
					if msg := guard(func() {
						rerr = decorator.NewRestorerWithImports("app/src", simple.New(names)).Fprint(&buf, parts[i])
					}); msg != "" || rerr != nil {
						c.Fail(Finding{Sig: "move-restore-fails", Input: key, What: fmt.Sprintf("part %d of a divided file: %s %v", i+1, msg, rerr), Replay: obj{"kind": "none"}})
						failed = true
						break
					}
					outs[fmt.Sprintf("p%d.go", i)] = buf.String()
				}
				if failed {
					continue
				}
				show := func() string {
					var ks []string
					for k := range outs {
						ks = append(ks, k)
					}
					sort.Strings(ks)
					var sb strings.Builder
					for _, k := range ks {
						sb.WriteString("== " + k + "\n" + outs[k])
					}
					return sb.String()
				}
				ju := newUniverse(append(c10Libs(), &memPkg{Import: "app/src#", Path: "app/src", Files: outs})...)
				_, jinfo, jafs, err := ju.Check("app/src#")
				if err != nil {
					c.Fail(Finding{Sig: "moved-code-does-not-type-check", Input: key, What: truncate("a file divided among hand-made files of the same package ("+order+"): "+err.Error()+"\n"+show(), 1800), Replay: obj{"kind": "none"}})
					continue
				}
				after := map[string]string{}
				count := map[string]int{}
				for _, af := range jafs {
					for _, d := range af.Decls {
						if n := declName(d); n != "" {
							after[n] = norm(declFacts(d, jinfo))
							count[n]++
						}
					}
				}
				for n, b := range before {
					if count[n] != 1 {
						c.Fail(Finding{Sig: "reference-changed", Input: key, What: truncate(fmt.Sprintf("declaration %s is in the divided package %d times\n%s", n, count[n], show()), 1800), Replay: obj{"kind": "none"}})
						break
					}
					if after[n] != b {
						c.Fail(Finding{Sig: "reference-changed", Input: key, What: truncate(fmt.Sprintf("identifiers of %s denoted {%s}, now {%s}\n%s", n, b, after[n], show()), 1800), Replay: obj{"kind": "none"}})
						break
					}
				}
			}
		}
	}
}

// c10PackageLine: code moved out of a package that was decorated as a whole (DecorateNode on an
// *ast.Package, what Decorator.ParseDir does) with the syntax-based resolver. Two files bind the same
// import name to different packages; the function that moves stands behind a //line directive that
// names the sibling file (generated code: the positions adjusted by the directive lie in the other
// file). In the target the moved code refers to what it referred to.
func c10PackageLine(c *Ctx) {
	names := map[string]string{"app/src": "src", "app/dst": "dst"}
	for p, n := range impPkg {
		names[p] = n
	}
	for _, dir := range []string{"", "//line t.go:7\n", "/*line t.go:7:1*/ ", "//line other.y:3\n"} {
		key := fmt.Sprintf("package-line|%q", dir)
		c.Eval(key, dir != "")
		sGo := "package src\n\nimport \"a/x\"\n\n" + dir + "func Moved() int { return x.F2(x.V2) }\n"
		tGo := "package src\n\nimport \"b.io/x\"\n\nfunc Other() int { return x.F3(x.V3) }\n"
		u := newUniverse(append(c10Libs(), &memPkg{Import: "app/src", Path: "app/src", Files: map[string]string{"s.go": sGo, "t.go": tGo}})...)
		_, info, afs, err := u.Check("app/src")
		if err != nil {
			c.Infra("c10PackageLine: the source does not type-check: " + err.Error())
			return
		}
		norm := func(fs []identFact) string {
			var s []string
			for _, f := range fs {
				s = append(s, f.Pkg+"."+f.Obj)
			}
			sort.Strings(s)
			return strings.Join(s, " ")
		}
		before := norm(declFacts(afs[0].Decls[1], info))
		pkg := &ast.Package{Name: "src", Files: map[string]*ast.File{"app/src/s.go": afs[0], "app/src/t.go": afs[1]}}
		d := decorator.NewDecoratorWithImports(u.fset, "app/src", goast.WithResolver(simple.New(names)))
		var dn dst.Node
		if msg := guard(func() { dn, err = d.DecorateNode(pkg) }); msg != "" || err != nil {
			c.Fail(Finding{Sig: "move-decorate-fails", Input: key, What: fmt.Sprintf("package decoration: %s %v", msg, err), Replay: obj{"kind": "none"}})
			continue
		}
		sf := dn.(*dst.Package).Files["app/src/s.go"]
		if sf == nil || len(sf.Decls) != 2 {
			c.Infra("c10PackageLine: unexpected decorated package")
			return
		}
		moved := sf.Decls[1]
		sf.Decls = sf.Decls[:1]
		tf := &dst.File{Name: dst.NewIdent("dst"), Decls: []dst.Decl{moved}}
		var buf bytes.Buffer
		var rerr error
		if msg := guard(func() { rerr = decorator.NewRestorerWithImports("app/dst", simple.New(names)).Fprint(&buf, tf) }); msg != "" || rerr != nil {
			c.Fail(Finding{Sig: "move-restore-fails", Input: key, What: fmt.Sprintf("%s %v", msg, rerr), Replay: obj{"kind": "none"}})
			continue
		}
		ju := newUniverse(append(c10Libs(), &memPkg{Import: "app/dst", Path: "app/dst", Files: map[string]string{"t.go": buf.String()}})...)
		_, jinfo, jafs, err := ju.Check("app/dst")
		if err != nil {
			c.Fail(Finding{Sig: "moved-code-does-not-type-check", Input: key, What: err.Error() + "\n" + buf.String(), Replay: obj{"kind": "none"}})
			continue
		}
		after := ""
		for _, dcl := range jafs[0].Decls {
			if fd, ok := dcl.(*ast.FuncDecl); ok && fd.Name.Name == "Moved" {
				after = norm(declFacts(fd, jinfo))
			}
		}
		if after != before {
			c.Fail(Finding{Sig: "reference-changed", Input: key, What: fmt.Sprintf("identifiers of the moved code denoted {%s}, now {%s}\n%s", before, after, buf.String()), Replay: obj{"kind": "none"}})
		}
	}
}
