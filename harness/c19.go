package main

import (
	"bytes"
	"encoding/json"
	"fmt"
	"github.com/dave/dst/decorator/resolver/goast"
	"github.com/dave/dst/decorator/resolver/guess"
	"go/parser"
	"go/token"
	"reflect"
	"strings"
	"time"
	"unsafe"

	"github.com/dave/dst"
	"github.com/dave/dst/decorator"
)

func init() { register("C19", "model_checking", checkC19) }

type c19Step struct {
	Op        string     `json:"op"`
	Arg       int        `json:"arg"`
	Len       int        `json:"len"`
	Spare     int        `json:"spare"`
	Idx       int        `json:"idx"`
	Extra     int        `json:"extra"`
	Expect    []string   `json:"expect"`
	ArgsAfter [][]string `json:"argsAfter"`
}

func c19Cfg(maxOps, maxArgs int, variant string, emit bool) string {
	s := fmt.Sprintf(`CONSTANTS
  MaxOps = %d
  MaxArgs = %d
  Lens = {0, 1, 2}
  Spares = {0, 2}
  Extras = %s
  Variant = "%s"
  EmitHist = %s
  EmitFilter = "all"
INIT Init
NEXT Next
INVARIANTS TypeOK ContentIsModel ArgsIntact NoRetention AllStable Emit
CHECK_DEADLOCK FALSE
`, maxOps, maxArgs, map[bool]string{true: "{0}", false: "{0, 1}"}[emit], variant, tlaBool(emit))
	if !emit {
		s += "VIEW view\n"
	}
	return s
}

func checkC19(c *Ctx) {
	c.Assume("Go slice semantics (append in place when capacity suffices) as modelled in Decorations.tla; growth policy left open")
	c.Assume("go/printer and go/parser are trusted for the render clause")
	mcOps, genOps := 5, 4
	if !c.Quick() {
		mcOps, genOps = 7, 5
	}
	// (M) exhaustive model checking of the design, history hidden by VIEW
	mc, err := RunTLC(TLCRun{Module: "Decorations", Cfg: c19Cfg(mcOps, 2, "code", false), Workers: 8, Timeout: 20 * time.Minute})
	if err != nil || !mc.OK() {
		c.Infra("TLC model check of Decorations failed: " + errText(mc, err))
		return
	}
	c.TLC(mc)
	c.Set("mc_bounds", fmt.Sprintf("MaxOps=%d MaxArgs=2 Lens={0,1,2} Spares={0,2} growth extra∈{0,1}", mcOps))
	c.Set("mc_invariants", []string{"TypeOK", "ContentIsModel", "ArgsIntact", "NoRetention", "AllStable"})
	c.Set("exhaustive", true)

	// the invariants are not vacuous: each wrong transcription is caught by TLC
	for _, v := range []string{"prepend-nocopy", "replace-nocopy", "append-arg-first", "replace-inplace", "clear-keep", "prepend-inplace"} {
		ops := 4
		if v == "replace-inplace" {
			ops = 5 // NewArg, Append, All, CallerMutate, Replace
		}
		if v == "clear-keep" {
			ops = 6 // NewArg, Append, All, Clear, a second caller slice or a caller mutation, Append
		}
		if v == "prepend-inplace" {
			ops = 5 // NewArg, Append (with growth slack), CallerMutate, All, Prepend
		}
		r, err := RunTLC(TLCRun{Module: "Decorations", Cfg: c19Cfg(ops, 2, v, false), Workers: 4, Timeout: 5 * time.Minute})
		if err != nil || r.Violated == "" {
			c.Infra("TLC did not reject variant " + v + ": " + errText(r, err))
			return
		}
	}
	c.Set("spec_variants_rejected_by_tlc", 6)

	// (R) every behaviour of length genOps, emitted by TLC, replayed on the real type
	gen, err := RunTLC(TLCRun{Module: "Decorations", Cfg: c19Cfg(genOps, 2, "code", true), Workers: 8, Timeout: 20 * time.Minute})
	if err != nil || !gen.OK() {
		c.Infra("TLC generation run failed: " + errText(gen, err))
		return
	}
	c.TLC(gen)
	behs := gen.Payloads("BEH ")
	if len(behs) == 0 {
		c.Infra("TLC emitted no behaviours")
		return
	}
	// one action more for the behaviours in which the caller holds a result of All() across a Replace
	// (NewArg, Append, All, a second caller slice or a caller mutation, Replace: five actions)
	if genOps < 5 {
		snapCfg := strings.Replace(c19Cfg(5, 2, "code", true), `EmitFilter = "all"`, `EmitFilter = "snap"`, 1)
		sg, err := RunTLC(TLCRun{Module: "Decorations", Cfg: snapCfg, Workers: 12, Timeout: 20 * time.Minute})
		if err != nil || !sg.OK() {
			c.Infra("TLC generation run (held All() results) failed: " + errText(sg, err))
			return
		}
		c.TLC(sg)
		behs = append(behs, sg.Payloads("BEH ")...)
	}
	// ... and six actions for those in which it holds one across a Clear that is followed by an Append
	// (NewArg, Append, All, Clear, a second caller slice or a caller mutation, Append)
	{
		clearCfg := strings.Replace(c19Cfg(6, 2, "code", true), `EmitFilter = "all"`, `EmitFilter = "clear"`, 1)
		cg, err := RunTLC(TLCRun{Module: "Decorations", Cfg: clearCfg, Workers: 12, Timeout: 20 * time.Minute})
		if err != nil || !cg.OK() {
			c.Infra("TLC generation run (All() results held across Clear) failed: " + errText(cg, err))
			return
		}
		c.TLC(cg)
		c.Set("behaviours_held_across_clear", len(cg.Payloads("BEH ")))
		behs = append(behs, cg.Payloads("BEH ")...)
	}
	// ... and those in which it holds one across a Prepend that follows two Appends (Go's append leaves
	// spare capacity after the second one: NewArg, Append, Append, All, Prepend and one more action)
	{
		preCfg := strings.Replace(c19Cfg(6, 2, "code", true), `EmitFilter = "all"`, `EmitFilter = "prepend"`, 1)
		pg, err := RunTLC(TLCRun{Module: "Decorations", Cfg: preCfg, Workers: 12, Timeout: 20 * time.Minute})
		if err != nil || !pg.OK() {
			c.Infra("TLC generation run (All() results held across Prepend) failed: " + errText(pg, err))
			return
		}
		c.TLC(pg)
		c.Set("behaviours_held_across_prepend", len(pg.Payloads("BEH ")))
		behs = append(behs, pg.Payloads("BEH ")...)
	}
	c.Set("behaviours_emitted", len(behs))
	c.Set("replay_bounds", fmt.Sprintf("all behaviours of exactly %d actions", genOps))
	finals := map[string][]string{}
	for _, b := range behs {
		var steps []c19Step
		if err := json.Unmarshal([]byte(b), &steps); err != nil {
			c.Infra("bad behaviour JSON: " + err.Error())
			return
		}
		nontrivial := false
		for _, s := range steps {
			if s.Op == "Prepend" || s.Op == "Replace" || s.Op == "Append" {
				if s.Arg != 0 {
					nontrivial = true
				}
			}
		}
		c.Eval(b, nontrivial)
		c.Traces(1)
		if msg, final := c19Replay(steps); msg != "" {
			c.Fail(Finding{Sig: "decorations-diverge", Input: opsKey(steps), What: msg, Replay: map[string]interface{}{"kind": "c19", "steps": steps}})
		} else {
			finals[strings.Join(final, "\x00")] = final
		}
		c.Sample(compactOps(steps))
	}
	c.Set("rule", "behaviour = sequence of NewArg/Append/Prepend/Replace/Clear/CallerMutate/CallerGrow emitted by TLC; non-trivial = at least one list operation receives a non-empty caller slice; distinct by full behaviour")
	// render clause: what All() returns is what is rendered
	n := 0
	for _, f := range finals {
		if msg := c19Render(f); msg != "" {
			c.Fail(Finding{Sig: "all-not-rendered", Input: strings.Join(f, ","), What: msg, Replay: map[string]interface{}{"kind": "c19render", "decs": f}})
		}
		n++
	}
	c.Set("distinct_final_lists_rendered", n)
}

func errText(r *TLCResult, err error) string {
	if err != nil {
		return err.Error()
	}
	if r == nil {
		return "no result"
	}
	if r.TimedOut {
		return "timeout"
	}
	if r.Violated != "" {
		return "violated " + r.Violated + "\n" + truncate(r.ErrorText, 1500)
	}
	return fmt.Sprintf("exit %d: %s", r.ExitCode, truncate(r.ErrorText+tail(r.Output, 800), 2500))
}

func tail(s string, n int) string {
	if len(s) <= n {
		return s
	}
	return s[len(s)-n:]
}

func opsKey(steps []c19Step) string {
	return strings.Join(compactOps(steps), ";")
}

func compactOps(steps []c19Step) []string {
	var out []string
	for _, s := range steps {
		switch s.Op {
		case "NewArg":
			out = append(out, fmt.Sprintf("NewArg#%d(len=%d,spare=%d)", s.Arg, s.Len, s.Spare))
		case "CallerMutate":
			out = append(out, fmt.Sprintf("CallerMutate(#%d[%d])", s.Arg, s.Idx-1))
		case "CallerGrow":
			out = append(out, fmt.Sprintf("CallerGrow(#%d)", s.Arg))
		case "Clear":
			out = append(out, "Clear")
		default:
			out = append(out, fmt.Sprintf("%s(#%d)", s.Op, s.Arg))
		}
	}
	return out
}

func backing(s []string) uintptr {
	if cap(s) == 0 {
		return 0
	}
	return uintptr(unsafe.Pointer(unsafe.SliceData(s)))
}

// c19Replay executes one TLC behaviour on a real dst.Decorations and compares the abstract state
// after every action. It returns a message on the first P-layer failure.
func c19Replay(steps []c19Step) (string, []string) {
	var d dst.Decorations
	var args [][]string
	fresh := 1
	val := func() string { s := fmt.Sprintf("/*v%d*/", fresh); fresh++; return s }
	get := func(i int) []string {
		if i == 0 {
			return nil
		}
		return args[i-1]
	}
	var snap, snapWas []string
	for si, s := range steps {
		switch s.Op {
		case "NewArg":
			a := make([]string, s.Len, s.Len+s.Spare)
			for k := 0; k < s.Len; k++ {
				a[k] = val()
			}
			full := a[:cap(a)]
			for k := s.Len; k < cap(a); k++ {
				full[k] = "-"
			}
			args = append(args, a)
		case "Append":
			if s.Arg == 0 {
				d.Append()
			} else {
				d.Append(get(s.Arg)...)
			}
		case "Prepend":
			if s.Arg == 0 {
				d.Prepend()
			} else {
				d.Prepend(get(s.Arg)...)
			}
		case "Replace":
			if s.Arg == 0 {
				d.Replace()
			} else {
				d.Replace(get(s.Arg)...)
			}
		case "Clear":
			d.Clear()
		case "All":
			// the caller keeps what All() returned
			snap = d.All()
			snapWas = append([]string{}, snap...)
		case "CallerMutate":
			args[s.Arg-1][s.Idx-1] = val()
		case "CallerGrow":
			a := args[s.Arg-1]
			args[s.Arg-1] = append(a, val())
			if backing(args[s.Arg-1]) != backing(a) {
				return "harness: CallerGrow reallocated", nil
			}
		default:
			return "harness: unknown op " + s.Op, nil
		}
		// P: a result of All() obtained earlier keeps showing what it showed
		if snap != nil && !sameStrings(snap, snapWas) {
			return fmt.Sprintf("step %d %s: the slice an earlier All() returned now reads %q, it read %q when it was returned", si+1, compactOps(steps[si : si+1])[0], snap, snapWas), nil
		}
		// P: content equals the plain list
		got := d.All()
		if !sameStrings(got, s.Expect) {
			return fmt.Sprintf("step %d %s: list is %q, an ordered list of strings would be %q", si+1, compactOps(steps[si : si+1])[0], got, s.Expect), nil
		}
		if !sameStrings([]string(d), got) {
			return fmt.Sprintf("step %d: All() returned %q but the list holds %q", si+1, got, []string(d)), nil
		}
		// P: caller arrays (with spare cells) only change by caller actions
		for i, a := range args {
			full := a[:cap(a)]
			if i < len(s.ArgsAfter) && !sameStrings(full, s.ArgsAfter[i]) {
				return fmt.Sprintf("step %d %s: caller slice #%d backing array is %q, the caller left it as %q", si+1, compactOps(steps[si : si+1])[0], i+1, full, s.ArgsAfter[i]), nil
			}
			// P: not retained
			if cap(a) > 0 && cap(d) > 0 && overlaps(d, a) {
				return fmt.Sprintf("step %d %s: the list shares its backing array with caller slice #%d", si+1, compactOps(steps[si : si+1])[0], i+1), nil
			}
		}
	}
	return "", append([]string{}, d.All()...)
}

func overlaps(a, b []string) bool {
	sz := unsafe.Sizeof("")
	a0, b0 := backing(a), backing(b)
	a1, b1 := a0+uintptr(cap(a))*sz, b0+uintptr(cap(b))*sz
	return a0 < b1 && b0 < a1
}

func sameStrings(a, b []string) bool {
	if len(a) != len(b) {
		return false
	}
	return len(a) == 0 || reflect.DeepEqual(a, b)
}

// c19Targets: decoration lists of different node types and points, among them the End points the
// restorer hands to go/printer through a node's Comment field (Field, ImportSpec, ValueSpec, TypeSpec).
// The source holds one other comment, so that go/printer works from the file's comment list.
const c19Src = "package p\n\nimport \"fmt\"\n\n// fixed\nvar v = fmt.Sprint()\n\ntype t struct {\n\ta int\n}\n\ntype u int\n\nfunc f(a int) {\n\tx()\n\tif a > 0 {\n\t\ty()\n\t}\n}\n\nvar c1 chan int\n\nvar c2 <-chan int\n\nvar c3 chan<- int\n\nvar m map[int]int\n\nvar s = a[1:2]\n\nvar e = [...]int{1}\n\nvar g = Pair[int, string]{}\n"

var c19Targets = []struct {
	Name string
	Get  func(f *dst.File) *dst.Decorations
}{
	{"IndexListExpr.Lbrack", func(f *dst.File) *dst.Decorations {
		return &f.Decls[11].(*dst.GenDecl).Specs[0].(*dst.ValueSpec).Values[0].(*dst.CompositeLit).Type.(*dst.IndexListExpr).Decs.Lbrack
	}},
	{"IndexListExpr.Indices", func(f *dst.File) *dst.Decorations {
		return &f.Decls[11].(*dst.GenDecl).Specs[0].(*dst.ValueSpec).Values[0].(*dst.CompositeLit).Type.(*dst.IndexListExpr).Decs.Indices
	}},
	{"ExprStmt.Start", func(f *dst.File) *dst.Decorations {
		return &f.Decls[4].(*dst.FuncDecl).Body.List[0].(*dst.ExprStmt).Decs.Start
	}},
	{"ExprStmt.End", func(f *dst.File) *dst.Decorations {
		return &f.Decls[4].(*dst.FuncDecl).Body.List[0].(*dst.ExprStmt).Decs.End
	}},
	{"IfStmt.Cond", func(f *dst.File) *dst.Decorations {
		return &f.Decls[4].(*dst.FuncDecl).Body.List[1].(*dst.IfStmt).Decs.Cond
	}},
	{"ImportSpec.End", func(f *dst.File) *dst.Decorations {
		return &f.Decls[0].(*dst.GenDecl).Specs[0].(*dst.ImportSpec).Decs.End
	}},
	{"ValueSpec.End", func(f *dst.File) *dst.Decorations {
		return &f.Decls[1].(*dst.GenDecl).Specs[0].(*dst.ValueSpec).Decs.End
	}},
	{"ValueSpec.Assign", func(f *dst.File) *dst.Decorations {
		return &f.Decls[1].(*dst.GenDecl).Specs[0].(*dst.ValueSpec).Decs.Assign
	}},
	{"Field.End", func(f *dst.File) *dst.Decorations {
		return &f.Decls[2].(*dst.GenDecl).Specs[0].(*dst.TypeSpec).Type.(*dst.StructType).Fields.List[0].Decs.End
	}},
	{"Field.Start", func(f *dst.File) *dst.Decorations {
		return &f.Decls[2].(*dst.GenDecl).Specs[0].(*dst.TypeSpec).Type.(*dst.StructType).Fields.List[0].Decs.Start
	}},
	{"TypeSpec.End", func(f *dst.File) *dst.Decorations {
		return &f.Decls[3].(*dst.GenDecl).Specs[0].(*dst.TypeSpec).Decs.End
	}},
	{"TypeSpec.Name", func(f *dst.File) *dst.Decorations {
		return &f.Decls[3].(*dst.GenDecl).Specs[0].(*dst.TypeSpec).Decs.Name
	}},
	{"FuncDecl.Params", func(f *dst.File) *dst.Decorations {
		return &f.Decls[4].(*dst.FuncDecl).Decs.Params
	}},
	{"File.Name", func(f *dst.File) *dst.Decorations { return &f.Decs.Name }},
	{"ChanType(chan).Begin", func(f *dst.File) *dst.Decorations {
		return &f.Decls[5].(*dst.GenDecl).Specs[0].(*dst.ValueSpec).Type.(*dst.ChanType).Decs.Begin
	}},
	{"ChanType(chan).Arrow", func(f *dst.File) *dst.Decorations {
		return &f.Decls[5].(*dst.GenDecl).Specs[0].(*dst.ValueSpec).Type.(*dst.ChanType).Decs.Arrow
	}},
	{"ChanType(<-chan).Arrow", func(f *dst.File) *dst.Decorations {
		return &f.Decls[6].(*dst.GenDecl).Specs[0].(*dst.ValueSpec).Type.(*dst.ChanType).Decs.Arrow
	}},
	{"ChanType(chan<-).Arrow", func(f *dst.File) *dst.Decorations {
		return &f.Decls[7].(*dst.GenDecl).Specs[0].(*dst.ValueSpec).Type.(*dst.ChanType).Decs.Arrow
	}},
	{"MapType.Key", func(f *dst.File) *dst.Decorations {
		return &f.Decls[8].(*dst.GenDecl).Specs[0].(*dst.ValueSpec).Type.(*dst.MapType).Decs.Key
	}},
	{"SliceExpr.High", func(f *dst.File) *dst.Decorations {
		return &f.Decls[9].(*dst.GenDecl).Specs[0].(*dst.ValueSpec).Values[0].(*dst.SliceExpr).Decs.High
	}},
	{"SliceExpr.Max", func(f *dst.File) *dst.Decorations {
		return &f.Decls[9].(*dst.GenDecl).Specs[0].(*dst.ValueSpec).Values[0].(*dst.SliceExpr).Decs.Max
	}},
	{"ArrayType.Len", func(f *dst.File) *dst.Decorations {
		return &f.Decls[10].(*dst.GenDecl).Specs[0].(*dst.ValueSpec).Values[0].(*dst.CompositeLit).Type.(*dst.ArrayType).Decs.Len
	}},
}

// c19Render checks that the strings All() returns are exactly what is rendered, in order, at every target.
// c19RenderAfterRaw: the list rendered on the declaration that follows a raw string literal whose lines
// end in back-slashes is laid out exactly as behind a one-line literal (back-slashes mean nothing in a
// raw string: every line break of the literal counts).
func c19RenderAfterRaw(decs []string) string {
	render := func(lit string) (string, string) {
		f, err := decorator.Parse("package p\n\nconst script = " + lit + "\n\nvar after = 1\n")
		if err != nil {
			return "", "harness: " + err.Error()
		}
		d := &f.Decls[1].(*dst.GenDecl).Decs.Start
		d.Replace(decs...)
		var buf bytes.Buffer
		if err := decorator.Fprint(&buf, f); err != nil {
			return "", "print failed: " + err.Error()
		}
		out := buf.String()
		i := strings.Index(out, "MARK`")
		if i < 0 {
			return "", "harness: literal not found in " + out
		}
		return out[i:], ""
	}
	plain, msg := render("`MARK`")
	if msg != "" {
		return msg
	}
	for _, lit := range []string{"`one \\\ntwo MARK`", "`one \\\ntwo \\\nthree \\\nMARK`", "`one\ntwo\\\n\\\nMARK`"} {
		got, msg := render(lit)
		if msg != "" {
			return msg
		}
		if got != plain {
			return fmt.Sprintf("GenDecl.Start behind the raw string %q: All() = %q is rendered as %q, behind a one-line literal as %q", lit, decs, got, plain)
		}
	}
	return ""
}

// c19RenderQualified: the list on the End point of a qualified identifier that import management has
// collapsed into one path-carrying identifier (first and last element of a literal with one element per
// line) is laid out exactly as on a plain identifier of the same length in the same place.
func c19RenderQualified(decs []string) string {
	render := func(src string, imports bool) (string, string) {
		var f *dst.File
		var err error
		if imports {
			f, err = decorator.NewDecoratorWithImports(token.NewFileSet(), "example.com/p", goast.New()).Parse(src)
		} else {
			f, err = decorator.Parse(src)
		}
		if err != nil {
			return "", "harness: " + err.Error()
		}
		elts := f.Decls[len(f.Decls)-1].(*dst.GenDecl).Specs[0].(*dst.ValueSpec).Values[0].(*dst.CompositeLit).Elts
		for _, e := range []dst.Expr{elts[0], elts[len(elts)-1]} {
			id, ok := e.(*dst.Ident)
			if !ok || (imports && id.Path != "os") {
				return "", "harness: the element is not a (collapsed) identifier"
			}
			id.Decs.End.Replace(decs...)
		}
		var buf bytes.Buffer
		var perr error
		if msg := guard(func() {
			if imports {
				perr = decorator.NewRestorerWithImports("example.com/p", guess.New()).Fprint(&buf, f)
			} else {
				perr = decorator.Fprint(&buf, f)
			}
		}); msg != "" || perr != nil {
			return "", fmt.Sprintf("rendering %q fails: %s %v", decs, msg, perr)
		}
		return buf.String(), ""
	}
	q, msg := render("package p\n\nimport \"os\"\n\nvar v = []interface{}{\n\tos.Stdout,\n\tos.Stdin,\n\tos.Stderr,\n}\n", true)
	if msg != "" {
		return "Ident.End (qualified): " + msg
	}
	pl, msg := render("package p\n\nvar v = []interface{}{\n\tos_Stdout,\n\tos_Stdin,\n\tos_Stderr,\n}\n", false)
	if msg != "" {
		return "Ident.End: " + msg
	}
	if got, want := strings.Replace(q, "import \"os\"\n\n", "", 1), strings.ReplaceAll(pl, "os_", "os."); got != want {
		return fmt.Sprintf("Ident.End of a qualified identifier: All() = %q is rendered as\n%s\non a plain identifier in the same place as\n%s", decs, got, want)
	}
	return ""
}

func c19Render(decs []string) string {
	if msg := c19RenderAfterRaw(decs); msg != "" {
		return msg
	}
	if msg := c19RenderQualified(decs); msg != "" {
		return msg
	}
	for _, t := range c19Targets {
		f, err := decorator.Parse(c19Src)
		if err != nil {
			return "harness: " + err.Error()
		}
		d := t.Get(f)
		d.Replace(decs...)
		want := d.All()
		var buf bytes.Buffer
		if err := decorator.Fprint(&buf, f); err != nil {
			return t.Name + ": print failed: " + err.Error()
		}
		fset := token.NewFileSet()
		af, err := parser.ParseFile(fset, "", buf.Bytes(), parser.ParseComments)
		if err != nil {
			return t.Name + ": printed text does not parse: " + err.Error()
		}
		var got []string
		for _, cg := range af.Comments {
			for _, cm := range cg.List {
				if cm.Text != "// fixed" {
					got = append(got, cm.Text)
				}
			}
		}
		if !sameStrings(got, want) {
			return fmt.Sprintf("%s: All() = %q but rendered comments are %q", t.Name, want, got)
		}
		// the same list with comments that span two lines, rendered by a Restorer whose file set
		// already holds a file (the second file of a package, a caller-supplied file set)
		var ml []string
		for _, x := range decs {
			if strings.HasPrefix(x, "/*") {
				x = strings.TrimSuffix(x, "*/") + "\nsecond line */"
			}
			ml = append(ml, x)
		}
		d.Replace(ml...)
		want = d.All()
		r := decorator.NewRestorer()
		r.Fset = token.NewFileSet()
		r.Fset.AddFile("other.go", -1, 1000)
		buf.Reset()
		var perr error
		if msg := guard(func() { perr = r.Fprint(&buf, f) }); msg != "" || perr != nil {
			return fmt.Sprintf("%s: rendering %q into a file set that already holds a file fails: %s %v", t.Name, want, msg, perr)
		}
		af, err = parser.ParseFile(token.NewFileSet(), "", buf.Bytes(), parser.ParseComments)
		if err != nil {
			return t.Name + ": printed text does not parse: " + err.Error()
		}
		got = nil
		norm := func(x string) string { return reCont.ReplaceAllString(x, "\n") }
		for _, cg := range af.Comments {
			for _, cm := range cg.List {
				if cm.Text != "// fixed" {
					got = append(got, norm(cm.Text))
				}
			}
		}
		var wantN []string
		for _, x := range want {
			wantN = append(wantN, norm(x))
		}
		if !sameStrings(got, wantN) {
			return fmt.Sprintf("%s: All() = %q but rendered comments (second file of a file set) are %q", t.Name, want, got)
		}
		// ... and with multi-byte text in every comment (block comments over three lines, the first ones long):
		// positions and line tables count bytes, All() holds strings
		var mb []string
		for _, x := range decs {
			switch {
			case strings.HasPrefix(x, "/*"):
				x = strings.TrimSuffix(x, "*/") + " 日本語日本語日本語日本語日本語日本語\nЛицензия ÄÖÜäöüß\nß */"
			case strings.HasPrefix(x, "//"):
				x += " ☺☺☺☺ größer"
			}
			mb = append(mb, x)
		}
		d.Replace(mb...)
		want = d.All()
		buf.Reset()
		if msg := guard(func() { perr = decorator.Fprint(&buf, f) }); msg != "" || perr != nil {
			return fmt.Sprintf("%s: rendering %q (multi-byte text) fails: %s %v", t.Name, want, msg, perr)
		}
		mbText := buf.String()
		af, err = parser.ParseFile(token.NewFileSet(), "", buf.Bytes(), parser.ParseComments)
		if err != nil {
			return t.Name + ": printed text (multi-byte comments) does not parse: " + err.Error()
		}
		got, wantN = nil, nil
		for _, cg := range af.Comments {
			for _, cm := range cg.List {
				if cm.Text != "// fixed" {
					got = append(got, norm(cm.Text))
				}
			}
		}
		for _, x := range want {
			wantN = append(wantN, norm(x))
		}
		if !sameStrings(got, wantN) {
			return fmt.Sprintf("%s: All() = %q but rendered comments are %q", t.Name, want, got)
		}
		// the same list with the multi-byte letters replaced by ASCII letters is laid out the same way
		var twin []string
		for _, x := range mb {
			twin = append(twin, asciiTwin(x))
		}
		d.Replace(twin...)
		buf.Reset()
		if msg := guard(func() { perr = decorator.Fprint(&buf, f) }); msg != "" || perr != nil {
			return fmt.Sprintf("%s: rendering %q fails: %s %v", t.Name, twin, msg, perr)
		}
		if asciiTwin(mbText) != buf.String() {
			return fmt.Sprintf("%s: All() = %q is laid out differently from the same list in ASCII letters:\n%s\nvs\n%s", t.Name, want, mbText, buf.String())
		}
		d.Replace(ml...)
		want = d.All()
		wantN = nil
		for _, x := range want {
			wantN = append(wantN, norm(x))
		}
		// ... and by a Restorer that restores the object graph too (Extras), when a name in the file has a
		// hand-made object whose declaration lives elsewhere and carries comments of its own: those belong
		// to no decoration list of this tree
		var anchor *dst.Ident
		dst.Inspect(f, func(n dst.Node) bool {
			if id, ok := n.(*dst.Ident); ok && anchor == nil && id != f.Name {
				anchor = id
			}
			return anchor == nil
		})
		if anchor != nil {
			outside := &dst.ValueSpec{Names: []*dst.Ident{dst.NewIdent(anchor.Name)}, Type: dst.NewIdent("int")}
			outside.Decs.Start.Append("// declared elsewhere")
			outside.Decs.End.Append("/* not in this file */")
			outside.Names[0].Decs.End.Append("/* nor this */")
			anchor.Obj = &dst.Object{Kind: dst.Var, Name: anchor.Name, Decl: outside}
			r = decorator.NewRestorer()
			r.Extras = true
			buf.Reset()
			if msg := guard(func() { perr = r.Fprint(&buf, f) }); msg != "" || perr != nil {
				return fmt.Sprintf("%s: rendering %q with Extras fails: %s %v", t.Name, want, msg, perr)
			}
			af, err = parser.ParseFile(token.NewFileSet(), "", buf.Bytes(), parser.ParseComments)
			if err != nil {
				return t.Name + ": text printed with Extras does not parse: " + err.Error()
			}
			got = nil
			for _, cg := range af.Comments {
				for _, cm := range cg.List {
					if cm.Text != "// fixed" {
						got = append(got, norm(cm.Text))
					}
				}
			}
			if !sameStrings(got, wantN) {
				return fmt.Sprintf("%s: All() = %q but the comments rendered with Extras (a name declared outside the file) are %q", t.Name, want, got)
			}
		}
	}
	return ""
}

func init() {
	replayers["c19"] = func(raw json.RawMessage) string {
		var r struct {
			Steps []c19Step `json:"steps"`
		}
		json.Unmarshal(raw, &r)
		m, _ := c19Replay(r.Steps)
		return m
	}
	replayers["c19render"] = func(raw json.RawMessage) string {
		var r struct {
			Decs []string `json:"decs"`
		}
		json.Unmarshal(raw, &r)
		return c19Render(r.Decs)
	}
}

// asciiTwin replaces every non-ASCII letter by an ASCII letter (one rune -> one byte).
func asciiTwin(s string) string {
	var b strings.Builder
	for _, r := range s {
		if r > 127 {
			b.WriteByte('x')
		} else {
			b.WriteRune(r)
		}
	}
	return b.String()
}
