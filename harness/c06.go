package main

import (
	"bytes"
	"encoding/json"
	"fmt"
	"go/token"
	"math/rand"
	"reflect"
	"time"

	"github.com/dave/dst"
	"github.com/dave/dst/decorator"
	"github.com/dave/dst/decorator/resolver/goast"
	"github.com/dave/dst/decorator/resolver/guess"
)

func init() { register("C06", "model_checking", checkC06) }

const cloneTraceCfg = `INIT TInit
NEXT TNext
INVARIANTS Iso Disjoint ObjDropped MutationIsolation DupDetected
POSTCONDITION Accepted
CHECK_DEADLOCK FALSE
`

// heapAddrs collects the addresses of every node and of every slice backing array reachable from n.
func heapAddrs(n dst.Node) (nodes map[uintptr]bool, arrays map[uintptr]bool, objs int) {
	nodes, arrays = map[uintptr]bool{}, map[uintptr]bool{}
	var visit func(v reflect.Value)
	seen := map[uintptr]bool{}
	visit = func(v reflect.Value) {
		switch v.Kind() {
		case reflect.Interface:
			if !v.IsNil() {
				visit(v.Elem())
			}
		case reflect.Ptr:
			if v.IsNil() {
				return
			}
			t := v.Type().String()
			if t == "*dst.Object" || t == "*dst.Scope" {
				objs++
				return
			}
			if seen[v.Pointer()] {
				return
			}
			seen[v.Pointer()] = true
			if v.Type().Implements(dstNodeType) {
				nodes[v.Pointer()] = true
			}
			visit(v.Elem())
		case reflect.Struct:
			for i := 0; i < v.NumField(); i++ {
				visit(v.Field(i))
			}
		case reflect.Slice:
			if v.Cap() > 0 {
				arrays[v.Pointer()] = true
			}
			for i := 0; i < v.Len(); i++ {
				visit(v.Index(i))
			}
		case reflect.Map:
			for _, k := range v.MapKeys() {
				visit(v.MapIndex(k))
			}
		}
	}
	visit(reflect.ValueOf(n))
	return
}

func countShared(a, b map[uintptr]bool) int {
	n := 0
	for k := range a {
		if b[k] {
			n++
		}
	}
	return n
}

// mutateAll changes every mutable piece of storage reachable from n, in place.
func mutateAll(n dst.Node) {
	seen := map[uintptr]bool{}
	var visit func(v reflect.Value)
	visit = func(v reflect.Value) {
		switch v.Kind() {
		case reflect.Interface:
			if !v.IsNil() {
				visit(v.Elem())
			}
		case reflect.Ptr:
			if v.IsNil() || seen[v.Pointer()] {
				return
			}
			t := v.Type().String()
			if t == "*dst.Object" || t == "*dst.Scope" {
				return
			}
			seen[v.Pointer()] = true
			visit(v.Elem())
		case reflect.Struct:
			for i := 0; i < v.NumField(); i++ {
				visit(v.Field(i))
			}
		case reflect.Slice:
			if v.Type() == reflect.TypeOf(dst.Decorations{}) {
				for i := 0; i < v.Len(); i++ {
					v.Index(i).SetString("/*mutated*/")
				}
				if v.CanSet() {
					v.Set(reflect.Append(v, reflect.ValueOf("/*appended*/")))
				}
				return
			}
			for i := 0; i < v.Len(); i++ {
				visit(v.Index(i))
			}
			if v.Len() >= 2 { // reorder in place: visible through any alias of the backing array
				x := reflect.ValueOf(v.Index(0).Interface())
				v.Index(0).Set(v.Index(1))
				v.Index(1).Set(x)
			}
		case reflect.String:
			if v.CanSet() {
				v.SetString(v.String() + "_m")
			}
		case reflect.Bool:
			if v.CanSet() {
				v.SetBool(!v.Bool())
			}
		case reflect.Int:
			if v.CanSet() {
				v.SetInt(v.Int() + 1)
			}
		}
	}
	visit(reflect.ValueOf(n))
}

// populate fills every decoration point and spacing of every node so that no field is at its zero value.
func populate(f *dst.File) {
	k := 0
	signature := map[dst.Node]bool{}
	dst.Inspect(f, func(n dst.Node) bool {
		if fd, ok := n.(*dst.FuncDecl); ok && fd.Type != nil {
			signature[fd.Type] = true
		}
		return true
	})
	dst.Inspect(f, func(n dst.Node) bool {
		if n == nil {
			return false
		}
		k++
		v := reflect.ValueOf(n).Elem().FieldByName("Decs")
		if !v.IsValid() {
			return true
		}
		for i := 0; i < v.NumField(); i++ {
			fv := v.Field(i)
			if fv.Type() == reflect.TypeOf(dst.Decorations{}) {
				d := make(dst.Decorations, 1, 3) // spare capacity: in-place appends would be shared
				d[0] = fmt.Sprintf("/*%s%d*/", v.Type().Field(i).Name, k)
				fv.Set(reflect.ValueOf(d))
			}
		}
		nd := n.Decorations()
		if nd != nil {
			nd.Start = append(make(dst.Decorations, 0, 3), fmt.Sprintf("/*S%d*/", k))
			nd.End = append(make(dst.Decorations, 0, 3), fmt.Sprintf("/*E%d*/", k))
			// ... and the two spaces differ from each other on every node (but for the signature of a function
			// declaration, whose spaces printing never consults)
			if !signature[n] {
				nd.Before, nd.After = dst.SpaceType(k%3), dst.SpaceType((k+1)%3)
			}
		}
		return true
	})
}

func c06Record(c *Ctx, idx int, build func() *dst.File, filled bool) []obj {
	f := build()
	if filled {
		populate(f)
	}
	var recs []obj
	orig, _ := ExportDst(f)
	var cl *dst.File
	if msg := guard(func() { cl = dst.Clone(f).(*dst.File) }); msg != "" {
		c.Fail(Finding{Sig: "clone-panic", Input: fmt.Sprintf("fragment-%d", idx), What: msg, Replay: obj{"kind": "c06", "mini": idx, "filled": filled}})
		return nil
	}
	clone, _ := ExportDst(cl)
	on, oa, _ := heapAddrs(f)
	cn, ca, cobjs := heapAddrs(cl)
	p1, m1 := printFile(f)
	p2, m2 := printFile(cl)
	printedSame := m1 == m2 && p1 == p2
	if printedSame && m1 == "" {
		// the original has been printed by now: the usual reason to clone is to print a tree a second time,
		// through a Restorer that has already restored a file (its file set is not empty any more)
		var b3 bytes.Buffer
		var e3 error
		m3 := guard(func() {
			r := decorator.NewRestorer()
			r.Fset = token.NewFileSet()
			r.Fset.AddFile("printed-before.go", -1, 2345)
			e3 = r.Fprint(&b3, dst.Clone(f).(*dst.File))
		})
		if m3 != "" || e3 != nil || b3.String() != p1 {
			printedSame = false
			c.Note(fmt.Sprintf("fragment %d: a clone printed by a restorer whose file set holds a file: %s %v", idx, m3, e3))
		}
	}
	if printedSame && m1 == "" && !filled {
		// every declaration replaced by its clone (names elsewhere still point at the originals through their
		// objects), printed by a Restorer that restores the object graph too: the clones stand for their
		// originals, nothing of the originals comes back
		f3 := build()
		for i, d := range f3.Decls {
			f3.Decls[i] = dst.Clone(d).(dst.Decl)
		}
		var b4 bytes.Buffer
		var e4 error
		m4 := guard(func() {
			r := decorator.NewRestorer()
			r.Extras = true
			e4 = r.Fprint(&b4, f3)
		})
		if m4 != "" || e4 != nil || b4.String() != p1 {
			printedSame = false
			c.Note(fmt.Sprintf("fragment %d: declarations replaced by their clones, printed with Extras: %s %v", idx, m4, e4))
		}
	}
	// mutate the clone, look at the original
	mutateAll(cl)
	origAfter, _ := ExportDst(f)
	// mutate the original, look at a second clone taken before
	f2 := build()
	if filled {
		populate(f2)
	}
	cl2 := dst.Clone(f2).(*dst.File)
	clone2, _ := ExportDst(cl2)
	mutateAll(f2)
	clone2After, _ := ExportDst(cl2)
	recs = append(recs, obj{"ev": "clone", "orig": orig, "clone": clone, "sharedNodes": countShared(on, cn), "sharedArrays": countShared(oa, ca),
		"cloneObjs": cobjs, "origAfterCloneMutated": origAfter, "clone2": clone2, "cloneAfterOrigMutated": clone2After, "printedSame": printedSame})
	return recs
}

// shareCases: a node placed at two positions must be rejected at restore time; clones must print.
func c06Share(c *Ctx, idx int, build func() *dst.File, r *rand.Rand) []obj {
	var recs []obj
	type slot struct {
		list reflect.Value
	}
	collect := func(f *dst.File) []reflect.Value {
		var lists []reflect.Value
		dst.Inspect(f, func(n dst.Node) bool {
			if n == nil {
				return false
			}
			v := reflect.ValueOf(n).Elem()
			for i := 0; i < v.NumField(); i++ {
				fv := v.Field(i)
				if fv.Kind() == reflect.Slice && fv.Type().Elem().Implements(dstNodeType) && fv.Len() >= 1 && v.Type().Field(i).Name != "Imports" && v.Type().Field(i).Name != "Unresolved" {
					lists = append(lists, fv)
				}
			}
			return true
		})
		return lists
	}
	for _, useClone := range []bool{false, true} {
		f := build()
		lists := collect(f)
		if len(lists) == 0 {
			return nil
		}
		lv := lists[r.Intn(len(lists))]
		elem := lv.Index(r.Intn(lv.Len()))
		var dup reflect.Value
		if useClone {
			dup = reflect.ValueOf(dst.Clone(elem.Interface().(dst.Node)))
		} else {
			dup = reflect.ValueOf(elem.Interface())
		}
		lv.Set(reflect.Append(lv, dup))
		outcome := "ok"
		var err error
		msg := guard(func() { _, _, err = decorator.RestoreFile(f) })
		switch {
		case msg != "":
			// "rejected at restore time with a panic": the property does not fix the panic's text
			outcome = "panic"
		case err != nil:
			outcome = "error-" + err.Error()
		}
		recs = append(recs, obj{"ev": "share", "shared": !useClone, "outcome": outcome, "fragment": idx})
	}
	return recs
}

func checkC06(c *Ctx) {
	c.Assume("reflection over struct fields enumerates every field and every decoration list of a node")
	// (M) Clone.tla on all small heaps; wrong variants rejected
	mc, err := RunTLC(TLCRun{Module: "Clone", Workers: 4, Timeout: 10 * time.Minute, Cfg: "CONSTANTS MaxNodes = 5 Variant = \"code\"\nINIT Init\nNEXT Next\nINVARIANTS Iso Disjoint ObjDropped MutationIsolation\nCHECK_DEADLOCK FALSE\n"})
	if err != nil || !mc.OK() {
		c.Infra("TLC model check of Clone failed: " + errText(mc, err))
		return
	}
	c.TLC(mc)
	for _, v := range []string{"shallow-decs", "drop-dec", "keep-obj"} {
		r, err := RunTLC(TLCRun{Module: "Clone", Workers: 2, Timeout: 5 * time.Minute, Cfg: "CONSTANTS MaxNodes = 3 Variant = \"" + v + "\"\nINIT Init\nNEXT Next\nINVARIANTS Iso Disjoint ObjDropped MutationIsolation\nCHECK_DEADLOCK FALSE\n"})
		if err != nil || r.Violated == "" {
			c.Infra("TLC did not reject Clone variant " + v + ": " + errText(r, err))
			return
		}
	}
	c.Set("spec_variants_rejected_by_tlc", 3)
	src, err := templateSrc()
	if err != nil {
		c.Infra(err.Error())
		return
	}
	minis, err := miniFiles(src)
	if err != nil {
		c.Infra(err.Error())
		return
	}
	n := len(minis)
	items := make([]traceItem, n+1)
	r0 := rand.New(rand.NewSource(c.Seed))
	seeds := make([]int64, n)
	for i := range seeds {
		seeds[i] = r0.Int63()
	}
	parallel(n, func(i int) {
		build := func() *dst.File {
			ms, _ := miniFiles(src)
			return ms[i]
		}
		out := &ndjson{}
		for _, filled := range []bool{false, true} {
			for _, rec := range c06Record(c, i, build, filled) {
				out.Add(rec)
				c.Eval(fmt.Sprintf("clone|fragment-%d|filled=%v", i, filled), true)
			}
		}
		c06Flags(c, fmt.Sprintf("fragment-%d", i), build)
		shares := 2
		if !c.Quick() {
			shares = 8
		}
		r := rand.New(rand.NewSource(seeds[i]))
		for k := 0; k < shares; k++ {
			for _, rec := range c06Share(c, i, build, r) {
				out.Add(rec)
				c.Eval(fmt.Sprintf("share|fragment-%d|%d|%v", i, k, rec["shared"]), true)
			}
		}
		for _, mode := range []string{"plain", "imports", "extras"} {
			for _, rec := range c06SharePairs(fmt.Sprintf("fragment-%d", i), build, mode, r, shares) {
				out.Add(rec)
				c.Eval(fmt.Sprintf("share-pair|fragment-%d|%v|%v|%v>%v|%v", i, mode, rec["node"], rec["from"], rec["to"], rec["shared"]), true)
			}
		}
		items[i] = traceItem{Key: fmt.Sprintf("template-fragment-%d", i), Trace: out.Bytes(), Events: out.Len(), Replay: obj{"kind": "c06", "mini": i}}
		if i%31 == 0 {
			c.Sample(obj{"fragment": i, "records": out.Len()})
		}
	})
	// whole files of the corpus: clone, print, disjointness
	files := corpus(c, map[bool]int{true: 32, false: 300}[c.Quick()])
	whole := &ndjson{}
	for _, f := range files {
		f := f
		if len(f.Src) > 30000 {
			continue
		}
		build := func() *dst.File {
			df, err := decorator.Parse(f.Src)
			if err != nil {
				return nil
			}
			return df
		}
		if build() == nil {
			continue
		}
		for _, rec := range c06Record(c, -1, build, false) {
			whole.Add(rec)
			c.Eval("clone|"+f.Path, true)
		}
		if len(f.Src) < 8000 { // ... and with every decoration point and both spaces of every node filled
			for _, rec := range c06Record(c, -1, build, true) {
				whole.Add(rec)
				c.Eval("clone|filled|"+f.Path, true)
			}
		}
	}
	// a file decorated with import resolution: identifiers that carry a package path
	qbuild := func() *dst.File {
		f, err := decorator.NewDecoratorWithImports(token.NewFileSet(), "example.com/p", goast.New()).Parse(c06Qualified)
		if err != nil {
			return nil
		}
		return f
	}
	if qbuild() == nil {
		c.Infra("the qualified-identifier source does not decorate")
		return
	}
	qn := map[bool]int{true: 150, false: 1500}[c.Quick()]
	for _, mode := range []string{"imports"} { // a tree with package paths can only be restored with import management
		for _, rec := range c06SharePairs("qualified", qbuild, mode, rand.New(rand.NewSource(c.Seed+7)), qn) {
			whole.Add(rec)
			c.Eval(fmt.Sprintf("share-pair|qualified|%v|%v|%v>%v|%v|%v", mode, rec["node"], rec["from"], rec["to"], rec["shared"], rec["qualified"]), true)
		}
	}
	items[n] = traceItem{Key: "corpus-files", Trace: whole.Bytes(), Events: whole.Len(), Replay: obj{"kind": "c06", "mini": -1}}
	var its []traceItem
	for _, it := range items {
		if it.Events > 0 {
			its = append(its, it)
		}
	}
	c.Traces(int64(len(its)))
	validateTraces(c, "CloneTrace", cloneTraceCfg, its, 60, false, func(it traceItem, res *TLCResult) {
		c.Fail(Finding{Sig: "clone-" + res.Violated, Input: it.Key, What: fmt.Sprintf("law %s of CloneTrace.tla fails on %s: %s", res.Violated, it.Key, truncate(c06Explain(it, res), 700)), Replay: it.Replay})
	})
	c06CrossFile(c)
	c.Set("rule", "case = Clone of one template fragment (as parsed, and with every decoration point filled) or corpus file: heap export before/after, address disjointness, mutation of either side, print comparison; or a node shared at two positions (list elements, and any two positions holding the same node type, with the plain and the import-managing restorer, identifiers with a package path included) vs its clone; all cases non-trivial; distinct by fragment + variant")
}

// c06Explain names the first node whose exports differ.
func c06Explain(it traceItem, res *TLCResult) string {
	lines := bytes.Split(it.Trace, []byte("\n"))
	i := int(res.Distinct) - 1
	if i < 0 || i >= len(lines) {
		return ""
	}
	var rec struct {
		Ev                    string `json:"ev"`
		Orig, Clone           ATree
		OrigAfterCloneMutated ATree `json:"origAfterCloneMutated"`
		Clone2                ATree `json:"clone2"`
		CloneAfterOrigMutated ATree `json:"cloneAfterOrigMutated"`
		SharedNodes           int   `json:"sharedNodes"`
		SharedArrays          int   `json:"sharedArrays"`
		CloneObjs             int   `json:"cloneObjs"`
		PrintedSame           bool  `json:"printedSame"`
		Outcome               string
		Shared                bool
		Imports               bool
		Node, From, To        string
	}
	if json.Unmarshal(lines[i], &rec) != nil {
		return ""
	}
	if rec.Ev == "share" {
		return fmt.Sprintf("shared=%v outcome=%s node=%s from=%s to=%s imports=%v", rec.Shared, rec.Outcome, rec.Node, rec.From, rec.To, rec.Imports)
	}
	diff := func(a, b ATree, what string) string {
		for k := range a.Nodes {
			if k < len(b.Nodes) && !reflect.DeepEqual(a.Nodes[k], b.Nodes[k]) {
				x, _ := json.Marshal(a.Nodes[k])
				y, _ := json.Marshal(b.Nodes[k])
				return fmt.Sprintf("%s: node %d %s vs %s", what, k+1, x, y)
			}
		}
		return ""
	}
	if s := diff(rec.Orig, rec.Clone, "original vs clone"); s != "" {
		return s
	}
	if s := diff(rec.Orig, rec.OrigAfterCloneMutated, "original changed by mutating the clone"); s != "" {
		return s
	}
	if s := diff(rec.Clone2, rec.CloneAfterOrigMutated, "clone changed by mutating the original"); s != "" {
		return s
	}
	return fmt.Sprintf("sharedNodes=%d sharedArrays=%d cloneObjs=%d printedSame=%v", rec.SharedNodes, rec.SharedArrays, rec.CloneObjs, rec.PrintedSame)
}

// ---- sharing at arbitrary positions, with and without import management ----

// nodePos is one position of a tree that holds a node: field fi of holder (element li of the list, or -1).
type nodePos struct {
	holder reflect.Value // the struct value (addressable)
	fi, li int
}

func (p nodePos) get() reflect.Value {
	f := p.holder.Field(p.fi)
	if p.li >= 0 {
		return f.Index(p.li)
	}
	return f
}

// positionsOf lists every node position below n by reflection over struct fields (File.Imports and
// File.Unresolved, which repeat nodes of the tree by design, and Object/Scope links are skipped),
// together with the set of nodes in the subtree.
func positionsOf(n dst.Node, out *[]nodePos, seen map[dst.Node]bool) {
	if n == nil || reflect.ValueOf(n).IsNil() || seen[n] {
		return
	}
	seen[n] = true
	v := reflect.ValueOf(n).Elem()
	for i := 0; i < v.NumField(); i++ {
		name := v.Type().Field(i).Name
		if name == "Imports" || name == "Unresolved" || name == "Obj" || name == "Scope" || name == "Decs" {
			continue
		}
		fv := v.Field(i)
		switch {
		case fv.Kind() == reflect.Slice && fv.Type().Elem().Implements(dstNodeType):
			for k := 0; k < fv.Len(); k++ {
				if e := fv.Index(k); !e.IsNil() {
					*out = append(*out, nodePos{v, i, k})
					positionsOf(e.Interface().(dst.Node), out, seen)
				}
			}
		case fv.Type().Implements(dstNodeType) && (fv.Kind() == reflect.Ptr || fv.Kind() == reflect.Interface):
			if !fv.IsNil() {
				*out = append(*out, nodePos{v, i, -1})
				positionsOf(fv.Interface().(dst.Node), out, seen)
			}
		}
	}
}

const c06Qualified = `package p

import (
	"fmt"
	"go/token"
	"os"
	str "strings"
)

type T struct {
	W fmt.Stringer
	F *os.File
}

func f(b str.Builder) (fmt.Stringer, error) {
	fmt.Println("a", os.Args)
	fmt.Println("b", str.ToUpper("x"))
	var x fmt.Stringer = T{}.W
	return x, os.ErrNotExist
}
`

// c06SharePairs puts one node at a second position that holds a node of the same concrete type
// (outside its own subtree) -- or a clone of it -- and restores the file, with the plain restorer
// or with import management.
func c06SharePairs(key string, build func() *dst.File, mode string, r *rand.Rand, n int) []obj {
	imports := mode == "imports"
	var recs []obj
	restore := func(f *dst.File) (string, error) {
		var err error
		msg := guard(func() {
			if imports {
				_, err = decorator.NewRestorerWithImports("example.com/p", guess.New()).RestoreFile(f)
			} else if mode == "extras" {
				// objects and scopes are restored too: a declaration is then reached through the tree and
				// through Object.Decl, which is no excuse for a node that occurs twice in the tree
				xr := decorator.NewRestorer()
				xr.Extras = true
				_, err = xr.RestoreFile(f)
			} else {
				_, _, err = decorator.RestoreFile(f)
			}
		})
		return msg, err
	}
	for k := 0; k < n; k++ {
		a, b := r.Int63(), r.Int63()
		for _, useClone := range []bool{false, true} {
			f := build()
			if f == nil {
				return recs
			}
			var ps []nodePos
			positionsOf(f, &ps, map[dst.Node]bool{})
			if len(ps) < 2 {
				return recs
			}
			src := ps[int(a%int64(len(ps)))]
			sn := src.get().Interface().(dst.Node)
			if _, isFile := sn.(*dst.File); isFile {
				continue
			}
			// with import management the import declarations are rebuilt from the identifiers in use:
			// a repeated import spec is dropped, not printed twice
			if _, isImp := sn.(*dst.ImportSpec); imports && (isImp || src.holder.Type().Name() == "ImportSpec") {
				continue
			}
			var sub []nodePos
			inSub := map[dst.Node]bool{}
			positionsOf(sn, &sub, inSub)
			var cands []nodePos
			for _, p := range ps {
				cur := p.get().Interface().(dst.Node)
				holder := p.holder.Addr().Interface().(dst.Node)
				if imports && p.holder.Type().Name() == "ImportSpec" {
					continue
				}
				if cur == sn || inSub[holder] || inSub[cur] || reflect.TypeOf(cur) != reflect.TypeOf(sn) {
					continue
				}
				// an identifier with a package path is only legal where a reference can stand
				if si, ok := sn.(*dst.Ident); ok && si.Path != "" && cur.(*dst.Ident).Path == "" {
					continue
				}
				// replacing a node that contains the source would remove the source's first occurrence
				var cs []nodePos
				under := map[dst.Node]bool{}
				positionsOf(cur, &cs, under)
				if under[sn] {
					continue
				}
				cands = append(cands, p)
			}
			if len(cands) == 0 {
				break
			}
			tgt := cands[int(b%int64(len(cands)))]
			var put dst.Node = sn
			if useClone {
				put = dst.Clone(sn)
			}
			tgt.get().Set(reflect.ValueOf(put))
			outcome := "ok"
			msg, err := restore(f)
			switch {
			case msg != "":
				outcome = "panic"
			case err != nil:
				outcome = "error-" + err.Error()
			}
			id, _ := sn.(*dst.Ident)
			recs = append(recs, obj{"ev": "share", "shared": !useClone, "outcome": outcome, "fragment": key, "imports": imports, "mode": mode,
				"node": fmt.Sprintf("%T", sn), "qualified": id != nil && id.Path != "",
				"from": fmt.Sprintf("%s.%s", src.holder.Type().Name(), src.holder.Type().Field(src.fi).Name),
				"to":   fmt.Sprintf("%s.%s", tgt.holder.Type().Name(), tgt.holder.Type().Field(tgt.fi).Name)})
		}
	}
	return recs
}

// ---- every scalar field, whatever its value ----

// setFlags sets every boolean field of every node below n to true (by reflection).
func setFlags(n dst.Node, seen map[dst.Node]bool) int {
	if n == nil || reflect.ValueOf(n).IsNil() || seen[n] {
		return 0
	}
	seen[n] = true
	k := 0
	v := reflect.ValueOf(n).Elem()
	for i := 0; i < v.NumField(); i++ {
		fv := v.Field(i)
		name := v.Type().Field(i).Name
		switch {
		case name == "Decs" || name == "Obj" || name == "Scope" || name == "Imports" || name == "Unresolved":
		case fv.Kind() == reflect.Bool:
			if !fv.Bool() {
				fv.SetBool(true)
				k++
			}
		case fv.Kind() == reflect.Slice && fv.Type().Elem().Implements(dstNodeType):
			for j := 0; j < fv.Len(); j++ {
				if !fv.Index(j).IsNil() {
					k += setFlags(fv.Index(j).Interface().(dst.Node), seen)
				}
			}
		case fv.Type().Implements(dstNodeType) && (fv.Kind() == reflect.Ptr || fv.Kind() == reflect.Interface):
			if !fv.IsNil() {
				k += setFlags(fv.Interface().(dst.Node), seen)
			}
		}
	}
	return k
}

// scalarDiff walks two trees in parallel and names the first non-node field (flag, token, string,
// number) whose values differ, or the first place where the shapes differ.
func scalarDiff(a, b dst.Node, path string) string {
	an, bn := a == nil || reflect.ValueOf(a).IsNil(), b == nil || reflect.ValueOf(b).IsNil()
	if an || bn {
		if an != bn {
			return path + ": one side is nil"
		}
		return ""
	}
	if reflect.TypeOf(a) != reflect.TypeOf(b) {
		return fmt.Sprintf("%s: %T vs %T", path, a, b)
	}
	va, vb := reflect.ValueOf(a).Elem(), reflect.ValueOf(b).Elem()
	for i := 0; i < va.NumField(); i++ {
		name := va.Type().Field(i).Name
		fa, fb := va.Field(i), vb.Field(i)
		p := fmt.Sprintf("%s.%s.%s", path, va.Type().Name(), name)
		switch {
		case name == "Decs" || name == "Obj" || name == "Scope" || name == "Imports" || name == "Unresolved":
		case fa.Kind() == reflect.Slice && fa.Type().Elem().Implements(dstNodeType):
			if fa.Len() != fb.Len() {
				return fmt.Sprintf("%s: %d vs %d elements", p, fa.Len(), fb.Len())
			}
			for j := 0; j < fa.Len(); j++ {
				var x, y dst.Node
				if !fa.Index(j).IsNil() {
					x = fa.Index(j).Interface().(dst.Node)
				}
				if !fb.Index(j).IsNil() {
					y = fb.Index(j).Interface().(dst.Node)
				}
				if d := scalarDiff(x, y, fmt.Sprintf("%s[%d]", p, j)); d != "" {
					return d
				}
			}
		case fa.Type().Implements(dstNodeType) && (fa.Kind() == reflect.Ptr || fa.Kind() == reflect.Interface):
			var x, y dst.Node
			if !fa.IsNil() {
				x = fa.Interface().(dst.Node)
			}
			if !fb.IsNil() {
				y = fb.Interface().(dst.Node)
			}
			if d := scalarDiff(x, y, p); d != "" {
				return d
			}
		default:
			if !reflect.DeepEqual(fa.Interface(), fb.Interface()) {
				return fmt.Sprintf("%s: original %v, clone %v", p, fa.Interface(), fb.Interface())
			}
		}
	}
	return ""
}

// c06Flags: Clone carries every scalar field of every node type -- as parsed, and with every boolean
// field set (flags the parser only sets for unusual or damaged input, e.g. BlockStmt.RbraceHasNoPos).
func c06Flags(c *Ctx, key string, build func() *dst.File) {
	for _, flip := range []bool{false, true} {
		f := build()
		if f == nil {
			return
		}
		n := 0
		if flip {
			n = setFlags(f, map[dst.Node]bool{})
		}
		c.Eval(fmt.Sprintf("clone-scalars|%s|all-flags-set=%v", key, flip), true)
		var cl dst.Node
		if msg := guard(func() { cl = dst.Clone(f) }); msg != "" {
			c.Fail(Finding{Sig: "clone-panics", Input: key, What: msg, Replay: obj{"kind": "none"}})
			return
		}
		if d := scalarDiff(f, cl, ""); d != "" {
			c.Fail(Finding{Sig: "clone-drops-field", Input: key + "|" + d, What: fmt.Sprintf("%s (%d flags set by the harness): %s", key, n, d), Replay: obj{"kind": "none"}})
		}
	}
}

// c06CrossFile: the files of a package are restored by one Restorer (as Package.Save does). A node that
// occurs in two of them is one node at two places of the package: the second file is rejected with a
// panic; with a clone both files print.
func c06CrossFile(c *Ctx) {
	srcA := "package p\n\n// Helper is shared.\nfunc Helper() int { return 1 }\n\nvar A = Helper()\n"
	srcB := "package p\n\nvar B = 2\n"
	for _, useClone := range []bool{false, true} {
		for _, deep := range []bool{false, true} {
			fa, err1 := decorator.Parse(srcA)
			fb, err2 := decorator.Parse(srcB)
			if err1 != nil || err2 != nil {
				c.Infra("cross-file sources do not parse")
				return
			}
			key := fmt.Sprintf("cross-file|clone=%v|deep=%v", useClone, deep)
			c.Eval(key, true)
			if deep {
				// a statement of a function body of the first file inside a new function of the second
				shared := fa.Decls[0].(*dst.FuncDecl).Body.List[0]
				var st dst.Stmt = shared
				if useClone {
					st = dst.Clone(shared).(dst.Stmt)
				}
				fb.Decls = append(fb.Decls, &dst.FuncDecl{Name: dst.NewIdent("Other"), Type: &dst.FuncType{Params: &dst.FieldList{}, Results: &dst.FieldList{List: []*dst.Field{{Type: dst.NewIdent("int")}}}}, Body: &dst.BlockStmt{List: []dst.Stmt{st}}})
			} else {
				var d dst.Decl = fa.Decls[0]
				if useClone {
					d = dst.Clone(fa.Decls[0]).(dst.Decl)
					d.(*dst.FuncDecl).Name.Name = "Helper2"
				}
				fb.Decls = append(fb.Decls, d)
			}
			r := decorator.NewRestorer()
			var bufA, bufB bytes.Buffer
			if msg := guard(func() { r.Fprint(&bufA, fa) }); msg != "" {
				c.Fail(Finding{Sig: "cross-file-first-restore-fails", Input: key, What: msg, Replay: obj{"kind": "none"}})
				continue
			}
			var perr error
			msg := guard(func() { perr = r.Fprint(&bufB, fb) })
			switch {
			case useClone && (msg != "" || perr != nil):
				c.Fail(Finding{Sig: "cross-file-clone-rejected", Input: key, What: fmt.Sprintf("a clone placed in a second file of the package is not printed: %s %v", msg, perr), Replay: obj{"kind": "none"}})
			case !useClone && msg == "":
				c.Fail(Finding{Sig: "cross-file-duplicate-printed", Input: key, What: "a node of the first file placed in a second file of the package (same Restorer) is printed instead of being rejected:\n" + bufB.String(), Replay: obj{"kind": "none"}})
			}
		}
	}
}
