package main

import (
	"bytes"
	"encoding/json"
	"fmt"
	"go/ast"
	"go/types"
	"math/rand"
	"sort"
	"strconv"
	"strings"

	"github.com/dave/dst"
	"github.com/dave/dst/decorator"
	"github.com/dave/dst/decorator/resolver/goast"
	"github.com/dave/dst/decorator/resolver/gotypes"
	"github.com/dave/dst/decorator/resolver/simple"
)

func init() { register("C10", "model_checking", checkC10) }

// libraries over the same paths as Imports.tla's universe: two packages named x, one named y
func c10Libs() []*memPkg {
	mk := func(path, name, k string) *memPkg {
		return &memPkg{Import: path, Path: path, Files: map[string]string{"l.go": fmt.Sprintf(`package %s

type T%s struct{ F int }

func (t T%s) M() int { return t.F }

func F%s(i int) int { return i }

var V%s = %s

const C%s = %s

type I%s interface{ M() int }
`, name, k, k, k, k, k, k, k, k)}}
	}
	return []*memPkg{mk("A/y", "y", "0"), mk("a/x", "x", "2"), mk("b.io/x", "x", "3")}
}

var c10Paths = []string{"A/y", "a/x", "b.io/x"}
var c10Key = map[string]string{"A/y": "0", "a/x": "2", "b.io/x": "3"}

// importLine renders one import spec in state st ("absent", "", alias, ".")
func importLine(path, st string) string {
	switch st {
	case "absent":
		return ""
	case "":
		return "\t" + strconv.Quote(path) + "\n"
	case "raw": // the path written as a raw string literal
		return "\t`" + path + "`\n"
	}
	return "\t" + st + " " + strconv.Quote(path) + "\n"
}

func qual(path, st string) string {
	switch st {
	case ".":
		return ""
	case "", "raw":
		return impPkg[path] + "."
	}
	return st + "."
}

type c10Case struct {
	SrcState map[string]string // how the source file imports each path ("" plain, "z1" alias, ".")
	DstState map[string]string // how the target file imports each path ("absent", "", "z", ".")
	SamePkg  bool
	Hops     int  // 1: source -> target; 2: source -> middle -> target
	Decl     int  // which declaration is moved
	Goast    bool // the source file is decorated with the goast resolver (no type information)
}

func (c c10Case) key() string {
	var s []string
	for _, p := range c10Paths {
		s = append(s, fmt.Sprintf("%s:%s>%s", p, c.SrcState[p], c.DstState[p]))
	}
	g := ""
	if c.Goast {
		g = " goast"
	}
	return fmt.Sprintf("decl%d hops%d same=%v%s %s", c.Decl, c.Hops, c.SamePkg, g, strings.Join(s, " "))
}

// source file: uses every path under the source's qualifiers; the movable declarations come last
func c10Source(c c10Case) string {
	var b strings.Builder
	b.WriteString("package src\n\nimport (\n")
	for _, p := range c10Paths {
		b.WriteString(importLine(p, c.SrcState[p]))
	}
	b.WriteString(")\n\nfunc LocalHelper() int { return 1 }\n\n")
	q := func(p string) string { return qual(p, c.SrcState[p]) }
	k := c10Key
	b.WriteString(fmt.Sprintf("var Moved0 = %sF%s(%sV%s) + %sC%s + %sV%s\n\n", q("A/y"), k["A/y"], q("a/x"), k["a/x"], q("b.io/x"), k["b.io/x"], q("A/y"), k["A/y"]))
	b.WriteString(fmt.Sprintf("func Moved1(a %sT%s, b *%sT%s) (r %sT%s) {\n\t_ = a.M() + b.F // fields and methods stay as they are\n\tr.F = %sF%s(a.F)\n\treturn r\n}\n\n", q("a/x"), k["a/x"], q("b.io/x"), k["b.io/x"], q("A/y"), k["A/y"], q("b.io/x"), k["b.io/x"]))
	b.WriteString(fmt.Sprintf("type Moved2 struct {\n\tA %sT%s\n\tB map[string][]%sT%s\n\tC func(%sT%s) int\n}\n\n", q("A/y"), k["A/y"], q("a/x"), k["a/x"], q("b.io/x"), k["b.io/x"]))
	b.WriteString(fmt.Sprintf("func Moved3() int {\n\tlv1 := %sV%s\n\t{\n\t\tlv2 := %sT%s{F: lv1}\n\t\treturn lv2.M() + LocalHelper()\n\t}\n}\n\n", q("a/x"), k["a/x"], q("A/y"), k["A/y"]))
	// references that occur only in a type-parameter constraint, in the capacity operand of a slice
	// expression, in a generic instantiation and in a type switch
	b.WriteString(fmt.Sprintf("type Moved4[P %sI%s, Q any] struct {\n\tp P\n\tq []Q\n}\n\n", q("a/x"), k["a/x"]))
	b.WriteString(fmt.Sprintf("func Moved5[P %sI%s](p P, s []int) []int {\n\tswitch any(p).(type) {\n\tcase %sT%s:\n\t\treturn nil\n\t}\n\treturn s[0:p.M():%sC%s]\n}\n\n", q("A/y"), k["A/y"], q("b.io/x"), k["b.io/x"], q("a/x"), k["a/x"]))
	// references in the key position of map and array literals (bare names when the source dot-imports)
	b.WriteString(fmt.Sprintf("var Moved6 = map[int][3]int{%sC%s: {%sC%s: %sV%s}, %sC%s: {}}\n", q("a/x"), k["a/x"], q("A/y"), k["A/y"], q("b.io/x"), k["b.io/x"], q("b.io/x"), k["b.io/x"]))
	// every kind of assignment to a package-level variable of another package
	b.WriteString(fmt.Sprintf("\nfunc Moved7(n int) {\n\t%sV%s = n\n\t%sV%s += %sC%s\n\t%sV%s |= 1\n\t%sV%s++\n\tn, %sV%s = %sV%s, n\n}\n", q("a/x"), k["a/x"], q("A/y"), k["A/y"], q("b.io/x"), k["b.io/x"], q("b.io/x"), k["b.io/x"], q("a/x"), k["a/x"], q("A/y"), k["A/y"], q("A/y"), k["A/y"]))
	// a function-local type alias and a local variable named like two of the source's import names:
	// selectors on them are a method expression and a field selection, not qualified identifiers
	// (only generated when those import names are aliases the restorer never chooses: the proviso)
	if nb, ny := c.SrcState["b.io/x"], c.SrcState["A/y"]; strings.HasPrefix(nb, "z") && strings.HasPrefix(ny, "z") {
		b.WriteString(fmt.Sprintf("\nfunc Moved8() int {\n\tr := %sV%s\n\t{\n\t\ttype %s = %sT%s\n\t\t%s := %s{F: 1}\n\t\tr += %s.M(%s) + %s.F\n\t}\n\treturn r + %sC%s\n}\n",
			q("A/y"), k["A/y"], nb, q("a/x"), k["a/x"], ny, nb, nb, ny, ny, q("b.io/x"), k["b.io/x"]))
	} else {
		b.WriteString("\nfunc Moved8() int { return 0 }\n")
	}
	return b.String()
}

func c10Target(c c10Case, pkgName string, uses bool) string {
	var b strings.Builder
	b.WriteString("package " + pkgName + "\n\n")
	any := false
	for _, p := range c10Paths {
		if c.DstState[p] != "absent" {
			any = true
		}
	}
	if any {
		b.WriteString("import (\n")
		for _, p := range c10Paths {
			b.WriteString(importLine(p, c.DstState[p]))
		}
		b.WriteString(")\n\n")
	}
	// the target uses what it imports (otherwise the import is rightly removed)
	if uses {
		for _, p := range c10Paths {
			if c.DstState[p] != "absent" {
				b.WriteString(fmt.Sprintf("var keep%s = %sV%s\n", c10Key[p], qual(p, c.DstState[p]), c10Key[p]))
			}
		}
	}
	b.WriteString("\nvar own = 1\n")
	return b.String()
}

type identFact struct {
	Name string
	Pkg  string
	Obj  string
}

// facts lists, for every identifier of decl that denotes a package-level object, (package, name).
func declFacts(decl ast.Node, info *types.Info) []identFact {
	var out []identFact
	ast.Inspect(decl, func(n ast.Node) bool {
		id, ok := n.(*ast.Ident)
		if !ok {
			return true
		}
		obj := info.Uses[id]
		if obj == nil || obj.Pkg() == nil || obj.Parent() != obj.Pkg().Scope() {
			return true
		}
		out = append(out, identFact{id.Name, obj.Pkg().Path(), obj.Name()})
		return true
	})
	return out
}

// c10Run performs the move with the real API and judges the result with go/types.
func c10Run(cs c10Case) (sig, what string, rec obj) {
	srcText := c10Source(cs)
	dstPkgPath, dstPkgName := "app/dst", "dst"
	if cs.SamePkg {
		dstPkgPath, dstPkgName = "app/src", "src"
	}
	files := map[string]string{"s.go": srcText}
	u := newUniverse(append(c10Libs(), &memPkg{Import: "app/src", Path: "app/src", Files: files})...)
	_, info, afs, err := u.Check("app/src")
	if err != nil {
		return "", "", nil // the source itself is not type-correct (e.g. two plain imports named x)
	}
	names := map[string]string{"app/src": "src", "app/dst": "dst", "app/mid": "mid"}
	for p, n := range impPkg {
		names[p] = n
	}
	ds := decorator.NewDecoratorWithImports(u.fset, "app/src", gotypes.New(info.Uses))
	ds.ResolveLocalPath = !cs.SamePkg
	if cs.Goast {
		// the resolver that works from the import block and the parser's object resolution alone
		ds = decorator.NewDecoratorWithImports(u.fset, "app/src", goast.WithResolver(simple.New(names)))
	}
	sf, err := ds.DecorateFile(afs[0])
	if err != nil {
		return "move-decorate-fails", err.Error(), nil
	}
	// the declaration to move (the movable ones are the last nine declarations)
	idx := len(sf.Decls) - 9 + cs.Decl
	moved := sf.Decls[idx]
	before := declFacts(afs[0].Decls[idx], info)
	sf.Decls = append(sf.Decls[:idx:idx], sf.Decls[idx+1:]...)

	place := func(pkgPath, pkgName string, decl dst.Decl) (string, *dst.File, error) {
		text := c10Target(cs, pkgName, true)
		tu := newUniverse(append(c10Libs(), &memPkg{Import: pkgPath, Path: pkgPath, Files: map[string]string{"t.go": text}})...)
		_, tinfo, tafs, err := tu.Check(pkgPath)
		if err != nil {
			return "", nil, fmt.Errorf("target not type-correct: %v", err)
		}
		td := decorator.NewDecoratorWithImports(tu.fset, pkgPath, gotypes.New(tinfo.Uses))
		tf, err := td.DecorateFile(tafs[0])
		if err != nil {
			return "", nil, err
		}
		tf.Decls = append(tf.Decls, decl)
		var buf bytes.Buffer
		if err := decorator.NewRestorerWithImports(pkgPath, simple.New(names)).Fprint(&buf, tf); err != nil {
			return "", tf, fmt.Errorf("restore: %v", err)
		}
		// the same file once more through a restorer that restores the object graph too (Extras): the moved
		// identifiers still carry the objects of the package they came from, next to their paths
		var xbuf bytes.Buffer
		xr := decorator.NewRestorerWithImports(pkgPath, simple.New(names))
		xr.Extras = true
		if err := xr.Fprint(&xbuf, tf); err != nil {
			return "", tf, fmt.Errorf("restore with Extras: %v", err)
		}
		if xbuf.String() != buf.String() {
			return "", tf, fmt.Errorf("restore with Extras prints the target differently:\n%s\nwithout Extras:\n%s", xbuf.String(), buf.String())
		}
		return buf.String(), tf, nil
	}
	var out string
	if cs.Hops == 2 {
		// first into a middle file of yet another package, then onwards
		_, mf, err := place("app/mid", "mid", moved)
		if err != nil {
			if strings.HasPrefix(err.Error(), "target not") {
				return "", "", nil
			}
			return "move-restore-fails", "first hop: " + err.Error(), nil
		}
		mf.Decls = mf.Decls[:len(mf.Decls)-1]
		// ... and, when no type information is used, onwards through the go/ast form of the middle file:
		// restored to an *ast.File (which carries no object resolution and no File.Imports list) and
		// decorated again with the syntax-based resolver
		dots := false
		for _, p := range c10Paths {
			dots = dots || cs.DstState[p] == "."
		}
		if cs.Goast && !dots && cs.Decl != 8 {
			mf.Decls = append(mf.Decls, moved)
			rr := decorator.NewRestorerWithImports("app/mid", simple.New(names))
			maf, err := rr.RestoreFile(mf)
			if err != nil {
				return "move-restore-fails", "first hop (to ast): " + err.Error(), nil
			}
			mf2, err := decorator.NewDecoratorWithImports(rr.Fset, "app/mid", goast.WithResolver(simple.New(names))).DecorateFile(maf)
			if err != nil {
				return "move-decorate-fails", "middle file decorated again: " + err.Error(), nil
			}
			moved = mf2.Decls[len(mf2.Decls)-1]
			mf2.Decls = mf2.Decls[:len(mf2.Decls)-1]
		}
	}
	out, _, err = place(dstPkgPath, dstPkgName, moved)
	if err != nil {
		if strings.HasPrefix(err.Error(), "target not") {
			return "", "", nil
		}
		return "move-restore-fails", err.Error(), nil
	}
	// judge: type-check the target with the moved declaration; for a same-package move the source
	// file (without the declaration) is part of the package
	tfiles := map[string]string{"t.go": out}
	pk := []*memPkg{}
	pk = append(pk, c10Libs()...)
	if cs.SamePkg {
		var sb bytes.Buffer
		if err := decorator.NewRestorerWithImports("app/src", simple.New(names)).Fprint(&sb, sf); err != nil {
			return "move-restore-fails", "source after the move: " + err.Error(), nil
		}
		tfiles["s.go"] = sb.String()
	} else {
		// the original source package is importable from the target
		pk = append(pk, &memPkg{Import: "app/src", Path: "app/src", Files: map[string]string{"s.go": srcText}})
	}
	pk = append(pk, &memPkg{Import: dstPkgPath + "#", Path: dstPkgPath, Files: tfiles})
	ju := newUniverse(pk...)
	_, jinfo, jafs, err := ju.Check(dstPkgPath + "#")
	if err != nil {
		return "moved-code-does-not-type-check", err.Error() + "\n" + out, nil
	}
	// find the moved declaration again (by name) and compare what its identifiers denote
	var after []identFact
	for _, af := range jafs {
		for _, d := range af.Decls {
			name := ""
			switch x := d.(type) {
			case *ast.FuncDecl:
				name = x.Name.Name
			case *ast.GenDecl:
				switch s := x.Specs[0].(type) {
				case *ast.ValueSpec:
					name = s.Names[0].Name
				case *ast.TypeSpec:
					name = s.Name.Name
				}
			}
			if name == fmt.Sprintf("Moved%d", cs.Decl) {
				after = declFacts(d, jinfo)
			}
		}
	}
	norm := func(fs []identFact) string {
		var s []string
		for _, f := range fs {
			s = append(s, f.Pkg+"."+f.Obj)
		}
		sort.Strings(s)
		return strings.Join(s, " ")
	}
	if norm(before) != norm(after) {
		return "reference-changed", fmt.Sprintf("identifiers of the moved code denoted {%s}, now {%s}\n%s", norm(before), norm(after), out), nil
	}
	// the record for the specification: the target's import state and how each moved reference prints
	obs := c10Observe(out, cs)
	used := map[string]bool{}
	for _, f := range before {
		if _, ok := c10Key[f.Pkg]; ok {
			used[f.Pkg] = true
		}
	}
	var usedL []string
	for _, p := range c10Paths {
		if used[p] || cs.DstState[p] != "absent" {
			usedL = append(usedL, p)
		}
	}
	src := [][2]string{}
	for _, p := range c10Paths {
		if cs.DstState[p] != "absent" {
			st := cs.DstState[p]
			if st == "raw" {
				st = ""
			}
			src = append(src, [2]string{p, st})
		}
	}
	rec = obj{"src": src, "ov": [][2]string{}, "used": usedL, "imports": obs.Imports, "quals": obs.Quals, "locals": []string{}, "kept": true, "shape": 0}
	return "", "", rec
}

// c10Observe lists the import specs of the output (restricted to the library paths) and how the
// references to each library print.
func c10Observe(out string, cs c10Case) impObs {
	o := impObs{Imports: [][2]string{}, Quals: [][2]string{}}
	u := newUniverse()
	_ = u
	f, err := parseFileOnly(out)
	if err != nil {
		return o
	}
	for _, is := range f.Imports {
		p, _ := strconv.Unquote(is.Path.Value)
		if _, ok := c10Key[p]; !ok {
			continue
		}
		a := ""
		if is.Name != nil {
			a = is.Name.Name
		}
		o.Imports = append(o.Imports, [2]string{p, a})
	}
	// references: identifiers ending in the library's key digit (T0, F2, V3 ...)
	ast.Inspect(f, func(n ast.Node) bool {
		switch x := n.(type) {
		case *ast.SelectorExpr:
			if id, ok := x.X.(*ast.Ident); ok && len(x.Sel.Name) == 2 && strings.ContainsAny(x.Sel.Name[:1], "TFVC") {
				for p, k := range c10Key {
					if x.Sel.Name[1:] == k {
						o.Quals = append(o.Quals, [2]string{p, id.Name})
					}
				}
				return false
			}
		case *ast.Ident:
			if len(x.Name) == 2 && strings.ContainsAny(x.Name[:1], "TFVC") && x.Obj == nil {
				for p, k := range c10Key {
					if x.Name[1:] == k {
						o.Quals = append(o.Quals, [2]string{p, ""})
					}
				}
			}
		}
		return true
	})
	return o
}

func checkC10(c *Ctx) {
	c.Assume("go/types judges the result: the target file with the moved declaration must type-check against the same dependency packages and every identifier of the moved code must denote the same (package, object)")
	c.Assume("precondition of the property: no declaration visible in the target shadows an import name the restorer chooses (true by construction)")
	r := rand.New(rand.NewSource(c.Seed))
	var cases []c10Case
	srcStates := []string{"", "z1", "."}
	dstStates := []string{"absent", "", "z", ".", "clash", "raw"}
	clash := map[string]string{"A/y": "x", "a/x": "y", "b.io/x": "y"} // an alias that is another library's package name
	n := 1200
	if !c.Quick() {
		n = 12000
	}
	seen := map[string]bool{}
	for len(cases) < n {
		cs := c10Case{SrcState: map[string]string{}, DstState: map[string]string{}, SamePkg: r.Intn(3) == 0, Hops: 1 + r.Intn(2), Decl: r.Intn(9), Goast: r.Intn(4) == 0}
		for i, p := range c10Paths {
			cs.SrcState[p] = srcStates[r.Intn(len(srcStates))]
			if cs.SrcState[p] == "z1" {
				cs.SrcState[p] = fmt.Sprintf("z%d", i+1)
			}
			cs.DstState[p] = dstStates[r.Intn(len(dstStates))]
			if cs.DstState[p] == "z" {
				cs.DstState[p] = fmt.Sprintf("w%d", i+1)
			}
			if cs.DstState[p] == "clash" {
				cs.DstState[p] = clash[p]
			}
		}
		if cs.SamePkg {
			cs.Hops = 1
		}
		if cs.Decl == 8 {
			// the local names of Moved8 are the source's aliases for these two packages
			cs.SrcState["A/y"], cs.SrcState["b.io/x"] = "z1", "z3"
		}
		if cs.Goast {
			// goast refuses dot-imports and leaves unqualified identifiers alone (Moved3 names a
			// function of the source package: movable within the package only)
			for _, p := range c10Paths {
				if cs.SrcState[p] == "." {
					cs.SrcState[p] = ""
				}
			}
			if cs.Decl == 3 {
				cs.SamePkg, cs.Hops = true, 1
			}
		}
		if !seen[cs.key()] {
			seen[cs.key()] = true
			cases = append(cases, cs)
		}
	}
	recs := make([][]byte, len(cases))
	parallel(len(cases), func(i int) {
		cs := cases[i]
		var sig, what string
		var rec obj
		if msg := guard(func() { sig, what, rec = c10Run(cs) }); msg != "" {
			sig, what = "move-panics", msg
		}
		if sig == "" && rec == nil {
			c.Add("inapplicable_cases", 1) // source or target not type-correct as generated (two plain imports named x, ...)
			return
		}
		c.Eval(cs.key(), true)
		if sig != "" {
			c.Fail(Finding{Sig: sig, Input: cs.key(), What: truncate(what, 1500), Replay: obj{"kind": "c10", "case": cs}})
			return
		}
		b, _ := json.Marshal(rec)
		recs[i] = append(b, '\n')
		if i%131 == 0 {
			c.Sample(obj{"case": cs.key(), "imports_after": rec["imports"], "references": rec["quals"]})
		}
	})
	var items []traceItem
	for i, b := range recs {
		if b != nil {
			items = append(items, traceItem{Key: cases[i].key(), Trace: b, Events: 1, Replay: obj{"kind": "c10", "case": cases[i]}})
		}
	}
	c.Traces(int64(len(items)))
	tcfg := importsConsts(false, true) + "INIT TInit\nNEXT TNext\nINVARIANTS EachOnce Bound Distinct\nPOSTCONDITION Accepted\nCHECK_DEADLOCK FALSE\n"
	validateTracesF(c, "ImportsTraceMC", tcfg, map[string][]byte{"ImportsTraceMC.tla": []byte(importsTraceMC)}, items, 3000, false, func(it traceItem, res *TLCResult) {
		c.Fail(Finding{Sig: "moved-" + res.Violated, Input: it.Key, What: fmt.Sprintf("predicate %s of ImportsTrace.tla fails on the target after the move: %s", res.Violated, truncate(string(it.Trace), 500)), Replay: it.Replay})
	})
	c10Lookalike(c)
	c10Split(c)
	c10PackageLine(c)
	c.Set("rule", "case = one of nine declarations (var with calls, func with remote parameter types, struct type, func with nested block and a local helper, generics, literal keys, assignments, local type alias and variable named like import names) decorated with gotypes or goast and moved from a file importing three libraries (two with one package name) plainly / aliased / dot-imported into a target file of the same or another package that imports them absent / plain / aliased / dot, in one or two hops; all non-trivial; distinct by configuration")
}

// c10Lookalike: a function that refers to a package whose import path has an element that merely
// ends in "vendor" is moved to another package, decorated with either resolver.
func c10Lookalike(c *Ctx) {
	libPath := "example.com/tools/govendor/pkgspec"
	lib := &memPkg{Import: libPath, Path: libPath, Files: map[string]string{"l.go": "package pkgspec\n\nfunc Parse() int { return 1 }\n\nvar Default = 2\n"}}
	srcText := "package src\n\nimport \"" + libPath + "\"\n\nfunc Load() int { return pkgspec.Parse() + pkgspec.Default }\n"
	names := map[string]string{libPath: "pkgspec", "app/src": "src", "app/dst": "dst"}
	for _, mode := range []string{"gotypes", "goast", "goast-retry"} {
		key := "vendor-lookalike-path|" + mode
		c.Eval(key, true)
		u := newUniverse(lib, &memPkg{Import: "app/src", Path: "app/src", Files: map[string]string{"s.go": srcText}})
		_, info, afs, err := u.Check("app/src")
		if err != nil {
			c.Infra("lookalike source does not type-check: " + err.Error())
			return
		}
		var ds *decorator.Decorator
		switch mode {
		case "gotypes":
			ds = decorator.NewDecoratorWithImports(u.fset, "app/src", gotypes.New(info.Uses))
		case "goast":
			ds = decorator.NewDecoratorWithImports(u.fset, "app/src", goast.WithResolver(simple.New(names)))
		default:
			// the first attempt is refused (the name resolver does not know the library yet); the library
			// is added and the same parsed file is decorated again through the same resolver
			partial := map[string]string{"app/src": "src", "app/dst": "dst"}
			dr := goast.WithResolver(simple.New(partial))
			if _, err := decorator.NewDecoratorWithImports(u.fset, "app/src", dr).DecorateFile(afs[0]); err == nil {
				c.Infra("the first attempt of the retry scenario was not refused")
				return
			}
			partial[libPath] = "pkgspec"
			ds = decorator.NewDecoratorWithImports(u.fset, "app/src", dr)
		}
		sf, err := ds.DecorateFile(afs[0])
		if err != nil {
			c.Fail(Finding{Sig: "move-decorate-fails", Input: key, What: err.Error(), Replay: obj{"kind": "none"}})
			continue
		}
		moved := sf.Decls[len(sf.Decls)-1]
		sf.Decls = sf.Decls[:len(sf.Decls)-1]
		tf, err := decorator.Parse("package dst\n\nvar own = 1\n")
		if err != nil {
			c.Infra(err.Error())
			return
		}
		tf.Decls = append(tf.Decls, moved)
		var buf bytes.Buffer
		if err := decorator.NewRestorerWithImports("app/dst", simple.New(names)).Fprint(&buf, tf); err != nil {
			c.Fail(Finding{Sig: "move-restore-fails", Input: key, What: err.Error(), Replay: obj{"kind": "none"}})
			continue
		}
		ju := newUniverse(lib, &memPkg{Import: "app/dst", Path: "app/dst", Files: map[string]string{"t.go": buf.String()}})
		_, jinfo, jafs, err := ju.Check("app/dst")
		if err != nil {
			c.Fail(Finding{Sig: "moved-code-does-not-type-check", Input: key, What: err.Error() + "\n" + buf.String(), Replay: obj{"kind": "none"}})
			continue
		}
		ok := false
		for _, f := range declFacts(jafs[0], jinfo) {
			if f.Pkg == libPath && f.Obj == "Parse" {
				ok = true
			}
		}
		if !ok {
			c.Fail(Finding{Sig: "reference-changed", Input: key, What: "Parse no longer denotes " + libPath + ".Parse\n" + buf.String(), Replay: obj{"kind": "none"}})
		}
	}
}
