package main

import (
	"encoding/json"
	"fmt"
	"strings"
	"time"

	"github.com/dave/dst/decorator"
)

// ---- LinkMC.tla: the layout space inside TLC, bound to the real decorator ----

type mcEntry struct {
	E bool
	C string
}
type mcLayout struct {
	Shape []bool
	Gaps  [][]mcEntry
	Frags [][]interface{}
	// LinkMCD (a whole file): comments in front of the package clause, declaration kinds, the gap
	// inside every grouped declaration
	Lead  []mcEntry
	Decls []string
	Igaps [][]mcEntry
}

// mcLayoutD is the JSON form of a LinkMCD layout (shape is a list of strings there).
type mcLayoutD struct {
	Lead  []mcEntry
	Shape []string
	Gaps  [][]mcEntry
	Igaps [][]mcEntry
	Frags [][]interface{}
}

// mcSourceFile writes a LinkMCD layout out as Go source.
func mcSourceFile(l mcLayout) string {
	var lines []string
	n := 0
	com := func(line bool) string {
		n++
		if line {
			return fmt.Sprintf("// c%d", n)
		}
		return fmt.Sprintf("/* c%d */", n)
	}
	gap := func(g []mcEntry) {
		for _, x := range g {
			switch x.C {
			case "TL", "TB":
				lines[len(lines)-1] += " " + com(x.C == "TL")
				continue
			}
			if x.E {
				lines = append(lines, "")
			}
			switch x.C {
			case "L1":
				lines = append(lines, com(true))
			case "B1":
				lines = append(lines, com(false))
			case "L2":
				lines = append(lines, "\t"+com(true))
			case "B2":
				lines = append(lines, "\t"+com(false))
			}
		}
	}
	for _, x := range l.Lead {
		lines = append(lines, com(x.C == "L1"))
		if x.E {
			lines = append(lines, "")
		}
	}
	lines = append(lines, "package p")
	gap(l.Gaps[0])
	for i, k := range l.Decls {
		switch k {
		case "var":
			lines = append(lines, fmt.Sprintf("var x%d int", i))
		case "func":
			lines = append(lines, fmt.Sprintf("func f%d() {", i), "}")
		default:
			lines = append(lines, "var (", fmt.Sprintf("\ta%d int", i))
			gap(l.Igaps[i])
			lines = append(lines, ")")
		}
		gap(l.Gaps[i+1])
	}
	return strings.Join(lines, "\n") + "\n"
}

// mcSource writes a LinkMC layout out as Go source.
func mcSource(l mcLayout, block bool) string {
	var lines []string
	n := 0
	com := func(line bool) string {
		n++
		if line {
			return fmt.Sprintf("// c%d", n)
		}
		return fmt.Sprintf("/* c%d */", n)
	}
	gap := func(g []mcEntry) {
		for _, x := range g {
			switch x.C {
			case "TL", "TB":
				lines[len(lines)-1] += " " + com(x.C == "TL")
				continue
			}
			if x.E {
				lines = append(lines, "")
			}
			switch x.C {
			case "L2":
				lines = append(lines, "\t"+com(true))
			case "L3":
				lines = append(lines, "\t\t"+com(true))
			case "B2":
				lines = append(lines, "\t"+com(false))
			case "B3":
				lines = append(lines, "\t\t"+com(false))
			}
		}
	}
	if block {
		lines = append(lines, "package p", "", "func f() {")
		gap(l.Gaps[0])
		for i, two := range l.Shape {
			if two {
				lines = append(lines, "\tfoo(a,", "\t\tb)")
			} else {
				lines = append(lines, "\tx()")
			}
			gap(l.Gaps[i+1])
		}
		lines = append(lines, "}")
		return strings.Join(lines, "\n") + "\n"
	}
	lines = append(lines, "package p", "", "func f() {", "\tswitch {")
	gi := 0
	gap(l.Gaps[gi])
	gi++
	for _, has := range l.Shape {
		lines = append(lines, "\tcase x:")
		if has {
			gap(l.Gaps[gi])
			gi++
			lines = append(lines, "\t\tbreak")
		}
		gap(l.Gaps[gi])
		gi++
	}
	lines = append(lines, "\t}", "}")
	return strings.Join(lines, "\n") + "\n"
}

// mcCompare compares the fragment list LinkMC built for a layout with the real one (the part
// between the Start and the End of the switch statement).
func mcCompare(want [][]interface{}, got []decorator.VerifFragment, typ string) string {
	lo, hi := -1, -1
	for i, f := range got {
		if f.Type == typ && f.K == "dec" && f.Name == "Start" && lo < 0 {
			lo = i
		}
		if f.Type == typ && f.K == "dec" && f.Name == "End" {
			hi = i
		}
	}
	if typ == "File" {
		lo, hi = 0, len(got)-1 // the File node has no End point: the whole list
	}
	if lo < 0 || hi < 0 {
		return "no " + typ + " in the real fragment list"
	}
	real := got[lo : hi+1]
	if len(real) != len(want) {
		return fmt.Sprintf("the real list has %d fragments for the construct, the model built %d", len(real), len(want))
	}
	off := real[0].Node - 1
	if typ == "File" {
		off = 0
	}
	for i, w := range want {
		r := real[i]
		node := 0
		if r.Node != 0 {
			node = r.Node - off
		}
		// k, node, name, line, empty, indent, sd, clause, si, ei
		g := []interface{}{r.K, float64(node), r.Name, r.Line, r.Empty, float64(r.Indent), r.SD, r.Clause, float64(r.SI), float64(r.EI)}
		if r.K != "com" {
			g[5] = float64(0)
		}
		if r.K != "dec" {
			g[8], g[9] = float64(0), float64(0)
		}
		for j := range g {
			if fmt.Sprint(g[j]) != fmt.Sprint(w[j]) {
				return fmt.Sprintf("fragment %d: real %v, LinkMC %v", i+1, g, w)
			}
		}
	}
	return ""
}

func c01LinkMC(c *Ctx) bool {
	return c01LinkMCOf(c, "LinkMC", "MaxClauses", "SwitchStmt", false) && c01LinkMCOf(c, "LinkMCB", "MaxStmts", "BlockStmt", true) &&
		c01LinkMCOf(c, "LinkMCD", "MaxDecls", "File", false)
}

func c01LinkMCOf(c *Ctx, module, sizeConst, typ string, block bool) bool {
	cl, co := 2, 1
	if !c.Quick() {
		co = 2
	}
	linkMCCfg := func(clauses, coms int, emit string) string {
		return fmt.Sprintf("CONSTANTS %s = %d MaxComs = %d EmitHist = \"%s\"\nINIT Init\nNEXT Next\nINVARIANTS NoPanic AllAttached RoundTrip Emit\nCHECK_DEADLOCK FALSE\n", sizeConst, clauses, coms, emit)
	}
	// (M) every layout within the bound: no panic state, every comment attached once, skeleton reproduced
	mc, err := RunTLC(TLCRun{Module: module, Cfg: linkMCCfg(cl, co, "none"), Workers: 12, Timeout: 30 * time.Minute})
	if err != nil || !mc.OK() {
		if mc != nil && mc.Violated != "" {
			c.Fail(Finding{Sig: "linkmc-" + mc.Violated, Input: module, What: module + ".tla: invariant " + mc.Violated + " fails on a generated layout:\n" + truncate(mc.ErrorText, 1500), Replay: obj{"kind": "none"}})
			return true
		}
		c.Infra("TLC model check of LinkMC failed: " + errText(mc, err))
		return false
	}
	c.TLC(mc)
	c.Set(strings.ToLower(module)+"_bounds", fmt.Sprintf("%s: <= %d clauses / statements, <= %d comments (own line at either indentation, line or block; trailing) in any gap, every blank-line pattern", module, cl, co))
	// (R) spec -> code: every layout with <= 1 comment with its fragment list, every layout of the bound as text
	small, err := RunTLC(TLCRun{Module: module, Cfg: linkMCCfg(cl, 1, "frags"), Workers: 8, Timeout: 30 * time.Minute})
	if err != nil || !small.OK() {
		c.Infra("TLC emission (LinkMC, frags) failed: " + errText(small, err))
		return false
	}
	c.TLC(small)
	behs := small.Payloads("BEH ")
	if co > 1 {
		big, err := RunTLC(TLCRun{Module: module, Cfg: linkMCCfg(cl, co, "layouts"), Workers: 8, Timeout: 30 * time.Minute})
		if err != nil || !big.OK() {
			c.Infra("TLC emission (LinkMC, layouts) failed: " + errText(big, err))
			return false
		}
		c.TLC(big)
		behs = append(behs, big.Payloads("BEH ")...)
	}
	if len(behs) == 0 {
		c.Infra("LinkMC emitted no layouts")
		return false
	}
	var items []traceItem
	canonicalN, compared := 0, 0
	seen := map[string]bool{}
	for _, b := range behs {
		var l mcLayout
		var src string
		if typ == "File" {
			var ld mcLayoutD
			if err := json.Unmarshal([]byte(b), &ld); err != nil {
				c.Infra("bad LinkMCD layout: " + err.Error())
				return false
			}
			l = mcLayout{Lead: ld.Lead, Decls: ld.Shape, Gaps: ld.Gaps, Igaps: ld.Igaps, Frags: ld.Frags}
			src = mcSourceFile(l)
		} else {
			if err := json.Unmarshal([]byte(b), &l); err != nil {
				c.Infra("bad LinkMC layout: " + err.Error())
				return false
			}
			src = mcSource(l, block)
		}
		if !isCanonical([]byte(src)) {
			continue // gofmt would lay this out differently: outside C01's quantifier
		}
		canonicalN++
		if l.Frags != nil {
			var perr error
			frags, _, ok := captureLink(func() { _, perr = decorator.Parse(src) })
			if !ok || perr != nil {
				c.Infra("LinkMC layout does not decorate: " + src)
				return false
			}
			compared++
			if msg := mcCompare(l.Frags, frags, typ); msg != "" {
				c.Fail(Finding{Sig: "linkmc-fragments-differ", Input: "layout|" + shortHash(src), What: "the fragment list " + module + ".tla builds for this layout is not the decorator's: " + msg + "\n" + src, Replay: obj{"kind": "c01snip", "src": src}})
				continue
			}
		}
		if seen[src] {
			continue
		}
		seen[src] = true
		// the real round trip and the real attachment against Link.tla (LinkTrace!Check)
		it, _ := linkRecord(c, "C01", src, 1<<30)
		if it.Trace != nil {
			items = append(items, it)
		}
	}
	c.Set(strings.ToLower(module)+"_layouts_emitted", len(behs))
	c.Set(strings.ToLower(module)+"_layouts_canonical", canonicalN)
	c.Set(strings.ToLower(module)+"_fragment_lists_compared", compared)
	if canonicalN == 0 || compared == 0 {
		c.Infra("no LinkMC layout is canonical Go")
		return false
	}
	c.Traces(int64(len(items)))
	validateLink(c, items)
	return true
}
