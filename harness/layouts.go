package main

import (
	"fmt"
	"go/format"
	"reflect"
	"strings"

	"github.com/dave/dst"
)

// A chunk is an element of a sibling list with its directly preceding comment lines, its trailing
// same-line comment and (for elements with a body) comments hanging at the end of the body.
type chunk struct {
	ID     int
	Lead   int  // comment lines directly above the element
	Trail  bool // trailing same-line comment
	Hang   int  // comment lines at body indent after the body (part of the element)
	Detach bool // one more comment above, separated from the chunk by a blank line (C01 only)
}

// listTemplate is one kind of sibling list in a small file: two independent lists "a" and "b" of
// that kind, so that elements can be moved between lists of the same kind.
type listTemplate struct {
	Name       string
	Open       func(list string) []string // lines that open list a / b
	Close      func(list string) []string
	Elem       func(id int) []string // element lines, indentation included; first line is the head
	Indent     string
	BodyIndent string // "" when elements have no body
	HangBefore int    // hanging comments are inserted before the last HangBefore lines of the element
	Blank      bool   // separate chunks with a blank line (uniform)
	Lists      func(f *dst.File) (a, b reflect.Value)
	Qualified  bool // elements are package-qualified identifiers: decorated and restored with import management
	NotC02     bool // a bracketed list that is not one of the sibling-list kinds C02 speaks about (round trips only)
}

func tmplBlockStmts() listTemplate {
	return listTemplate{Name: "BlockStmt.List",
		Open:  func(l string) []string { return []string{"func " + l + "() {"} },
		Close: func(string) []string { return []string{"}", ""} },
		Elem:  func(id int) []string { return []string{fmt.Sprintf("\te%d()", id)} }, Indent: "\t",
		Lists: func(f *dst.File) (reflect.Value, reflect.Value) {
			return reflect.ValueOf(&f.Decls[0].(*dst.FuncDecl).Body.List).Elem(), reflect.ValueOf(&f.Decls[1].(*dst.FuncDecl).Body.List).Elem()
		}}
}

// tmplBlockMixed: a block whose elements are statements of different types (by element number)
func tmplBlockMixed() listTemplate {
	t := tmplBlockStmts()
	t.Name = "BlockStmt.List(mixed)"
	forms := []string{"\tc <- e%d", "\te%d++", "\tgo e%d()", "\tvar e%d int", "\te%d = 1", "\tdefer e%d()"}
	t.Elem = func(id int) []string { return []string{fmt.Sprintf(forms[id%len(forms)], id)} }
	return t
}

func clauseTemplate(name, open string, head func(id int) string) listTemplate {
	return listTemplate{Name: name,
		Open:  func(l string) []string { return []string{"func " + l + "() {", "\t" + open + " {"} },
		Close: func(string) []string { return []string{"\t}", "}", ""} },
		Elem:  func(id int) []string { return []string{"\t" + head(id), fmt.Sprintf("\t\te%d()", id)} }, Indent: "\t", BodyIndent: "\t\t",
		Lists: func(f *dst.File) (reflect.Value, reflect.Value) {
			get := func(d dst.Decl) reflect.Value {
				switch s := d.(*dst.FuncDecl).Body.List[0].(type) {
				case *dst.SwitchStmt:
					return reflect.ValueOf(&s.Body.List).Elem()
				case *dst.SelectStmt:
					return reflect.ValueOf(&s.Body.List).Elem()
				case *dst.TypeSwitchStmt:
					return reflect.ValueOf(&s.Body.List).Elem()
				}
				panic("clause template")
			}
			return get(f.Decls[0]), get(f.Decls[1])
		}}
}

// tmplCaseBody: the statements of a case body (a statement list without a closing token of its own)
func tmplCaseBody() listTemplate {
	return listTemplate{Name: "CaseClause.Body",
		Open:  func(l string) []string { return []string{"func " + l + "() {", "\tswitch x {", "\tcase 1:"} },
		Close: func(string) []string { return []string{"\t}", "}", ""} },
		Elem:  func(id int) []string { return []string{fmt.Sprintf("\t\te%d()", id)} }, Indent: "\t\t",
		Lists: func(f *dst.File) (reflect.Value, reflect.Value) {
			get := func(d dst.Decl) reflect.Value {
				return reflect.ValueOf(&d.(*dst.FuncDecl).Body.List[0].(*dst.SwitchStmt).Body.List[0].(*dst.CaseClause).Body).Elem()
			}
			return get(f.Decls[0]), get(f.Decls[1])
		}}
}

func tmplIfStmts() listTemplate {
	return listTemplate{Name: "BlockStmt.List(if)",
		Open:  func(l string) []string { return []string{"func " + l + "() {"} },
		Close: func(string) []string { return []string{"}", ""} },
		Elem: func(id int) []string {
			return []string{fmt.Sprintf("\tif x%d {", id), fmt.Sprintf("\t\te%d()", id), "\t}"}
		}, Indent: "\t", BodyIndent: "\t\t", HangBefore: 1,
		Lists: func(f *dst.File) (reflect.Value, reflect.Value) {
			return reflect.ValueOf(&f.Decls[0].(*dst.FuncDecl).Body.List).Elem(), reflect.ValueOf(&f.Decls[1].(*dst.FuncDecl).Body.List).Elem()
		}}
}

func genDeclTemplate(name, open string, elem func(id int) string, lists func(f *dst.File) (reflect.Value, reflect.Value)) listTemplate {
	return listTemplate{Name: name,
		Open: func(l string) []string { return []string{strings.ReplaceAll(open, "%L", l)} },
		Close: func(string) []string {
			return []string{map[bool]string{true: ")", false: "}"}[strings.HasSuffix(open, "(")], ""}
		},
		Elem: func(id int) []string { return []string{"\t" + elem(id)} }, Indent: "\t", Lists: lists}
}

// bracketTemplate: a list between an opening line and custom closing lines
func bracketTemplate(name, open string, closing []string, elem func(id int) string, lists func(f *dst.File) (reflect.Value, reflect.Value)) listTemplate {
	return listTemplate{Name: name,
		Open:  func(l string) []string { return []string{strings.ReplaceAll(open, "%L", l)} },
		Close: func(string) []string { return append(append([]string{}, closing...), "") },
		Elem:  func(id int) []string { return []string{"\t" + elem(id)} }, Indent: "\t", Lists: lists, NotC02: true}
}

func tmplDecls() listTemplate {
	return listTemplate{Name: "File.Decls",
		Open:  func(l string) []string { return nil },
		Close: func(string) []string { return nil },
		Elem: func(id int) []string {
			callee := 1 // every function calls e1, e1 calls e2: deleting or moving one leaves identifiers whose Obj.Decl points at it
			if id%100 == 1 {
				callee = 2
			}
			return []string{fmt.Sprintf("func e%d() {", id), fmt.Sprintf("\te%d()", callee), "}"}
		}, Indent: "", BodyIndent: "\t", HangBefore: 1, Blank: true,
		Lists: func(f *dst.File) (reflect.Value, reflect.Value) {
			return reflect.ValueOf(&f.Decls).Elem(), reflect.Value{}
		}}
}

// tmplGroupedDecls: top-level declarations that are parenthesised groups (the closing parenthesis is a
// token of the element: comments hanging in front of it belong to the element)
func tmplGroupedDecls() listTemplate {
	t := tmplDecls()
	t.Name = "File.Decls(grouped)"
	t.Elem = func(id int) []string {
		return []string{"const (", fmt.Sprintf("\te%d = iota", id), fmt.Sprintf("\tf%d", id), ")"}
	}
	return t
}

func specsOf(d dst.Decl) reflect.Value { return reflect.ValueOf(&d.(*dst.GenDecl).Specs).Elem() }

var listTemplates = []listTemplate{
	tmplBlockStmts(),
	tmplBlockMixed(),
	clauseTemplate("SwitchStmt.Cases", "switch x", func(id int) string { return fmt.Sprintf("case %d:", id) }),
	clauseTemplate("SelectStmt.Comms", "select", func(id int) string { return fmt.Sprintf("case <-c%d:", id) }),
	clauseTemplate("TypeSwitchStmt.Cases", "switch x.(type)", func(id int) string { return fmt.Sprintf("case t%d:", id) }),
	tmplIfStmts(),
	tmplCaseBody(),
	tmplDecls(),
	tmplGroupedDecls(),
	genDeclTemplate("GenDecl.Specs(var)", "var (", func(id int) string { return fmt.Sprintf("e%d = %d", id, id) }, func(f *dst.File) (reflect.Value, reflect.Value) {
		return specsOf(f.Decls[0]), specsOf(f.Decls[1])
	}),
	genDeclTemplate("GenDecl.Specs(type)", "type (", func(id int) string { return fmt.Sprintf("e%d int", id) }, func(f *dst.File) (reflect.Value, reflect.Value) {
		return specsOf(f.Decls[0]), specsOf(f.Decls[1])
	}),
	genDeclTemplate("GenDecl.Specs(import)", "import (", func(id int) string { return fmt.Sprintf("\"p/e%d\"", id) }, func(f *dst.File) (reflect.Value, reflect.Value) {
		return specsOf(f.Decls[0]), specsOf(f.Decls[1])
	}),
	genDeclTemplate("StructType.Fields", "type %L struct {", func(id int) string { return fmt.Sprintf("e%d int", id) }, func(f *dst.File) (reflect.Value, reflect.Value) {
		get := func(d dst.Decl) reflect.Value {
			return reflect.ValueOf(&d.(*dst.GenDecl).Specs[0].(*dst.TypeSpec).Type.(*dst.StructType).Fields.List).Elem()
		}
		return get(f.Decls[0]), get(f.Decls[1])
	}),
	genDeclTemplate("InterfaceType.Methods", "type %L interface {", func(id int) string { return fmt.Sprintf("e%d()", id) }, func(f *dst.File) (reflect.Value, reflect.Value) {
		get := func(d dst.Decl) reflect.Value {
			return reflect.ValueOf(&d.(*dst.GenDecl).Specs[0].(*dst.TypeSpec).Type.(*dst.InterfaceType).Methods.List).Elem()
		}
		return get(f.Decls[0]), get(f.Decls[1])
	}),
	genDeclTemplate("CompositeLit.Elts", "var %L = []int{", func(id int) string { return fmt.Sprintf("e%d,", id) }, func(f *dst.File) (reflect.Value, reflect.Value) {
		get := func(d dst.Decl) reflect.Value {
			return reflect.ValueOf(&d.(*dst.GenDecl).Specs[0].(*dst.ValueSpec).Values[0].(*dst.CompositeLit).Elts).Elem()
		}
		return get(f.Decls[0]), get(f.Decls[1])
	}),
	bracketTemplate("IndexListExpr.Indices", "var %L = g[", []string{"](1)"}, func(id int) string { return fmt.Sprintf("e%d,", id) }, func(f *dst.File) (reflect.Value, reflect.Value) {
		get := func(d dst.Decl) reflect.Value {
			return reflect.ValueOf(&d.(*dst.GenDecl).Specs[0].(*dst.ValueSpec).Values[0].(*dst.CallExpr).Fun.(*dst.IndexListExpr).Indices).Elem()
		}
		return get(f.Decls[0]), get(f.Decls[1])
	}),
	bracketTemplate("FuncDecl.Params", "func %L(", []string{") {", "}"}, func(id int) string { return fmt.Sprintf("e%d int,", id) }, func(f *dst.File) (reflect.Value, reflect.Value) {
		get := func(d dst.Decl) reflect.Value {
			return reflect.ValueOf(&d.(*dst.FuncDecl).Type.Params.List).Elem()
		}
		return get(f.Decls[0]), get(f.Decls[1])
	}),
	bracketTemplate("TypeSpec.TypeParams", "type %L[", []string{"] struct{}"}, func(id int) string { return fmt.Sprintf("E%d any,", id) }, func(f *dst.File) (reflect.Value, reflect.Value) {
		get := func(d dst.Decl) reflect.Value {
			return reflect.ValueOf(&d.(*dst.GenDecl).Specs[0].(*dst.TypeSpec).TypeParams.List).Elem()
		}
		return get(f.Decls[0]), get(f.Decls[1])
	}),
	genDeclTemplate("CallExpr.Args", "var %L = g(", func(id int) string { return fmt.Sprintf("e%d,", id) }, func(f *dst.File) (reflect.Value, reflect.Value) {
		get := func(d dst.Decl) reflect.Value {
			return reflect.ValueOf(&d.(*dst.GenDecl).Specs[0].(*dst.ValueSpec).Values[0].(*dst.CallExpr).Args).Elem()
		}
		return get(f.Decls[0]), get(f.Decls[1])
	}),
}

// qualifiedTemplates: lists whose elements are package-qualified identifiers (C02 only).
var qualifiedTemplates = func() []listTemplate {
	a := genDeclTemplate("CallExpr.Args(qualified)", "var %L = g(", func(id int) string { return fmt.Sprintf("lib.e%d,", id) }, func(f *dst.File) (reflect.Value, reflect.Value) {
		get := func(d dst.Decl) reflect.Value {
			return reflect.ValueOf(&d.(*dst.GenDecl).Specs[0].(*dst.ValueSpec).Values[0].(*dst.CallExpr).Args).Elem()
		}
		return get(f.Decls[1]), get(f.Decls[2])
	})
	b := genDeclTemplate("CompositeLit.Elts(qualified)", "var %L = []int{", func(id int) string { return fmt.Sprintf("lib.e%d,", id) }, func(f *dst.File) (reflect.Value, reflect.Value) {
		get := func(d dst.Decl) reflect.Value {
			return reflect.ValueOf(&d.(*dst.GenDecl).Specs[0].(*dst.ValueSpec).Values[0].(*dst.CompositeLit).Elts).Elem()
		}
		return get(f.Decls[1]), get(f.Decls[2])
	})
	a.Qualified, b.Qualified = true, true
	return []listTemplate{a, b}
}()

// chunkLines renders one chunk.
func (t listTemplate) chunkLines(c chunk) []string {
	var out []string
	id := c.ID % 100
	if c.Detach {
		out = append(out, fmt.Sprintf("%s// detached above e%d", t.Indent, id), "")
	}
	for k := 0; k < c.Lead; k++ {
		out = append(out, fmt.Sprintf("%s// lead %d of e%d", t.Indent, k+1, id))
	}
	el := t.Elem(id)
	var hang []string
	for k := 0; k < c.Hang; k++ {
		hang = append(hang, fmt.Sprintf("%s// hanging %d in e%d", t.BodyIndent, k+1, id))
	}
	cut := len(el) - t.HangBefore
	body := append(append(append([]string{}, el[:cut]...), hang...), el[cut:]...)
	if c.Trail {
		body[len(body)-1] += fmt.Sprintf(" // trail of e%d", id)
	}
	return append(out, body...)
}

// text renders a file with lists a and b holding the given chunk sequences.
func (t listTemplate) text(a, b []chunk, blank bool) string {
	lines := []string{"package p", ""}
	if t.Qualified {
		lines = append(lines, "import \"example.com/lib\"", "")
	}
	emit := func(l string, cs []chunk) {
		lines = append(lines, t.Open(l)...)
		for i, c := range cs {
			// uniform separators: with blank-line separation every element, the first and the last
			// included, has an empty line on both sides (gofmt keeps those inside blocks and removes
			// them itself inside declarations, structs and literals)
			if blank && (i > 0 || len(t.Open(l)) > 0) {
				lines = append(lines, "")
			}
			lines = append(lines, t.chunkLines(c)...)
		}
		if blank && len(t.Close(l)) > 0 && len(cs) > 0 {
			lines = append(lines, "")
		}
		lines = append(lines, t.Close(l)...)
	}
	emit("a", a)
	if !strings.HasPrefix(t.Name, "File.Decls") {
		emit("b", b)
	}
	if t.Qualified {
		lines = append(lines, "var keep = lib.K", "") // the import stays in use whatever is deleted
	}
	return strings.Join(lines, "\n")
}

// canonical returns gofmt's version of the text ("" if it does not format).
func canonical(s string) string {
	out, err := format.Source([]byte(s))
	if err != nil {
		return ""
	}
	return string(out)
}

// enumChunks lists chunk decorations; maxComments bounds the comments of one chunk.
func enumChunks(t listTemplate, detached bool) []chunk {
	var out []chunk
	hangs := []int{0}
	if t.BodyIndent != "" {
		hangs = []int{0, 1, 2}
	}
	for lead := 0; lead <= 2; lead++ {
		for _, trail := range []bool{false, true} {
			for _, h := range hangs {
				out = append(out, chunk{Lead: lead, Trail: trail, Hang: h})
				if detached && lead <= 1 {
					out = append(out, chunk{Lead: lead, Trail: trail, Hang: h, Detach: true})
				}
			}
		}
	}
	return out
}

func comments(c chunk) int {
	n := c.Lead + c.Hang
	if c.Trail {
		n++
	}
	if c.Detach {
		n++
	}
	return n
}

// textSeps renders list a with per-gap separators (seps[i] = blank line in front of chunk i; the
// last entry is the gap in front of the closer) and an unchanged list b.
func (t listTemplate) textSeps(a []chunk, seps []bool) string {
	lines := []string{"package p", ""}
	lines = append(lines, t.Open("a")...)
	for i, c := range a {
		if seps[i] && (i > 0 || len(t.Open("a")) > 0) {
			lines = append(lines, "")
		}
		lines = append(lines, t.chunkLines(c)...)
	}
	if seps[len(a)] && len(t.Close("a")) > 0 {
		lines = append(lines, "")
	}
	lines = append(lines, t.Close("a")...)
	return strings.Join(lines, "\n")
}

// enumLayouts lists the canonical texts of all layouts of n chunks with at most maxComments comments.
func enumLayouts(t listTemplate, n, maxComments int, visit func(src string)) {
	opts := enumChunks(t, true)
	seen := map[string]bool{}
	var rec func(cs []chunk, used int)
	rec = func(cs []chunk, used int) {
		if len(cs) == n {
			for mask := 0; mask < 1<<(n+1); mask++ {
				seps := make([]bool, n+1)
				for k := range seps {
					seps[k] = mask&(1<<k) != 0
				}
				if t.Blank {
					for k := 1; k < n; k++ {
						seps[k] = true
					}
				}
				src := canonical(t.textSeps(cs, seps))
				if src != "" && !seen[src] {
					seen[src] = true
					visit(src)
				}
			}
			return
		}
		for _, o := range opts {
			if used+comments(o) > maxComments {
				continue
			}
			o.ID = len(cs) + 1
			rec(append(append([]chunk{}, cs...), o), used+comments(o))
		}
	}
	rec(nil, 0)
}
