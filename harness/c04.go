package main

import (
	"bytes"
	"encoding/json"
	"fmt"
	"go/ast"
	"go/format"
	"go/scanner"
	"go/token"
	"math/rand"
	"os"
	"path/filepath"
	"reflect"
	"regexp"
	"strings"

	"github.com/dave/dst"
	"github.com/dave/dst/decorator"
	"github.com/dave/dst/decorator/resolver/goast"
	"github.com/dave/dst/decorator/resolver/guess"
	"github.com/dave/dst/dstutil"
)

func init() { register("C04", "model_checking", checkC04) }

const renderTraceCfg = `INIT TInit
NEXT TNext
VIEW View
INVARIANTS PlacedByPosition PrintedOnce PointsListed
POSTCONDITION Accepted
CHECK_DEADLOCK FALSE
`

type scanItem struct {
	K    string `json:"k"`
	Text string `json:"text"`
}

// scanItems is go/scanner's view of a source text: tokens, leaf strings and comments in order.
func scanItems(src []byte) ([]scanItem, error) {
	fset := token.NewFileSet()
	file := fset.AddFile("", fset.Base(), len(src))
	var s scanner.Scanner
	var errs []string
	s.Init(file, src, func(pos token.Position, msg string) { errs = append(errs, msg) }, scanner.ScanComments)
	var out []scanItem
	for {
		_, tok, lit := s.Scan()
		if tok == token.EOF {
			break
		}
		switch {
		case tok == token.COMMENT:
			// go/printer re-indents the continuation lines of a multi-line block comment
			out = append(out, scanItem{"com", contIndentRe.ReplaceAllString(strings.TrimRight(lit, "\r\n"), "\n")})
		case tok == token.SEMICOLON:
			out = append(out, scanItem{"tok", ";"})
		case tok.IsLiteral():
			out = append(out, scanItem{"str", lit})
		default:
			out = append(out, scanItem{"tok", tok.String()})
		}
	}
	if len(errs) > 0 {
		return out, fmt.Errorf("%s", errs[0])
	}
	return out, nil
}

var contIndentRe = regexp.MustCompile(`\n[ \t]*`)

type decOverride struct {
	N int      `json:"n"`
	P string   `json:"p"`
	D []string `json:"d"`
}

// miniFiles splits the template into small files: one per top-level declaration, and one per
// statement of the big function body, so that exported trees stay small.
func miniFiles(src []byte) ([]*dst.File, error) {
	f, err := decorator.Parse(src)
	if err != nil {
		return nil, err
	}
	var out []*dst.File
	mk := func(d dst.Decl) *dst.File {
		return &dst.File{Name: dst.NewIdent("p"), Decls: []dst.Decl{d}}
	}
	for _, d := range f.Decls {
		if fd, ok := d.(*dst.FuncDecl); ok && fd.Body != nil && len(fd.Body.List) > 8 {
			for _, st := range fd.Body.List {
				out = append(out, mk(&dst.FuncDecl{Name: dst.NewIdent("f"), Type: &dst.FuncType{Params: &dst.FieldList{Opening: true, Closing: true}}, Body: &dst.BlockStmt{List: []dst.Stmt{st}}}))
			}
			continue
		}
		out = append(out, mk(d))
	}
	return out, nil
}

// setPoint writes decorations to the named point of a node through reflection (Decs.<Point>).
func setPoint(n dst.Node, point string, decs []string) bool {
	v := reflect.ValueOf(n).Elem().FieldByName("Decs")
	if !v.IsValid() {
		return false
	}
	var f reflect.Value
	if point == "Start" || point == "End" {
		f = v.FieldByName("NodeDecs").FieldByName(point)
	} else {
		f = v.FieldByName(point)
	}
	if !f.IsValid() {
		return false
	}
	f.Set(reflect.ValueOf(dst.Decorations(append([]string{}, decs...))))
	return true
}

func stripDecs(f *dst.File) {
	dst.Inspect(f, func(n dst.Node) bool {
		if n == nil {
			return false
		}
		v := reflect.ValueOf(n).Elem().FieldByName("Decs")
		if v.IsValid() {
			v.Set(reflect.Zero(v.Type()))
		}
		return true
	})
}

func printFile(f *dst.File) (string, string) {
	var buf bytes.Buffer
	var err error
	if msg := guard(func() { err = decorator.Fprint(&buf, f) }); msg != "" {
		return "", msg
	}
	if err != nil {
		return "", "error: " + err.Error()
	}
	return buf.String(), ""
}

func templateSrc() ([]byte, error) {
	return os.ReadFile(filepath.Join(verifRoot(), "corpus", "template", "template.go"))
}

func checkC04(c *Ctx) {
	c.Assume("go/scanner tokenises the printed text; go/printer emits the ast's tokens in position order and adds only ',' ';' and line breaks")
	c.Assume("the frozen NodeSchema table is the documented attachment-point contract")
	src, err := templateSrc()
	if err != nil {
		c.Infra(err.Error())
		return
	}
	minis, err := miniFiles(src)
	if err != nil {
		c.Infra("template does not parse: " + err.Error())
		return
	}
	nMini := len(minis)
	perMini := 40
	if !c.Quick() {
		perMini = 1 << 30
	}
	items := make([]traceItem, nMini)
	seeds := make([]int64, nMini)
	r0 := rand.New(rand.NewSource(c.Seed))
	for i := range seeds {
		seeds[i] = r0.Int63()
	}
	parallel(nMini, func(i int) {
		ms, err := miniFiles(src) // private copy for this worker
		if err != nil {
			return
		}
		items[i] = c04Record(c, i, ms[i], rand.New(rand.NewSource(seeds[i])), perMini)
	})
	// the same fragments with multi-byte text in every identifier and string literal: positions are byte
	// offsets, and a comment behind a token go/printer emits without a position of its own (the dot of a
	// selector, a closing bracket, the semicolons of a for clause) is placed by what precedes it
	mbItems := make([]traceItem, nMini)
	parallel(nMini, func(i int) {
		if i%3 != 0 && c.Quick() {
			return
		}
		ms, err := miniFiles(src)
		if err != nil {
			return
		}
		multiByteNames(ms[i])
		mbItems[i] = c04Record(c, c04MultiByte+i, ms[i], rand.New(rand.NewSource(seeds[i]+1)), perMini/2)
	})
	items = append(items, mbItems...)
	// one FileRestorer for several files, every file printed only after all have been restored: each
	// file still renders exactly its own decorations (what a restore returns may not change afterwards)
	c04Reuse(c, src, r0)
	c04Imports(c)
	c04Extras(c, src)
	c04Handover(c)
	c04Copied(c)
	// listing helper + accessor, once per node type that occurs
	pts := &ndjson{}
	seenType := map[string]bool{}
	full, _ := decorator.Parse(src)
	dst.Inspect(full, func(n dst.Node) bool {
		if n == nil {
			return false
		}
		t := typeName(n)
		if !seenType[t] {
			seenType[t] = true
			_, _, points := dstutil.Decorations(n)
			names := []string{}
			for _, p := range points {
				names = append(names, p.Name)
			}
			pts.Add(obj{"ev": "points", "type": t, "names": names})
			if msg := c04Accessor(n); msg != "" {
				c.Fail(Finding{Sig: "decs-accessor", Input: t, What: msg, Replay: obj{"kind": "c04acc", "type": t}})
			}
			c.Eval("points|"+t, true)
		}
		return true
	})
	c.Set("node_types_covered", len(seenType))
	var its []traceItem
	for _, it := range items {
		if it.Trace != nil {
			its = append(its, it)
		}
	}
	its = append(its, traceItem{Key: "points", Trace: pts.Bytes(), Events: pts.Len(), Replay: obj{"kind": "c04", "mini": -1}})
	c.Traces(int64(len(its)))
	ev := validateTraces(c, "RenderTrace", renderTraceCfg, its, 4000, false, func(it traceItem, res *TLCResult) {
		c.Fail(Finding{Sig: "render-order", Input: it.Key, What: rejectText(res) + " OBSERVED " + offendingEvent(it, res) + c04Expected(res), Replay: it.Replay})
	})
	c.Set("trace_events", ev)
	c.Set("rule", "case = one print of a template fragment with markers on a chosen set of decoration points (all at once, each point singly as block / line / newline decoration, random pairs, and on a tree stripped of all spacing); non-trivial = at least one marker; distinct by fragment + marker assignment")
}

// c04Accessor: Decorations() is backed by the node's own storage.
func c04Accessor(n dst.Node) string {
	nd := n.Decorations()
	if nd == nil {
		if _, ok := n.(*dst.Package); ok {
			return ""
		}
		return fmt.Sprintf("%T.Decorations() is nil", n)
	}
	save := *nd
	defer func() { *nd = save }()
	nd.Start = dst.Decorations{"/*acc*/"}
	nd.Before = dst.EmptyLine
	v := reflect.ValueOf(n).Elem().FieldByName("Decs").FieldByName("NodeDecs").Interface().(dst.NodeDecs)
	if len(v.Start) != 1 || v.Start[0] != "/*acc*/" || v.Before != dst.EmptyLine {
		return fmt.Sprintf("%T.Decorations() does not alias Decs.NodeDecs", n)
	}
	return ""
}

func c04Record(c *Ctx, idx int, f *dst.File, r *rand.Rand, maxCases int) traceItem {
	out := &ndjson{}
	type pt struct {
		n    dst.Node
		id   int
		name string
	}
	emitTree := func() []pt {
		tree, ids := ExportDst(f)
		out.Add(obj{"ev": "tree", "tree": tree})
		var pts []pt
		for _, n := range dstNodesByID(ids) {
			for _, d := range tree.Nodes[ids[n]-1].Decs {
				pts = append(pts, pt{n, ids[n], d.P})
			}
		}
		return pts
	}
	pts := emitTree()
	hasImport := false
	dst.Inspect(f, func(n dst.Node) bool {
		if _, ok := n.(*dst.ImportSpec); ok {
			hasImport = true
		}
		return true
	})
	key := fmt.Sprintf("template-fragment-%d", idx)
	if idx >= c04MultiByte {
		key = fmt.Sprintf("template-fragment-%d(multi-byte names)", idx-c04MultiByte)
	}
	cases := 0
	run := func(sel []int, kind string, label string) {
		// place markers, print, restore
		saved := map[int][]string{}
		var ov []decOverride
		for _, pi := range sel {
			p := pts[pi]
			var old []string
			v := reflect.ValueOf(p.n).Elem().FieldByName("Decs")
			if p.name == "Start" || p.name == "End" {
				old = v.FieldByName("NodeDecs").FieldByName(p.name).Interface().(dst.Decorations)
			} else {
				old = v.FieldByName(p.name).Interface().(dst.Decorations)
			}
			saved[pi] = old
			var d []string
			switch kind {
			case "block":
				d = []string{fmt.Sprintf("/*M%d.%s*/", p.id, p.name)}
			case "line":
				d = []string{fmt.Sprintf("// M%d.%s", p.id, p.name)}
			case "newline":
				d = []string{"\n"}
			case "multiline":
				d = []string{fmt.Sprintf("/*\nM%d.%s\ncontinued\n*/", p.id, p.name)}
			case "mixed":
				d = []string{fmt.Sprintf("/*M%d.%s.a*/", p.id, p.name), "\n", fmt.Sprintf("/*M%d.%s.b*/", p.id, p.name)}
			}
			setPoint(p.n, p.name, d)
			ov = append(ov, decOverride{p.id, p.name, d})
		}
		text, msg := printFile(f)
		var pitems []posItem
		if msg == "" {
			// the same tree through a restorer whose file set already holds a file: what is rendered may
			// not depend on where in the file set the file lands
			var b2 bytes.Buffer
			var e2 error
			pre := decorator.NewRestorer()
			pre.Fset = token.NewFileSet()
			pre.Fset.AddFile("earlier.go", -1, 1234)
			m2 := guard(func() { e2 = pre.Fprint(&b2, f) })
			if m2 != "" || e2 != nil || b2.String() != text {
				c.Eval(fmt.Sprintf("%s|%s|%s|fileset", key, kind, label), true)
				c.Fail(Finding{Sig: "render-depends-on-fileset", Input: fmt.Sprintf("%s|%s|%s", key, kind, label), What: fmt.Sprintf("a restorer whose file set already holds a file prints differently (%s %v):\n%s\nfresh restorer:\n%s", m2, e2, truncate(b2.String(), 400), truncate(text, 400)), Replay: obj{"kind": "c04", "mini": idx}})
			}
		}
		if msg == "" {
			// restore once more to look at the positions the restorer assigned
			_, ids := ExportDst(f)
			rr := decorator.NewRestorer()
			if m2 := guard(func() {
				af, err := rr.RestoreFile(f)
				if err == nil {
					pitems = restoredPosItems(rr, af, ids)
				}
			}); m2 != "" {
				msg = m2
			}
		}
		for pi, old := range saved {
			setPoint(pts[pi].n, pts[pi].name, old)
		}
		ck := fmt.Sprintf("%s|%s|%s", key, kind, label)
		if strings.HasPrefix(msg, "panic") {
			c.Eval(ck, true)
			c.Fail(Finding{Sig: "render-panic", Input: ck, What: msg, Replay: obj{"kind": "c04", "mini": idx}})
			return
		}
		if msg != "" {
			c.Add("inapplicable_cases", 1) // go/format refuses the tree (e.g. a line comment swallowed a token)
			return
		}
		its, err := scanItems([]byte(text))
		if err != nil {
			c.Add("inapplicable_cases", 1)
			return
		}
		if kind == "multiline" && strings.Contains(text, "//*") {
			// go/printer writes a multi-line comment that precedes a '/' operator behind the operator,
			// without a blank between them: "//*" starts a line comment (go/printer's doing, with or without dst)
			c.Add("inapplicable_cases", 1)
			return
		}
		c.Eval(ck, len(sel) > 0)
		cases++
		if ov == nil {
			ov = []decOverride{}
		}
		if pitems == nil {
			pitems = []posItem{}
		}
		out.Add(obj{"ev": "case", "ov": ov, "items": its, "pitems": pitems, "kind": kind, "strict": (kind == "block" || kind == "mixed" || kind == "multiline") && !hasImport, "printed": !hasImport && kind != "line"})
		if idx%17 == 0 && cases == 3 {
			c.Sample(obj{"fragment": idx, "markers": ov, "printed": truncate(text, 300)})
		}
	}
	all := make([]int, len(pts))
	for i := range all {
		all[i] = i
	}
	run(nil, "block", "none")
	run(all, "block", "all")
	order := r.Perm(len(pts))
	budget := maxCases
	for _, pi := range order {
		if budget <= 0 {
			break
		}
		run([]int{pi}, "block", fmt.Sprint(pi))
		run([]int{pi}, "line", fmt.Sprint(pi))
		run([]int{pi}, "newline", fmt.Sprint(pi))
		run([]int{pi}, "multiline", fmt.Sprint(pi))
		budget -= 4
	}
	for k := 0; k < 6 && len(pts) > 1; k++ {
		a, b := r.Intn(len(pts)), r.Intn(len(pts))
		if a != b {
			run([]int{a, b}, "mixed", fmt.Sprintf("%d+%d", a, b))
		}
	}
	// hand-built flavour: no spacing, no decorations from the decorator at all
	stripDecs(f)
	pts = emitTree()
	run(nil, "block", "stripped-none")
	run(all, "block", "stripped-all")
	for k := 0; k < 8 && len(pts) > 0; k++ {
		run([]int{r.Intn(len(pts))}, "block", fmt.Sprintf("stripped-%d", k))
	}
	return traceItem{Key: key, Trace: out.Bytes(), Events: out.Len(), Replay: obj{"kind": "c04", "mini": idx}}
}

func init() {
	replayers["c04"] = func(raw json.RawMessage) string {
		var r struct {
			Mini int `json:"mini"`
		}
		json.Unmarshal(raw, &r)
		src, err := templateSrc()
		if err != nil {
			return "harness: " + err.Error()
		}
		ms, err := miniFiles(src)
		mi := r.Mini
		if mi >= c04MultiByte {
			mi -= c04MultiByte
		}
		if err != nil || mi < 0 || mi >= len(ms) {
			return "harness: bad fragment"
		}
		if r.Mini >= c04MultiByte {
			multiByteNames(ms[mi])
		}
		c := newCtx("C04", "thorough", 1, "model_checking")
		it := c04Record(c, r.Mini, ms[mi], rand.New(rand.NewSource(1)), 1<<30)
		msg := ""
		validateTraces(c, "RenderTrace", renderTraceCfg, []traceItem{it}, 1<<30, false, func(it traceItem, res *TLCResult) {
			msg = rejectText(res) + " OBSERVED " + offendingEvent(it, res) + c04Expected(res)
		})
		if msg == "" && len(c.findings) > 0 {
			msg = c.findings[0].What
		}
		return msg
	}
}

func c04Expected(res *TLCResult) string {
	if p := res.Payloads("EXPECTED "); len(p) > 0 {
		return " EXPECTED (schema) " + truncate(p[len(p)-1], diagLen())
	}
	return ""
}

// c04Reuse restores groups of marked template fragments with one FileRestorer and prints them afterwards.
func c04Reuse(c *Ctx, src []byte, r *rand.Rand) {
	groups := 12
	if !c.Quick() {
		groups = 120
	}
	for g := 0; g < groups; g++ {
		ms, err := miniFiles(src)
		if err != nil {
			return
		}
		k := 2 + r.Intn(2)
		var files []*dst.File
		var idx []int
		for j := 0; j < k; j++ {
			i := r.Intn(len(ms))
			f := ms[i]
			ms[i] = nil
			if f == nil {
				continue
			}
			// a marker comment in front of and behind the first declaration
			d := f.Decls[0].Decorations()
			d.Start.Prepend(fmt.Sprintf("// S%d.%d", g, j))
			d.End.Append("\n", fmt.Sprintf("// E%d.%d", g, j))
			files = append(files, f)
			idx = append(idx, i)
		}
		key := fmt.Sprintf("reused-FileRestorer|fragments %v", idx)
		c.Eval(key, true)
		// reference: every file printed by its own restorer
		var want []string
		for _, f := range files {
			t, msg := printFile(dst.Clone(f).(*dst.File))
			if msg != "" {
				want = nil
				break
			}
			want = append(want, t)
		}
		if want == nil {
			c.Add("inapplicable_cases", 1)
			continue
		}
		fr := decorator.NewRestorer().FileRestorer()
		var afs []*ast.File
		msg := guard(func() {
			for _, f := range files {
				af, err := fr.RestoreFile(f)
				if err != nil {
					panic(err)
				}
				afs = append(afs, af)
			}
		})
		if msg != "" {
			c.Fail(Finding{Sig: "render-panic", Input: key, What: "one FileRestorer for several files: " + msg, Replay: obj{"kind": "none"}})
			continue
		}
		for j, af := range afs {
			var buf bytes.Buffer
			if err := format.Node(&buf, fr.Fset, af); err != nil || buf.String() != want[j] {
				c.Fail(Finding{Sig: "render-depends-on-later-restores", Input: key, What: fmt.Sprintf("file %d of %d restored by one FileRestorer, printed after the others were restored (%v):\n%s\nits own restorer prints:\n%s", j+1, len(afs), err, truncate(buf.String(), 500), truncate(want[j], 500)), Replay: obj{"kind": "none"}})
				break
			}
		}
	}
}

// c04Imports: decorations of an import spec and of its alias identifier when import management
// changes the alias (FileRestorer.Alias) or leaves it alone: every marker is rendered exactly once.
func c04Imports(c *Ctx) {
	srcs := []string{
		"package p\n\nimport f \"fmt\"\n\nvar _ = f.Sprint()\n",
		"package p\n\nimport (\n\tf \"fmt\"\n\to \"os\"\n)\n\nvar _ = f.Sprint(o.Args)\n",
		"package p\n\nimport (\n\t\"fmt\"\n\to \"os\"\n)\n\nvar _ = fmt.Sprint(o.Args)\n",
	}
	overrides := []map[string]string{{}, {"fmt": "format"}, {"os": "sys"}, {"fmt": "format", "os": "sys"}, {"fmt": "f"}}
	for si, src := range srcs {
		for oi, ov := range overrides {
			key := fmt.Sprintf("import-decorations|source-%d|override-%d", si, oi)
			f, err := decorator.NewDecoratorWithImports(token.NewFileSet(), "example.com/p", goast.New()).Parse(src)
			if err != nil {
				c.Infra("c04Imports: " + err.Error())
				return
			}
			var want []string
			k := 0
			mark := func(d *dst.Decorations, name string) {
				k++
				m := fmt.Sprintf("/*I%d.%s*/", k, name)
				d.Append(m)
				want = append(want, m)
			}
			for _, s := range f.Decls[0].(*dst.GenDecl).Specs {
				is := s.(*dst.ImportSpec)
				mark(&is.Decs.Start, "spec.Start")
				if is.Name != nil {
					mark(&is.Name.Decs.Start, "alias.Start")
					mark(&is.Name.Decs.End, "alias.End")
					mark(&is.Decs.Name, "spec.Name")
				}
				mark(&is.Path.Decs.Start, "path.Start")
				mark(&is.Path.Decs.End, "path.End")
				mark(&is.Decs.End, "spec.End")
			}
			fr := decorator.NewRestorerWithImports("example.com/p", guess.New()).FileRestorer()
			for p, a := range ov {
				fr.Alias[p] = a
			}
			var buf bytes.Buffer
			var perr error
			msg := guard(func() { perr = fr.Fprint(&buf, f) })
			c.Eval(key, len(ov) > 0)
			if msg != "" || perr != nil {
				c.Fail(Finding{Sig: "render-panic", Input: key, What: fmt.Sprintf("import-managed print with alias overrides %v: %s %v", ov, msg, perr), Replay: obj{"kind": "none"}})
				continue
			}
			out := buf.String()
			for _, m := range want {
				if n := strings.Count(out, m); n != 1 {
					c.Fail(Finding{Sig: "import-decoration-not-rendered-once", Input: key, What: fmt.Sprintf("alias overrides %v: %s is rendered %d times:\n%s", ov, m, n, out), Replay: obj{"kind": "none"}})
					break
				}
			}
		}
	}
}

// c04Extras: declarations replaced by their clones (identifiers elsewhere still point at the old ones
// through Obj.Decl), printed by a restorer that also restores objects and scopes: every decoration of the
// tree is rendered exactly once -- none of the replaced declarations' comments comes back.
func c04Extras(c *Ctx, src []byte) {
	c04ExtrasOn(c, "template", src)
	// declarations that refer to each other (functions, variables, types, constants, labels)
	c04ExtrasOn(c, "cross-references", []byte("package p\n\n// helper doc\nfunc helper(a int /* arg */) int {\n\t// body\n\treturn a + limit // ret\n}\n\n// limit doc\nconst limit = 10 // limit trail\n\n// T doc\ntype T struct {\n\tnext *T // next\n}\n\n// v doc\nvar v = helper(1) /* v trail */\n\nfunc main() {\n\t/* call */ helper(v)\n\tvar t T // local\n\t_ = t.next\n}\n"))
}

func c04ExtrasOn(c *Ctx, name string, src []byte) {
	f, err := decorator.Parse(src)
	if err != nil {
		c.Infra(err.Error())
		return
	}
	n := 0
	for i, d := range f.Decls {
		if _, ok := d.(*dst.FuncDecl); ok || i%3 == 0 || name != "template" {
			if gd, isGen := d.(*dst.GenDecl); isGen && gd.Tok == token.IMPORT {
				continue
			}
			cl := dst.Clone(d).(dst.Decl)
			cl.Decorations().Start.Prepend(fmt.Sprintf("// X%d", n))
			f.Decls[i] = cl
			n++
		}
	}
	c.Eval("extras|"+name+" with declarations replaced by clones", true)
	plain, msg := printFile(dst.Clone(f).(*dst.File))
	if msg != "" {
		c.Infra("c04Extras: " + msg)
		return
	}
	var buf bytes.Buffer
	var perr error
	m2 := guard(func() {
		r := decorator.NewRestorer()
		r.Extras = true
		perr = r.Fprint(&buf, f)
	})
	if m2 != "" || perr != nil || buf.String() != plain {
		c.Fail(Finding{Sig: "render-with-extras-differs", Input: "extras|" + name, What: fmt.Sprintf("%s with %d declarations replaced by clones prints differently with Restorer.Extras (%s %v): %s", name, n, m2, perr, diffAt([]byte(plain), buf.Bytes())), Replay: obj{"kind": "none"}})
	}
}

// c04Handover: the decorations of a point are handed to the same point of another node by assignment
// (the documented way of moving them), the point they came from is cleared and filled again. What was
// handed over is still rendered at its new node, the new text at the old one, nothing twice.
// c04Copied: decorations COPIED to another node through the list operations (Prepend / Append / Replace
// with the other list's elements as arguments); an element of the source list is then overwritten in
// place. The copy is the other node's own storage: it still renders what was copied.
func c04Copied(c *Ctx) {
	src := "package p\n\nfunc a() {} // one\n\nfunc b() {}\n\nfunc d() {}\n"
	ops := map[string]func(dst, from *dst.Decorations){
		"Prepend": func(d, from *dst.Decorations) { d.Prepend(from.All()...) },
		"Append":  func(d, from *dst.Decorations) { d.Append(from.All()...) },
		"Replace": func(d, from *dst.Decorations) { d.Replace(from.All()...) },
	}
	for name, op := range ops {
		for _, target := range []string{"Start", "End"} {
			f, err := decorator.Parse(src)
			if err != nil {
				c.Infra("copied-decorations source does not parse")
				return
			}
			from := &f.Decls[0].Decorations().End
			to := &f.Decls[1].Decorations().Start
			if target == "End" {
				to = &f.Decls[1].Decorations().End
			}
			op(to, from)
			key := "copied|" + name + "|" + target
			c.Eval(key, true)
			(*from)[0] = "// uno"
			out, perr := printFile(f)
			if perr != "" {
				c.Fail(Finding{Sig: "handover-print-fails", Input: key, What: perr, Replay: obj{"kind": "none"}})
				continue
			}
			if len(to.All()) != 1 || to.All()[0] != "// one" || strings.Count(out, "// one") != 1 || strings.Count(out, "// uno") != 1 {
				c.Fail(Finding{Sig: "copied-decorations-change", Input: key, What: fmt.Sprintf("after %s of another node's list and an in-place write to that list, the copy holds %q and the file prints\n%s", name, to.All(), out), Replay: obj{"kind": "none"}})
			}
		}
	}
}

func c04Handover(c *Ctx) {
	src := "package p\n\n// Old does things.\n// It is documented on three lines\n// so that the list has spare capacity.\nfunc Old() {} // old trail\n\nfunc New() {}\n\n// V is a variable.\nvar V = 1 // v trail\n\nvar W = 2\n"
	refill := map[string]func(d *dst.Decorations){
		"Append":  func(d *dst.Decorations) { d.Append("// Deprecated: use the other one.") },
		"Prepend": func(d *dst.Decorations) { d.Prepend("// Deprecated: use the other one.") },
		"Replace": func(d *dst.Decorations) { d.Replace("// Deprecated: use the other one.") },
	}
	for _, pair := range [][2]int{{0, 1}, {2, 3}} {
		for _, point := range []string{"Start", "End"} {
			for name, fill := range refill {
				f, err := decorator.Parse(src)
				if err != nil {
					c.Infra("handover source does not parse: " + err.Error())
					return
				}
				from, to := f.Decls[pair[0]].Decorations(), f.Decls[pair[1]].Decorations()
				a, b := &from.Start, &to.Start
				if point == "End" {
					a, b = &from.End, &to.End
				}
				handed := append([]string{}, a.All()...)
				*b = *a
				a.Clear()
				fill(a)
				key := fmt.Sprintf("handover|decl %d -> %d|%s|%s", pair[0], pair[1], point, name)
				c.Eval(key, true)
				if strings.Join(b.All(), "\x00") != strings.Join(handed, "\x00") || len(a.All()) != 1 {
					c.Fail(Finding{Sig: "handed-over-decorations-change", Input: key, What: fmt.Sprintf("after handing %q over, clearing the old point and %s: the new point holds %q, the old one %q", handed, name, b.All(), a.All()), Replay: obj{"kind": "none"}})
					continue
				}
				out, perr := printFile(f)
				if perr != "" {
					c.Fail(Finding{Sig: "handover-print-fails", Input: key, What: perr, Replay: obj{"kind": "none"}})
					continue
				}
				for _, want := range append(append([]string{}, handed...), "// Deprecated: use the other one.") {
					if want == "\n" {
						continue
					}
					if n := strings.Count(out, want); n != 1 {
						c.Fail(Finding{Sig: "handed-over-decorations-change", Input: key, What: fmt.Sprintf("%q is printed %d times:\n%s", want, n, out), Replay: obj{"kind": "none"}})
						break
					}
				}
			}
		}
	}
}

const c04MultiByte = 100000

// multiByteNames gives every identifier and every interpreted string literal of the tree multi-byte text
// (syntax only: the fragments are printed, not type-checked).
func multiByteNames(f *dst.File) {
	dst.Inspect(f, func(n dst.Node) bool {
		switch x := n.(type) {
		case *dst.ImportSpec:
			return false
		case *dst.Ident:
			if x.Name != "_" && x.Path == "" {
				x.Name += "ä日"
			}
		case *dst.BasicLit:
			if x.Kind == token.STRING && strings.HasPrefix(x.Value, "\"") && len(x.Value) >= 2 {
				x.Value = x.Value[:len(x.Value)-1] + "äöü日本" + "\""
			}
		}
		return true
	})
}
