package main

import (
	"bytes"
	"encoding/json"
	"fmt"
	"go/ast"
	"go/parser"
	"go/scanner"
	"go/token"
	"path/filepath"
	"reflect"
	"regexp"
	"sort"
	"strings"
	"time"

	"github.com/dave/dst"
	"github.com/dave/dst/decorator"
)

func init() { register("C18", "model_checking", checkC18) }

const objectsTraceCfg = `INIT TInit
NEXT TNext
INVARIANTS SharingIso ObjectsCarried ScopesCarried PackageSame ReachCarried
POSTCONDITION Accepted
CHECK_DEADLOCK FALSE
`

type gObj struct {
	Kind      string `json:"kind"`
	Name      string `json:"name"`
	Decl      int    `json:"decl"`
	DeclScope int    `json:"declScope"`
	Data      string `json:"data"`
	DataNode  int    `json:"dataNode"`
}

type gScope struct {
	Outer   int      `json:"outer"`
	Names   []string `json:"names"`
	Members []int    `json:"members"`
}

type graph struct {
	Idents    []int    `json:"idents"`
	Objs      []gObj   `json:"objs"`
	Scopes    []gScope `json:"scopes"`
	FileScope int      `json:"fileScope"`
	objID     map[interface{}]int
	scopeID   map[interface{}]int
}

// exportGraph walks identifiers (in tree id order) and scopes of an ast or dst file by reflection:
// *Object{Kind,Name,Decl,Data} and *Scope{Outer,Objects} have the same shape in both packages.
func exportGraph(root interface{}, nodeID func(n interface{}) int, nodes []interface{}) *graph {
	g := &graph{objID: map[interface{}]int{}, scopeID: map[interface{}]int{}, Idents: make([]int, len(nodes)), Objs: []gObj{}, Scopes: []gScope{}}
	var objOf func(o reflect.Value) int
	var scopeOf func(s reflect.Value) int
	scopeOf = func(s reflect.Value) int {
		if !s.IsValid() || s.IsNil() {
			return 0
		}
		if id, ok := g.scopeID[s.Interface()]; ok {
			return id
		}
		id := len(g.Scopes) + 1
		g.scopeID[s.Interface()] = id
		g.Scopes = append(g.Scopes, gScope{})
		sc := gScope{Names: []string{}, Members: []int{}}
		sc.Outer = scopeOf(s.Elem().FieldByName("Outer"))
		m := s.Elem().FieldByName("Objects")
		for _, k := range m.MapKeys() {
			sc.Names = append(sc.Names, k.String())
		}
		sort.Strings(sc.Names)
		for _, n := range sc.Names {
			sc.Members = append(sc.Members, objOf(m.MapIndex(reflect.ValueOf(n))))
		}
		g.Scopes[id-1] = sc
		return id
	}
	objOf = func(o reflect.Value) int {
		if !o.IsValid() || o.IsNil() {
			return 0
		}
		if id, ok := g.objID[o.Interface()]; ok {
			return id
		}
		id := len(g.Objs) + 1
		g.objID[o.Interface()] = id
		g.Objs = append(g.Objs, gObj{})
		e := o.Elem()
		ob := gObj{Kind: fmt.Sprint(e.FieldByName("Kind").Interface()), Name: e.FieldByName("Name").String(), Data: "nil"}
		if d := e.FieldByName("Decl"); !d.IsNil() {
			dv := d.Elem()
			if strings.HasSuffix(dv.Type().String(), ".Scope") {
				ob.Decl, ob.DeclScope = -2, scopeOf(dv)
			} else {
				ob.Decl = nodeID(dv.Interface())
				if ob.Decl == 0 {
					ob.Decl = -1 // a declaration node that is not part of the tree
				}
			}
		}
		if d := e.FieldByName("Data"); !d.IsNil() {
			dv := d.Elem()
			switch {
			case dv.Kind() == reflect.Int:
				ob.Data = fmt.Sprintf("int:%d", dv.Int())
			case strings.HasSuffix(dv.Type().String(), ".Scope"):
				ob.Data = "scope"
				scopeOf(dv)
			default:
				ob.Data = "node"
				ob.DataNode = nodeID(dv.Interface())
				if ob.DataNode == 0 {
					ob.DataNode = -1
				}
			}
		}
		g.Objs[id-1] = ob
		return id
	}
	for i, n := range nodes {
		v := reflect.ValueOf(n)
		if v.Kind() == reflect.Ptr && strings.HasSuffix(v.Type().String(), ".Ident") {
			g.Idents[i] = objOf(v.Elem().FieldByName("Obj"))
		}
	}
	g.FileScope = scopeOf(reflect.ValueOf(root).Elem().FieldByName("Scope"))
	return g
}

func astNodesByID(m map[ast.Node]int) []interface{} {
	out := make([]interface{}, len(m))
	for n, id := range m {
		out[id-1] = n
	}
	return out
}

func dstNodesByIDI(m map[dst.Node]int) []interface{} {
	out := make([]interface{}, len(m))
	for n, id := range m {
		out[id-1] = n
	}
	return out
}

func pairsOf(m reflect.Value, from, to map[interface{}]int) [][2]int {
	out := [][2]int{}
	for _, k := range m.MapKeys() {
		a, b := from[k.Interface()], to[m.MapIndex(k).Interface()]
		if a != 0 || b != 0 {
			out = append(out, [2]int{a, b})
		}
	}
	sort.Slice(out, func(i, j int) bool { return out[i][0] < out[j][0] || out[i][0] == out[j][0] && out[i][1] < out[j][1] })
	return out
}

var rePosPrefix = regexp.MustCompile(`^[^ ]*:\d+:\d+: `)

func normErrs(err error) []string {
	out := []string{}
	if err == nil {
		return out
	}
	if el, ok := err.(scanner.ErrorList); ok {
		for _, e := range el {
			msg := e.Msg
			if i := strings.Index(msg, "\n"); i >= 0 {
				msg = msg[:i]
			}
			out = append(out, msg)
		}
	} else {
		for _, l := range strings.Split(err.Error(), "\n") {
			out = append(out, rePosPrefix.ReplaceAllString(l, ""))
		}
	}
	sort.Strings(out)
	return out
}

func scopeNames(s reflect.Value) []string {
	out := []string{}
	if !s.IsValid() || s.IsNil() {
		return out
	}
	for _, k := range s.Elem().FieldByName("Objects").MapKeys() {
		out = append(out, k.String())
	}
	sort.Strings(out)
	return out
}

// c18File: decorate (object resolution on) and restore with Extras; both graph pairs.
func c18File(c *Ctx, path string, src []byte, out *ndjson) {
	c18FileMode(c, path, src, out, false)
	if bytes.Contains(src, []byte("import")) {
		c18FileMode(c, path, src, out, true)
	}
}

// resolved: ast.NewPackage has run on the file with an importer, so identifiers that name an imported
// package are bound to package objects whose Data is the imported package's scope
func c18FileMode(c *Ctx, path string, src []byte, out *ndjson, resolved bool) {
	fset := token.NewFileSet()
	af, err := parser.ParseFile(fset, path, src, parser.ParseComments)
	if err != nil {
		return
	}
	if resolved {
		imp := func(imports map[string]*ast.Object, p string) (*ast.Object, error) {
			if o := imports[p]; o != nil {
				return o, nil
			}
			name := p
			if i := strings.LastIndex(p, "/"); i >= 0 {
				name = p[i+1:]
			}
			o := ast.NewObj(ast.Pkg, name)
			sc := ast.NewScope(nil)
			sc.Insert(ast.NewObj(ast.Var, "Exported"))
			sc.Insert(ast.NewObj(ast.Fun, "New"))
			o.Data = sc
			imports[p] = o
			return o, nil
		}
		ast.NewPackage(fset, map[string]*ast.File{path: af}, imp, nil)
		path += "|resolved-with-importer"
	}
	d := decorator.NewDecorator(fset)
	var df *dst.File
	if msg := guard(func() { df, err = d.DecorateFile(af) }); msg != "" || err != nil {
		return
	}
	at, aids := ExportAst(af)
	dt, dids := ExportDst(df)
	if len(at.Nodes) != len(dt.Nodes) {
		c.Add("shape_differs", 1)
		return
	}
	aid := func(n interface{}) int { return aids[n.(ast.Node)] }
	did := func(n interface{}) int { return dids[n.(dst.Node)] }
	ga := exportGraph(af, aid, astNodesByID(aids))
	gd := exportGraph(df, did, dstNodesByIDI(dids))
	out.Add(obj{"side": "decorate", "a": ga, "b": gd,
		"omap": pairsOf(reflect.ValueOf(d.Dst.Objects), ga.objID, gd.objID), "smap": pairsOf(reflect.ValueOf(d.Dst.Scopes), ga.scopeID, gd.scopeID), "file": path})
	c.Eval("decorate|"+path, len(ga.Objs) > 0)
	// restore with Extras
	r := decorator.NewRestorer()
	r.Extras = true
	var raf *ast.File
	if msg := guard(func() { raf, err = r.RestoreFile(df) }); msg != "" {
		c.Fail(Finding{Sig: "extras-restore-panics", Input: path, What: msg, Replay: obj{"kind": "c18", "path": path}})
		return
	}
	if err != nil {
		return
	}
	rt, rids := ExportAst(raf)
	if len(rt.Nodes) != len(dt.Nodes) {
		c.Add("shape_differs", 1)
		return
	}
	rid := func(n interface{}) int { return rids[n.(ast.Node)] }
	gr := exportGraph(raf, rid, astNodesByID(rids))
	gd2 := exportGraph(df, did, dstNodesByIDI(dids))
	out.Add(obj{"side": "restore", "a": gd2, "b": gr,
		"omap": pairsOf(reflect.ValueOf(r.Ast.Objects), gd2.objID, gr.objID), "smap": pairsOf(reflect.ValueOf(r.Ast.Scopes), gd2.scopeID, gr.scopeID), "file": path})
	c.Eval("restore|"+path, len(gd2.Objs) > 0)
}

// c18Package: ast.NewPackage on the originals vs dst.NewPackage on the decorated files.
// mode: "" (nil importer, nil universe), "universe" (a universe scope with the predeclared types, nil
// importer: every import fails), "importer" (universe + an importer that knows fmt and fails on others)
func c18Package(c *Ctx, key string, srcs map[string][]byte, out *ndjson) {
	for _, mode := range []string{"", "universe", "importer", "importer+C"} {
		c18PackageMode(c, key, srcs, out, mode)
	}
}

func c18PackageMode(c *Ctx, key string, srcs map[string][]byte, out *ndjson, mode string) {
	if mode != "" {
		key += "|" + mode
	}
	fset := token.NewFileSet()
	afiles := map[string]*ast.File{}
	dfiles := map[string]*dst.File{}
	unresolved := map[string][]*ast.Ident{}
	d := decorator.NewDecorator(fset)
	for name, src := range srcs {
		af, err := parser.ParseFile(fset, name, src, parser.ParseComments)
		if err != nil {
			return
		}
		var df *dst.File
		if msg := guard(func() { df, err = d.DecorateFile(af) }); msg != "" || err != nil {
			return
		}
		// the corresponding unresolved-identifier list
		unresolved[name] = append([]*ast.Ident{}, af.Unresolved...)
		afiles[name], dfiles[name] = af, df
	}
	// both builders iterate over a map of files, so which file "wins" a conflict is not determined:
	// the sets of possible outcomes (package scope + reports) over repeated runs are compared
	outcomesA, outcomesB := map[string]bool{}, map[string]bool{}
	var aerr error
	sameSets := func() bool {
		if len(outcomesA) != len(outcomesB) {
			return false
		}
		for k := range outcomesA {
			if !outcomesB[k] {
				return false
			}
		}
		return true
	}
	// (the rarest iteration order of a small Go map comes up about once in eight runs: 40 runs alone would
	// leave a chance of about 1% per package that one side never shows it, so the sampling goes on, up to
	// 400 runs, for as long as the two sets differ)
	for rep := 0; rep < 400 && (rep < 40 || !sameSets()); rep++ {
		// fresh unresolved lists each time (NewPackage rewrites them)
		for name, af := range afiles {
			dfiles[name].Unresolved = nil
			for _, u := range unresolved[name] {
				if du, ok := d.Dst.Nodes[u].(*dst.Ident); ok {
					dfiles[name].Unresolved = append(dfiles[name].Unresolved, du)
				}
			}
			af.Unresolved = append([]*ast.Ident{}, unresolved[name]...)
		}
		var auni *ast.Scope
		var duni *dst.Scope
		var aimp ast.Importer
		var dimp dst.Importer
		if mode != "" {
			auni, duni = ast.NewScope(nil), dst.NewScope(nil)
			for _, n := range []string{"int", "string", "rune", "bool", "error", "len", "nil", "true", "false", "iota", "print"} {
				auni.Insert(ast.NewObj(ast.Typ, n))
				duni.Insert(dst.NewObj(dst.Typ, n))
			}
		}
		if mode == "importer" || mode == "importer+C" {
			// the importer knows fmt (no exported names recorded), lib and lib2 (package objects whose Data scope
			// holds their exported objects, which is what a dot-import merges into the file scope)
			exports := map[string][]string{"fmt": {}, "lib": {"Foo", "Bar"}, "lib2": {"Foo", "Baz"}}
			if mode == "importer+C" {
				exports["C"] = []string{} // an importer that delivers the cgo pseudo-package too
			}
			aimp = func(imports map[string]*ast.Object, path string) (*ast.Object, error) {
				names, ok := exports[path]
				if !ok {
					return nil, fmt.Errorf("cannot import %s", path)
				}
				if o := imports[path]; o != nil {
					return o, nil
				}
				o := ast.NewObj(ast.Pkg, path)
				sc := ast.NewScope(nil)
				for _, n := range names {
					sc.Insert(ast.NewObj(ast.Var, n))
				}
				o.Data = sc
				imports[path] = o
				return o, nil
			}
			dimp = func(imports map[string]*dst.Object, path string) (*dst.Object, error) {
				names, ok := exports[path]
				if !ok {
					return nil, fmt.Errorf("cannot import %s", path)
				}
				if o := imports[path]; o != nil {
					return o, nil
				}
				o := dst.NewObj(dst.Pkg, path)
				sc := dst.NewScope(nil)
				for _, n := range names {
					sc.Insert(dst.NewObj(dst.Var, n))
				}
				o.Data = sc
				imports[path] = o
				return o, nil
			}
		}
		ap, err := ast.NewPackage(fset, afiles, aimp, auni)
		aerr = err
		sa := []string{}
		if ap != nil {
			sa = scopeNames(reflect.ValueOf(ap.Scope))
		}
		ua := []string{}
		for name, af := range afiles {
			for _, u := range af.Unresolved {
				ua = append(ua, name+":"+u.Name)
			}
		}
		sort.Strings(ua)
		outcomesA[strings.Join(sa, ",")+" | "+strings.Join(normErrs(err), "; ")+" | unresolved "+strings.Join(ua, ",")] = true
		var dp *dst.Package
		var derr error
		if msg := guard(func() { dp, derr = dst.NewPackage(fset, dfiles, dimp, duni) }); msg != "" {
			c.Fail(Finding{Sig: "newpackage-panics", Input: key, What: msg, Replay: obj{"kind": "c18pkg", "key": key}})
			return
		}
		sb := []string{}
		if dp != nil {
			sb = scopeNames(reflect.ValueOf(dp.Scope))
		}
		ub := []string{}
		for name, df := range dfiles {
			for _, u := range df.Unresolved {
				ub = append(ub, name+":"+u.Name)
			}
		}
		sort.Strings(ub)
		outcomesB[strings.Join(sb, ",")+" | "+strings.Join(normErrs(derr), "; ")+" | unresolved "+strings.Join(ub, ",")] = true
	}
	keysOf := func(m map[string]bool) []string {
		out := []string{}
		for k := range m {
			out = append(out, k)
		}
		sort.Strings(out)
		return out
	}
	out.Add(obj{"side": "package", "scopeA": keysOf(outcomesA), "scopeB": keysOf(outcomesB), "errsA": []string{}, "errsB": []string{}, "key": key})
	c.Eval("package|"+key, aerr != nil)
}

func checkC18(c *Ctx) {
	c.Assume("go/parser's object resolution (deprecated but still performed) is the reference graph; tree ids coincide on both sides because both trees are exported by the same reflective traversal")
	// (M) the memoised conversion on all small cyclic graphs; registering the memo entry late is rejected
	for _, v := range []string{"code", "memo-late"} {
		n := 4
		if v != "code" || c.Quick() {
			n = 3
		}
		r, err := RunTLC(TLCRun{Module: "Objects", Workers: 8, Timeout: 20 * time.Minute, Cfg: fmt.Sprintf("CONSTANTS N = %d M = 2 Variant = \"%s\"\nINIT Init\nNEXT Next\nINVARIANTS Bounded ConvertedOnce Complete\nCHECK_DEADLOCK FALSE\n", n, v)})
		if err != nil || (v == "code" && !r.OK()) || (v != "code" && r.Violated == "") {
			c.Infra("TLC (Objects) unexpected result for variant " + v + ": " + errText(r, err))
			return
		}
		if v == "code" {
			c.TLC(r)
		}
	}
	c.Set("model", "Objects.tla: all trees of N nodes x identifier->object and object->declaration maps (cycles included): Bounded, ConvertedOnce, Complete; the memo-late variant is rejected")
	files := corpus(c, map[bool]int{true: 50, false: 600}[c.Quick()])
	traces := make([]*ndjson, len(files))
	parallel(len(files), func(i int) {
		f := files[i]
		if len(f.Src) > 40000 {
			return
		}
		traces[i] = &ndjson{}
		c18File(c, f.Path, f.Src, traces[i])
	})
	var items []traceItem
	for i, t := range traces {
		if t != nil && t.Len() > 0 {
			items = append(items, traceItem{Key: files[i].Path, Trace: t.Bytes(), Events: t.Len(), Replay: obj{"kind": "c18", "path": files[i].Path}})
		}
	}
	// packages: hand-written multi-file packages with redeclarations, undeclared names, cycles
	pk := &ndjson{}
	pkgs := map[string]map[string][]byte{
		"clean":       {"a.go": []byte("package p\n\nvar A = B + 1\n\nfunc F() int { return A }\n"), "b.go": []byte("package p\n\nvar B = 2\n\ntype T struct{ next *T }\n\nfunc (t *T) M() *T { return t.next }\n")},
		"redeclared":  {"a.go": []byte("package p\n\nvar A = 1\n\nfunc F() {}\n"), "b.go": []byte("package p\n\nvar A = 2\n\nfunc F() {}\n\ntype A int\n")},
		"undeclared":  {"a.go": []byte("package p\n\nvar A = missing + other.X\n\nfunc F() { undefinedCall(); var x = y }\n")},
		"mixed-names": {"a.go": []byte("package p\n\nvar A = 1\n"), "b.go": []byte("package q\n\nvar B = A\n")},
		"imports":     {"a.go": []byte("package p\n\nimport \"fmt\"\n\nfunc A() { fmt.Println(len(\"a\")) }\n"), "b.go": []byte("package p\n\nfunc B(x int, s string) rune { var r rune; return r }\n"), "c.go": []byte("package p\n\nimport \"os\"\n\nvar C = os.Args\n\nvar D bool = true\n")},
		// every import form against an importer that knows the package's exported objects
		"dot-clean":                {"a.go": []byte("package p\n\nimport . \"lib\"\n\nvar X = Foo + Bar\n"), "b.go": []byte("package p\n\nvar Y = X\n")},
		"dot-collision-other-file": {"a.go": []byte("package p\n\nimport . \"lib\"\n\nvar X = Foo\n"), "b.go": []byte("package p\n\nfunc Foo() {}\n")},
		"dot-collision-same-file":  {"a.go": []byte("package p\n\nimport . \"lib\"\n\nvar Bar = 1\n\nvar Y = missing\n")},
		"dot-dot-collision":        {"a.go": []byte("package p\n\nimport (\n\t. \"lib\"\n\t. \"lib2\"\n)\n\nvar X = Foo + Baz\n")},
		"dot-unknown":              {"a.go": []byte("package p\n\nimport . \"nowhere\"\n\nvar X = Foo\n"), "b.go": []byte("package p\n\nimport . \"lib\"\n\nvar Y = Bar + Qux\n")},
		"alias-collision":          {"a.go": []byte("package p\n\nimport l \"lib\"\n\nvar X = l.Foo\n"), "b.go": []byte("package p\n\nvar l = 1\n")},
		"name-twice":               {"a.go": []byte("package p\n\nimport (\n\t\"lib\"\n\tlib \"fmt\"\n)\n\nvar X = lib.Foo\n")},
		"two-blanks":               {"a.go": []byte("package p\n\nimport (\n\t_ \"lib\"\n\t_ \"lib2\"\n\t\"fmt\"\n)\n\nvar X = fmt.Sprint(missing)\n"), "b.go": []byte("package p\n\nimport _ \"lib\"\n\nimport _ \"fmt\"\n\nvar Y = X\n")},
		"blank-and-plain":          {"a.go": []byte("package p\n\nimport (\n\t_ \"lib\"\n\t\"lib2\"\n)\n\nvar X = lib2.Baz\n\nvar lib2 = 0\n")},
		// import paths written as raw strings and with escapes (the importer must be asked for the path, not the literal)
		"raw-and-escaped-paths": {"a.go": []byte("package p\n\nimport `fmt`\n\nimport l \"l\\x69b\"\n\nvar X = fmt.Sprint(l.Foo, missing)\n"), "b.go": []byte("package p\n\nimport . `lib2`\n\nvar Y = Baz + X\n")},
		// an import the importer cannot deliver in front of imports it can: the later ones are still imported
		"unknown-then-known": {"a.go": []byte("package p\n\nimport (\n\t\"nowhere/pkg\"\n\t\"fmt\"\n\tl \"lib\"\n)\n\nvar X = fmt.Sprint(l.Foo, pkg.Y)\n"), "b.go": []byte("package p\n\nimport (\n\t\"lib2\"\n\t\"elsewhere\"\n)\n\nvar Y = lib2.Baz + elsewhere.Z\n")},
		// a cgo file: "C" is an import like any other to NewPackage (the importer is asked, the name C is declared
		// in the file scope or the failure is reported)
		"cgo": {"a.go": []byte("package p\n\n// #include <stdio.h>\nimport \"C\"\n\nimport \"fmt\"\n\nfunc F() string { C.puts(C.CString(\"x\")); return fmt.Sprint(C.int(1)) }\n"), "b.go": []byte("package p\n\nvar Y = F()\n")},
		// package-level declarations that shadow names of the universe scope (legal: no redeclaration)
		"shadow-predeclared": {"a.go": []byte("package p\n\ntype error interface{ Error() string }\n\nfunc len(x string) int { return 0 }\n\nvar X = len(missing)\n"), "b.go": []byte("package p\n\nvar print = 1\n\nvar Y error\n\nvar X = print\n")},
		"cycle":              {"a.go": []byte("package p\n\ntype A struct{ b *B }\n\nvar X = Y\n"), "b.go": []byte("package p\n\ntype B struct{ a *A }\n\nvar Y = X\n\nconst (\n\tC0 = iota\n\tC1\n)\n")},
	}
	var keys []string
	for k := range pkgs {
		keys = append(keys, k)
	}
	sort.Strings(keys)
	for _, k := range keys {
		c18Package(c, k, pkgs[k], pk)
	}
	// corpus packages (thorough): directories of GOROOT parsed as packages
	if !c.Quick() {
		for _, p := range []string{"strings", "bufio", "sort", "container/list", "encoding/json", "text/tabwriter", "go/scanner"} {
			dir := filepath.Join(goroot(), p)
			srcs := map[string][]byte{}
			for _, fn := range listGo(dir, true) {
				if strings.HasSuffix(fn, "_test.go") || filepath.Dir(fn) != dir {
					continue
				}
				if b, err := readFile(fn); err == nil {
					srcs[filepath.Base(fn)] = b
				}
			}
			c18Package(c, "std:"+p, srcs, pk)
		}
	}
	items = append(items, traceItem{Key: "packages", Trace: pk.Bytes(), Events: pk.Len(), Replay: obj{"kind": "c18pkg"}})
	// declarations removed from the tree while objects still point to them (Deferred.tla)
	if !c18Deferred(c) {
		return
	}
	for i, f := range files {
		if len(f.Src) > 40000 || i%2 == 1 {
			continue
		}
		rm := &ndjson{}
		c18Removed(c, f.Path, f.Src, rm)
		if rm.Len() > 0 {
			items = append(items, traceItem{Key: f.Path + "|removed", Trace: rm.Bytes(), Events: rm.Len(), Replay: obj{"kind": "c18removed", "path": f.Path}})
		}
	}
	for i, src := range c18RemovedSources {
		rm := &ndjson{}
		c18Removed(c, fmt.Sprintf("removed-%d", i), []byte(src), rm)
		c18HandData(c, fmt.Sprintf("removed-%d", i), []byte(src), rm)
		if rm.Len() > 0 {
			items = append(items, traceItem{Key: fmt.Sprintf("removed-%d", i), Trace: rm.Bytes(), Events: rm.Len(), Replay: obj{"kind": "c18removed", "src": src}})
		}
	}
	c.Traces(int64(len(items)))
	validateTraces(c, "ObjectsTrace", objectsTraceCfg, items, 40, false, func(it traceItem, res *TLCResult) {
		ev := offendingEventFull(it, res)
		if ev == "" {
			ev = string(bytes.SplitN(it.Trace, []byte("\n"), 2)[0]) // the first record already fails
		}
		var rec struct {
			Side string `json:"side"`
			Key  string `json:"key"`
			File string `json:"file"`
		}
		json.Unmarshal([]byte(ev), &rec)
		c.Fail(Finding{Sig: "objects-" + res.Violated, Input: rec.Side + "|" + rec.Key + rec.File, What: fmt.Sprintf("law %s of ObjectsTrace.tla fails (%s %s%s): %s", res.Violated, rec.Side, rec.Key, rec.File, truncate(ev, 600)), Replay: it.Replay})
	})
	c18Cyclic(c)
	c.Set("rule", "case = the identifier/object/scope graph of one corpus file before and after decoration, and after restoration with Extras; or one multi-file package built with ast.NewPackage vs dst.NewPackage; non-trivial = the file has objects / the package has reports; distinct by file + side")
}

func init() {
	replayers["c18"] = func(raw json.RawMessage) string {
		var r struct{ Path string }
		json.Unmarshal(raw, &r)
		p := strings.TrimSuffix(r.Path, "|resolved-with-importer")
		src, err := readFile(p)
		if err != nil {
			return "harness: " + err.Error()
		}
		c := newCtx("C18", "quick", 1, "model_checking")
		tr := &ndjson{}
		c18File(c, p, src, tr)
		out := ""
		if len(c.findings) > 0 {
			out = c.findings[0].What
		}
		validateTraces(c, "ObjectsTrace", objectsTraceCfg, []traceItem{{Key: p, Trace: tr.Bytes(), Events: tr.Len()}}, 40, false, func(it traceItem, res *TLCResult) {
			out += "law " + res.Violated + " of ObjectsTrace.tla fails: " + truncate(offendingEvent(it, res), 600)
		})
		return out
	}
}

// c18Cyclic: a package decorated as a whole (DecorateNode on *ast.Package) whose scope chain is cyclic
// through an object: the universe holds a package object whose Data is the package scope itself
// (scope -> Outer -> object -> Data -> same scope). The conversion memoises scopes; every ast scope must
// get exactly one dst scope, with Outer, members and Data links carried over.
func c18Cyclic(c *Ctx) {
	srcs := map[string]string{
		"a.go": "package p\n\nvar A = B + 1\n\nfunc F() int { return A }\n",
		"b.go": "package p\n\nvar B = 2\n\ntype T struct{ next *T }\n",
	}
	for _, variant := range []string{"data-cycle", "decl-cycle", "no-cycle"} {
		key := "cyclic-scopes|" + variant
		fset := token.NewFileSet()
		files := map[string]*ast.File{}
		for n, s := range srcs {
			f, err := parser.ParseFile(fset, n, s, parser.ParseComments)
			if err != nil {
				c.Infra(err.Error())
				return
			}
			files[n] = f
		}
		universe := ast.NewScope(nil)
		for _, n := range []string{"int", "string"} {
			universe.Insert(ast.NewObj(ast.Typ, n))
		}
		ap, _ := ast.NewPackage(fset, files, nil, universe)
		if ap == nil {
			c.Infra("ast.NewPackage returned nil")
			return
		}
		po := ast.NewObj(ast.Pkg, "p")
		switch variant {
		case "data-cycle":
			po.Data = ap.Scope
		case "decl-cycle":
			po.Decl = ap.Scope
		}
		universe.Insert(po)
		c.Eval(key, variant != "no-cycle")
		d := decorator.NewDecorator(fset)
		var derr error
		if msg := guard(func() { _, derr = d.DecorateNode(ap) }); msg != "" || derr != nil {
			c.Fail(Finding{Sig: "objects-decorate-package-fails", Input: key, What: fmt.Sprintf("%s %v", msg, derr), Replay: obj{"kind": "none"}})
			continue
		}
		// every ast scope reachable from the package scope
		var scopes []*ast.Scope
		seen := map[*ast.Scope]bool{}
		var visit func(s *ast.Scope)
		visit = func(s *ast.Scope) {
			if s == nil || seen[s] {
				return
			}
			seen[s] = true
			scopes = append(scopes, s)
			visit(s.Outer)
			for _, o := range s.Objects {
				if ds, ok := o.Data.(*ast.Scope); ok {
					visit(ds)
				}
				if ds, ok := o.Decl.(*ast.Scope); ok {
					visit(ds)
				}
			}
		}
		visit(ap.Scope)
		fail := func(what string) {
			c.Fail(Finding{Sig: "objects-scope-graph", Input: key, What: key + ": " + what, Replay: obj{"kind": "none"}})
		}
		// one dst scope per ast scope, maps mutually inverse
		back := map[*ast.Scope]int{}
		for _, as := range d.Ast.Scopes {
			back[as]++
		}
		bad := false
		for _, s := range scopes {
			ds := d.Dst.Scopes[s]
			switch {
			case ds == nil:
				fail("an ast scope has no dst counterpart")
				bad = true
			case back[s] != 1:
				fail(fmt.Sprintf("%d dst scopes map back to one ast scope", back[s]))
				bad = true
			case d.Ast.Scopes[ds] != s:
				fail("Dst.Scopes and Ast.Scopes are not inverse")
				bad = true
			case (s.Outer == nil) != (ds.Outer == nil) || (s.Outer != nil && d.Dst.Scopes[s.Outer] != ds.Outer):
				fail("Outer link not carried over")
				bad = true
			}
			if bad {
				break
			}
			for name, o := range s.Objects {
				do := ds.Objects[name]
				if do == nil || d.Dst.Objects[o] != do {
					fail("scope member " + name + " not carried over")
					bad = true
					break
				}
				if sc, ok := o.Data.(*ast.Scope); ok {
					if dd, ok := do.Data.(*dst.Scope); !ok || dd != d.Dst.Scopes[sc] {
						fail("the Data scope of object " + name + " is not the decorated counterpart of its ast scope")
						bad = true
						break
					}
				}
				if sc, ok := o.Decl.(*ast.Scope); ok {
					if dd, ok := do.Decl.(*dst.Scope); !ok || dd != d.Dst.Scopes[sc] {
						fail("the Decl scope of object " + name + " is not the decorated counterpart of its ast scope")
						bad = true
						break
					}
				}
			}
			if bad {
				break
			}
		}
	}
}
