package main

import (
	"encoding/json"
	"fmt"
	"go/ast"
	"go/parser"
	"go/token"
	"sort"
	"strings"
	"time"

	"github.com/dave/dst"
	"github.com/dave/dst/decorator"
	"github.com/dave/dst/dstutil"
	"golang.org/x/tools/go/ast/astutil"
)

// ---- ApplyNested.tla: cursor operations at an element and at the elements beneath it, in one walk ----

type nestCb struct {
	Cb    string   `json:"cb"`
	Lvl   int      `json:"lvl"`
	Elem  int      `json:"elem"`
	Ops   []string `json:"ops"`
	Ret   bool     `json:"ret"`
	Outer []int    `json:"outer"`
	Inner []int    `json:"inner"`
}

type nestBeh struct {
	Hist  []nestCb `json:"hist"`
	Outer []int    `json:"outer"`
	Inner [][]int  `json:"inner"`
	Ops   int      `json:"ops"`
	End   string   `json:"end"`
}

// nestKind: an outer list whose elements carry an inner list.
type nestKind struct {
	Name                   string
	Src                    string // two outer elements with two inner elements each
	OuterField, InnerField string
	OuterD                 func(f *dst.File) dst.Node
	OuterListD             func(p dst.Node) []dst.Node
	InnerListD             func(e dst.Node) []dst.Node
	NewOuterD, NewInnerD   func() dst.Node
	OuterA                 func(f *ast.File) ast.Node
	OuterListA             func(p ast.Node) []ast.Node
	InnerListA             func(e ast.Node) []ast.Node
	NewOuterA, NewInnerA   func() ast.Node
}

var nestKinds = []nestKind{
	{
		Name: "BlockStmt.List / BlockStmt.List", OuterField: "List", InnerField: "List",
		Src:    "package p\n\nfunc f() {\n\t{\n\t\ta()\n\t\tb()\n\t}\n\t{\n\t\tc()\n\t\td()\n\t}\n}\n",
		OuterD: func(f *dst.File) dst.Node { return f.Decls[0].(*dst.FuncDecl).Body },
		OuterListD: func(p dst.Node) []dst.Node {
			var out []dst.Node
			for _, s := range p.(*dst.BlockStmt).List {
				out = append(out, s)
			}
			return out
		},
		InnerListD: func(e dst.Node) []dst.Node {
			b, ok := e.(*dst.BlockStmt)
			if !ok {
				return nil
			}
			var out []dst.Node
			for _, s := range b.List {
				out = append(out, s)
			}
			return out
		},
		NewOuterD: func() dst.Node { return &dst.EmptyStmt{} },
		NewInnerD: func() dst.Node { return &dst.ExprStmt{X: &dst.CallExpr{Fun: dst.NewIdent("n")}} },
		OuterA:    func(f *ast.File) ast.Node { return f.Decls[0].(*ast.FuncDecl).Body },
		OuterListA: func(p ast.Node) []ast.Node {
			var out []ast.Node
			for _, s := range p.(*ast.BlockStmt).List {
				out = append(out, s)
			}
			return out
		},
		InnerListA: func(e ast.Node) []ast.Node {
			b, ok := e.(*ast.BlockStmt)
			if !ok {
				return nil
			}
			var out []ast.Node
			for _, s := range b.List {
				out = append(out, s)
			}
			return out
		},
		NewOuterA: func() ast.Node { return &ast.EmptyStmt{} },
		NewInnerA: func() ast.Node { return &ast.ExprStmt{X: &ast.CallExpr{Fun: ast.NewIdent("n")}} },
	},
	{
		Name: "File.Decls / GenDecl.Specs", OuterField: "Decls", InnerField: "Specs",
		Src:    "package p\n\nvar (\n\ta int\n\tb int\n)\n\nvar (\n\tc int\n\td int\n)\n",
		OuterD: func(f *dst.File) dst.Node { return f },
		OuterListD: func(p dst.Node) []dst.Node {
			var out []dst.Node
			for _, s := range p.(*dst.File).Decls {
				out = append(out, s)
			}
			return out
		},
		InnerListD: func(e dst.Node) []dst.Node {
			g, ok := e.(*dst.GenDecl)
			if !ok {
				return nil
			}
			var out []dst.Node
			for _, s := range g.Specs {
				out = append(out, s)
			}
			return out
		},
		NewOuterD: func() dst.Node {
			return &dst.FuncDecl{Name: dst.NewIdent("n"), Type: &dst.FuncType{Params: &dst.FieldList{}}}
		},
		NewInnerD: func() dst.Node {
			return &dst.ValueSpec{Names: []*dst.Ident{dst.NewIdent("n")}, Type: dst.NewIdent("int")}
		},
		OuterA: func(f *ast.File) ast.Node { return f },
		OuterListA: func(p ast.Node) []ast.Node {
			var out []ast.Node
			for _, s := range p.(*ast.File).Decls {
				out = append(out, s)
			}
			return out
		},
		InnerListA: func(e ast.Node) []ast.Node {
			g, ok := e.(*ast.GenDecl)
			if !ok {
				return nil
			}
			var out []ast.Node
			for _, s := range g.Specs {
				out = append(out, s)
			}
			return out
		},
		NewOuterA: func() ast.Node {
			return &ast.FuncDecl{Name: ast.NewIdent("n"), Type: &ast.FuncType{Params: &ast.FieldList{}}}
		},
		NewInnerA: func() ast.Node {
			return &ast.ValueSpec{Names: []*ast.Ident{ast.NewIdent("n")}, Type: ast.NewIdent("int")}
		},
	},
}

type nestLog struct {
	Calls []string // "pre 1:e@i outer=[..] inner=[..]"
	Panic string
}

// nestRun executes one behaviour of ApplyNested.tla; the callbacks are described by closures so that
// the dst and the go/ast run share the script logic.
type nestCursor interface {
	Delete()
	Index() int
	Name() string
}

func nestScript(beh nestBeh, level func() (int, int), lists func() ([]int, []int), apply func(op string, lvl int), lg *nestLog) func(phase string) bool {
	j := 0
	return func(phase string) bool {
		lvl, lbl := level()
		if lvl == 0 {
			return true
		}
		ret := true
		var ops []string
		if j < len(beh.Hist) {
			h := beh.Hist[j]
			if h.Cb == phase && h.Lvl == lvl && h.Elem == lbl {
				ops, ret = h.Ops, h.Ret
			}
		}
		j++
		for _, op := range ops {
			apply(op, lvl)
		}
		o, in := lists()
		lg.Calls = append(lg.Calls, fmt.Sprintf("%s %d:%d %v outer=%v inner=%v", phase, lvl, lbl, ops, o, in))
		return ret
	}
}

func nestRunDst(k nestKind, beh nestBeh) nestLog {
	var lg nestLog
	f, err := decorator.Parse(k.Src)
	if err != nil {
		lg.Panic = "harness: " + err.Error()
		return lg
	}
	outerParent := k.OuterD(f)
	labels := map[dst.Node]int{}
	for i, e := range k.OuterListD(outerParent) {
		labels[e] = i + 1
		for j, c := range k.InnerListD(e) {
			labels[c] = 10*(i+1) + j + 1
		}
	}
	fresh := 99
	var cur *dstutil.Cursor
	var curOuter dst.Node // the outer element whose inner list is being walked
	labelList := func(ns []dst.Node) []int {
		out := []int{}
		for _, n := range ns {
			out = append(out, labels[n])
		}
		return out
	}
	level := func() (int, int) {
		switch {
		case cur.Parent() == outerParent && cur.Name() == k.OuterField && cur.Index() >= 0:
			curOuter = cur.Node()
			return 1, labels[cur.Node()]
		case cur.Name() == k.InnerField && cur.Index() >= 0 && labels[cur.Parent()] >= 1 && labels[cur.Parent()] < 10:
			curOuter = cur.Parent()
			return 2, labels[cur.Node()]
		}
		return 0, 0
	}
	lists := func() ([]int, []int) {
		return labelList(k.OuterListD(outerParent)), labelList(k.InnerListD(curOuter))
	}
	apply := func(op string, lvl int) {
		mk := k.NewInnerD
		if lvl == 1 {
			mk = k.NewOuterD
		}
		var n dst.Node
		if op != "Delete" {
			fresh++
			n = mk()
			labels[n] = fresh
		}
		switch op {
		case "Delete":
			cur.Delete()
		case "Replace":
			cur.Replace(n)
		case "InsertBefore":
			cur.InsertBefore(n)
		case "InsertAfter":
			cur.InsertAfter(n)
		}
	}
	script := nestScript(beh, level, lists, apply, &lg)
	cb := func(phase string) dstutil.ApplyFunc {
		return func(c *dstutil.Cursor) bool { cur = c; return script(phase) }
	}
	lg.Panic = guard(func() { dstutil.Apply(f, cb("pre"), cb("post")) })
	o, _ := lists()
	lg.Calls = append(lg.Calls, fmt.Sprintf("final outer=%v", o))
	for _, e := range k.OuterListD(outerParent) {
		if l := labels[e]; l >= 1 && l < 10 {
			lg.Calls = append(lg.Calls, fmt.Sprintf("final inner[%d]=%v", l, labelList(k.InnerListD(e))))
		}
	}
	return lg
}

func nestRunAst(k nestKind, beh nestBeh) nestLog {
	var lg nestLog
	f, err := parser.ParseFile(token.NewFileSet(), "", k.Src, 0)
	if err != nil {
		lg.Panic = "harness: " + err.Error()
		return lg
	}
	outerParent := k.OuterA(f)
	labels := map[ast.Node]int{}
	for i, e := range k.OuterListA(outerParent) {
		labels[e] = i + 1
		for j, c := range k.InnerListA(e) {
			labels[c] = 10*(i+1) + j + 1
		}
	}
	fresh := 99
	var cur *astutil.Cursor
	var curOuter ast.Node
	labelList := func(ns []ast.Node) []int {
		out := []int{}
		for _, n := range ns {
			out = append(out, labels[n])
		}
		return out
	}
	level := func() (int, int) {
		switch {
		case cur.Parent() == outerParent && cur.Name() == k.OuterField && cur.Index() >= 0:
			curOuter = cur.Node()
			return 1, labels[cur.Node()]
		case cur.Name() == k.InnerField && cur.Index() >= 0 && labels[cur.Parent()] >= 1 && labels[cur.Parent()] < 10:
			curOuter = cur.Parent()
			return 2, labels[cur.Node()]
		}
		return 0, 0
	}
	lists := func() ([]int, []int) {
		return labelList(k.OuterListA(outerParent)), labelList(k.InnerListA(curOuter))
	}
	apply := func(op string, lvl int) {
		mk := k.NewInnerA
		if lvl == 1 {
			mk = k.NewOuterA
		}
		var n ast.Node
		if op != "Delete" {
			fresh++
			n = mk()
			labels[n] = fresh
		}
		switch op {
		case "Delete":
			cur.Delete()
		case "Replace":
			cur.Replace(n)
		case "InsertBefore":
			cur.InsertBefore(n)
		case "InsertAfter":
			cur.InsertAfter(n)
		}
	}
	script := nestScript(beh, level, lists, apply, &lg)
	cb := func(phase string) astutil.ApplyFunc {
		return func(c *astutil.Cursor) bool { cur = c; return script(phase) }
	}
	lg.Panic = guard(func() { astutil.Apply(f, cb("pre"), cb("post")) })
	o, _ := lists()
	lg.Calls = append(lg.Calls, fmt.Sprintf("final outer=%v", o))
	for _, e := range k.OuterListA(outerParent) {
		if l := labels[e]; l >= 1 && l < 10 {
			lg.Calls = append(lg.Calls, fmt.Sprintf("final inner[%d]=%v", l, labelList(k.InnerListA(e))))
		}
	}
	return lg
}

// nestModelCalls renders the behaviour the way the runs log theirs.
func nestModelCalls(beh nestBeh) []string {
	var out []string
	for _, h := range beh.Hist {
		ops := h.Ops
		if ops == nil {
			ops = []string{}
		}
		out = append(out, fmt.Sprintf("%s %d:%d %v outer=%v inner=%v", h.Cb, h.Lvl, h.Elem, ops, h.Outer, h.Inner))
	}
	return out
}

func nestKey(b nestBeh) string {
	var s []string
	for _, h := range b.Hist {
		if len(h.Ops) > 0 || !h.Ret {
			s = append(s, fmt.Sprintf("%s(%d:%d)%s%v", h.Cb, h.Lvl, h.Elem, strings.Join(h.Ops, "+"), h.Ret))
		}
	}
	return strings.Join(s, " ")
}

// nestJudge: the dst run must equal the astutil run (the property's reference); the astutil run must
// equal the model (else the model is wrong: infrastructure, not a verdict).
func nestJudge(k nestKind, b nestBeh) (sig, what string, infra bool) {
	d, a := nestRunDst(k, b), nestRunAst(k, b)
	model := nestModelCalls(b)
	if a.Panic != "" {
		return "", "astutil panics on a behaviour of ApplyNested.tla: " + a.Panic, true
	}
	for i, m := range model {
		if i >= len(a.Calls) || a.Calls[i] != m {
			got := "(nothing)"
			if i < len(a.Calls) {
				got = a.Calls[i]
			}
			return "", fmt.Sprintf("astutil does not follow ApplyNested.tla at callback %d: model %q, astutil %q", i+1, m, got), true
		}
	}
	if d.Panic != "" {
		return "nested-apply-panics", "dstutil.Apply panics where astutil.Apply does not: " + d.Panic, false
	}
	for i := range a.Calls {
		if i >= len(d.Calls) || d.Calls[i] != a.Calls[i] {
			got := "(nothing)"
			if i < len(d.Calls) {
				got = d.Calls[i]
			}
			return "nested-apply-differs-from-astutil", fmt.Sprintf("step %d: astutil %q, dstutil %q", i+1, a.Calls[i], got), false
		}
	}
	if len(d.Calls) != len(a.Calls) {
		return "nested-apply-differs-from-astutil", fmt.Sprintf("dstutil makes %d list callbacks, astutil %d", len(d.Calls), len(a.Calls)), false
	}
	return "", "", false
}

func c14Nested(c *Ctx) bool {
	cfg := func(total int, allowFalse, emit bool) string {
		s := fmt.Sprintf("CONSTANTS N = 2 K = 2 MaxTotal = %d MaxLen = 5 AllowFalse = %s EmitHist = %s\nINIT Init\nNEXT Next\nCHECK_DEADLOCK FALSE\n", total, tlaBool(allowFalse), tlaBool(emit))
		if emit {
			return s + "INVARIANTS Emit\n"
		}
		return s + "VIEW view\nINVARIANTS VisitedAtMostOnce InsertedNeverVisited NothingSkipped CursorLocates\n"
	}
	mcTotal, genTotal := 3, 2
	if !c.Quick() {
		mcTotal, genTotal = 4, 3
	}
	mc, err := RunTLC(TLCRun{Module: "ApplyNested", Cfg: cfg(mcTotal, true, false), Workers: 8, Timeout: 20 * time.Minute})
	if err != nil || !mc.OK() {
		c.Infra("TLC model check of ApplyNested failed: " + errText(mc, err))
		return false
	}
	c.TLC(mc)
	var behs []string
	for _, af := range []bool{false, true} {
		t := genTotal
		if af {
			t = genTotal - 1 // with pre / post returning false as well: one operation fewer
		}
		gen, err := RunTLC(TLCRun{Module: "ApplyNested", Cfg: cfg(t, af, true), Workers: 8, Timeout: 20 * time.Minute})
		if err != nil || !gen.OK() {
			c.Infra("TLC generation run of ApplyNested failed: " + errText(gen, err))
			return false
		}
		c.TLC(gen)
		behs = append(behs, gen.Payloads("BEH ")...)
	}
	if len(behs) == 0 {
		c.Infra("TLC emitted no ApplyNested behaviours")
		return false
	}
	c.Set("nested_behaviours_replayed", len(behs))
	c.Set("nested_bounds", fmt.Sprintf("2 outer elements x 2 inner elements, <= %d cursor operations in one walk (<= 1 per callback) at either level, from pre and post; with early returns <= %d", genTotal, genTotal-1))
	type res struct {
		sig, what string
		infra     bool
	}
	out := make([][]res, len(behs))
	parsed := make([]nestBeh, len(behs))
	parallel(len(behs), func(i int) {
		if err := json.Unmarshal([]byte(behs[i]), &parsed[i]); err != nil {
			out[i] = []res{{"", "bad ApplyNested behaviour: " + err.Error(), true}}
			return
		}
		for _, k := range nestKinds {
			s, w, inf := nestJudge(k, parsed[i])
			out[i] = append(out[i], res{s, k.Name + ": " + w, inf})
		}
	})
	for i, rs := range out {
		c.Eval("nested|"+behs[i], parsed[i].Ops > 0)
		c.Traces(1)
		for _, r := range rs {
			if r.infra {
				c.Infra(r.what + " (" + nestKey(parsed[i]) + ")")
				return false
			}
			if r.sig != "" {
				c.Fail(Finding{Sig: r.sig, Input: "nested|" + nestKey(parsed[i]), What: r.what, Replay: obj{"kind": "c14nested", "beh": behs[i]}})
			}
		}
	}
	return true
}

func init() {
	replayers["c14nested"] = func(raw json.RawMessage) string {
		var r struct{ Beh string }
		json.Unmarshal(raw, &r)
		var b nestBeh
		if json.Unmarshal([]byte(r.Beh), &b) != nil {
			return ""
		}
		for _, k := range nestKinds {
			if s, w, inf := nestJudge(k, b); s != "" && !inf {
				return w
			}
		}
		return ""
	}
}

// c14Package: Apply rooted at a package. The files are visited in the order of their keys (as astutil
// does), Delete and Replace act on the Files map; compared with astutil on the ast.Package.
func c14Package(c *Ctx) {
	srcs := map[string]string{
		"gen/zz_types.go":      "package p\n\ntype T int\n",
		"internal/aa_funcs.go": "package p\n\nfunc F() {}\n",
		"main.go":              "package p\n\nvar V = 1\n",
		"a/x.go":               "package p\n\nvar A = 2\n",
		"b/x.go":               "package p\n\nvar B = 3\n",
		// keys of a package assembled by hand: not in their shortest spelling, not ASCII (the key is the
		// cursor's Name() and locates the file in Parent().Files as it is)
		"./c.go":      "package p\n\nvar C = 4\n",
		"gen//d.go":   "package p\n\nvar D = 5\n",
		"x/../e.go":   "package p\n\nvar E = 6\n",
		"näme/./ü.go": "package p\n\nvar Ü = 7\n",
	}
	type script struct {
		name     string
		deleteAt int // delete the k-th file visited (pre), -1: none
		replace  int // replace the k-th file visited by an empty file, -1: none
		stopAt   int // post returns false at the k-th file, -1: never
	}
	var scripts []script
	for d := -1; d < len(srcs); d++ {
		for s := -1; s < len(srcs); s++ {
			scripts = append(scripts, script{fmt.Sprintf("delete@%d stop@%d", d, s), d, -1, s})
		}
		scripts = append(scripts, script{fmt.Sprintf("replace@%d", d), -1, d, -1})
	}
	for _, sc := range scripts {
		fset := token.NewFileSet()
		apkg := &ast.Package{Name: "p", Files: map[string]*ast.File{}}
		for name, src := range srcs {
			af, err := parser.ParseFile(fset, name, src, 0)
			if err != nil {
				c.Infra("package source does not parse")
				return
			}
			apkg.Files[name] = af
		}
		d := decorator.NewDecorator(fset)
		dn, err := d.DecorateNode(apkg)
		if err != nil {
			c.Infra("package does not decorate: " + err.Error())
			return
		}
		dpkg := dn.(*dst.Package)
		dname := map[dst.Node]string{}
		for k, f := range dpkg.Files {
			dname[f] = k
		}
		aname := map[ast.Node]string{}
		for k, f := range apkg.Files {
			aname[f] = k
		}
		var dlog, alog []string
		dk, ak := 0, 0
		dres := guard(func() {
			dstutil.Apply(dpkg, func(cur *dstutil.Cursor) bool {
				if f, ok := cur.Node().(*dst.File); ok && cur.Parent() == dst.Node(dpkg) {
					dlog = append(dlog, "pre "+dname[f]+" as "+cur.Name())
					if dk == sc.deleteAt {
						cur.Delete()
						dlog = append(dlog, "delete")
					}
					if dk == sc.replace {
						cur.Replace(&dst.File{Name: dst.NewIdent("p")})
						dlog = append(dlog, "replace")
					}
				}
				return true
			}, func(cur *dstutil.Cursor) bool {
				if f, ok := cur.Node().(*dst.File); ok && cur.Parent() == dst.Node(dpkg) {
					dlog = append(dlog, "post "+dname[f])
					dk++
					return dk-1 != sc.stopAt
				}
				return true
			})
		})
		ares := guard(func() {
			astutil.Apply(apkg, func(cur *astutil.Cursor) bool {
				if f, ok := cur.Node().(*ast.File); ok && cur.Parent() == ast.Node(apkg) {
					alog = append(alog, "pre "+aname[f]+" as "+cur.Name())
					if ak == sc.deleteAt {
						cur.Delete()
						alog = append(alog, "delete")
					}
					if ak == sc.replace {
						cur.Replace(&ast.File{Name: ast.NewIdent("p")})
						alog = append(alog, "replace")
					}
				}
				return true
			}, func(cur *astutil.Cursor) bool {
				if f, ok := cur.Node().(*ast.File); ok && cur.Parent() == ast.Node(apkg) {
					alog = append(alog, "post "+aname[f])
					ak++
					return ak-1 != sc.stopAt
				}
				return true
			})
		})
		var dkeys, akeys []string
		for k, f := range dpkg.Files {
			dkeys = append(dkeys, fmt.Sprintf("%s:%d", k, len(f.Decls)))
		}
		for k, f := range apkg.Files {
			akeys = append(akeys, fmt.Sprintf("%s:%d", k, len(f.Decls)))
		}
		sort.Strings(dkeys)
		sort.Strings(akeys)
		key := "package|" + sc.name
		c.Eval(key, sc.deleteAt >= 0 || sc.replace >= 0 || sc.stopAt >= 0)
		if ares != "" {
			continue // astutil itself refuses the script: nothing to compare
		}
		if len(alog) == 0 {
			c.Infra("package traversal: astutil made no file callbacks")
			return
		}
		got := strings.Join(dlog, ", ") + " => " + strings.Join(dkeys, " ")
		want := strings.Join(alog, ", ") + " => " + strings.Join(akeys, " ")
		if dres != "" {
			c.Fail(Finding{Sig: "package-apply-panics", Input: key, What: "dstutil.Apply on a package panics where astutil.Apply does not: " + dres, Replay: obj{"kind": "none"}})
		} else if got != want {
			c.Fail(Finding{Sig: "package-apply-differs-from-astutil", Input: key, What: fmt.Sprintf("astutil: %s\ndstutil: %s", want, got), Replay: obj{"kind": "none"}})
		}
	}
}
