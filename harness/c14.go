package main

import (
	"encoding/json"
	"fmt"
	"go/ast"
	"go/parser"
	"go/token"
	"strings"
	"time"

	"github.com/dave/dst"
	"github.com/dave/dst/decorator"
	"github.com/dave/dst/dstutil"
	"golang.org/x/tools/go/ast/astutil"
)

func init() { register("C14", "model_checking", checkC14) }

type c14Cb struct {
	Cb        string   `json:"cb"`
	Elem      int      `json:"elem"`
	Ops       []string `json:"ops"`
	Ret       bool     `json:"ret"`
	ListAfter []int    `json:"listAfter"`
}

type c14Beh struct {
	Hist     []c14Cb `json:"hist"`
	Final    []int   `json:"final"`
	AfterDel bool    `json:"afterDel"`
	End      string  `json:"end"`
}

func applyCfg(n, maxOps, maxLen int, afterDel, allowFalse, emit bool) string {
	s := fmt.Sprintf(`CONSTANTS N = %d MaxOps = %d MaxLen = %d AllowAfterDelete = %s AllowFalse = %s EmitHist = %s
INIT Init
NEXT Next
CHECK_DEADLOCK FALSE
`, n, maxOps, maxLen, tlaBool(afterDel), tlaBool(allowFalse), tlaBool(emit))
	if emit {
		s += "INVARIANTS Emit\n"
	} else {
		s += "VIEW view\nINVARIANTS InsertedNeverVisited VisitedAtMostOnce NothingSkipped PostAtMostOnce CursorLocates IndexSane\n"
	}
	return s
}

// listKind describes one concrete sibling list on which scripts are executed.
type listKind struct {
	Name   string
	Src    func(n int) string // source with n elements labelled e1..en
	Field  string
	Parent func(f *dst.File) dst.Node
	AParnt func(f *ast.File) ast.Node
	NewD   func(label string) dst.Node
	NewA   func(label string) ast.Node
}

func labels(n int, f func(i int) string, sep string) string {
	var s []string
	for i := 1; i <= n; i++ {
		s = append(s, f(i))
	}
	return strings.Join(s, sep)
}

var c14Kinds = []listKind{
	{
		Name: "BlockStmt.List", Field: "List",
		Src: func(n int) string {
			return "package p\n\nfunc f() {\n" + labels(n, func(i int) string { return fmt.Sprintf("\te%d()", i) }, "\n") + "\n}\n"
		},
		Parent: func(f *dst.File) dst.Node { return f.Decls[0].(*dst.FuncDecl).Body },
		AParnt: func(f *ast.File) ast.Node { return f.Decls[0].(*ast.FuncDecl).Body },
		NewD: func(l string) dst.Node {
			return &dst.ExprStmt{X: &dst.CallExpr{Fun: dst.NewIdent(l)}}
		},
		NewA: func(l string) ast.Node {
			return &ast.ExprStmt{X: &ast.CallExpr{Fun: ast.NewIdent(l)}}
		},
	},
	{
		Name: "CallExpr.Args", Field: "Args",
		Src: func(n int) string {
			return "package p\n\nvar x = g(" + labels(n, func(i int) string { return fmt.Sprintf("e%d", i) }, ", ") + ")\n"
		},
		Parent: func(f *dst.File) dst.Node {
			return f.Decls[0].(*dst.GenDecl).Specs[0].(*dst.ValueSpec).Values[0]
		},
		AParnt: func(f *ast.File) ast.Node {
			return f.Decls[0].(*ast.GenDecl).Specs[0].(*ast.ValueSpec).Values[0]
		},
		NewD: func(l string) dst.Node { return dst.NewIdent(l) },
		NewA: func(l string) ast.Node { return ast.NewIdent(l) },
	},
	{
		Name: "FieldList.List", Field: "List",
		Src: func(n int) string {
			return "package p\n\ntype t struct {\n" + labels(n, func(i int) string { return fmt.Sprintf("\te%d int", i) }, "\n") + "\n}\n"
		},
		Parent: func(f *dst.File) dst.Node {
			return f.Decls[0].(*dst.GenDecl).Specs[0].(*dst.TypeSpec).Type.(*dst.StructType).Fields
		},
		AParnt: func(f *ast.File) ast.Node {
			return f.Decls[0].(*ast.GenDecl).Specs[0].(*ast.TypeSpec).Type.(*ast.StructType).Fields
		},
		NewD: func(l string) dst.Node {
			return &dst.Field{Names: []*dst.Ident{dst.NewIdent(l)}, Type: dst.NewIdent("int")}
		},
		NewA: func(l string) ast.Node {
			return &ast.Field{Names: []*ast.Ident{ast.NewIdent(l)}, Type: ast.NewIdent("int")}
		},
	},
	{
		Name: "File.Decls", Field: "Decls",
		Src: func(n int) string {
			return "package p\n\n" + labels(n, func(i int) string { return fmt.Sprintf("func e%d() {}", i) }, "\n\n") + "\n"
		},
		Parent: func(f *dst.File) dst.Node { return f },
		AParnt: func(f *ast.File) ast.Node { return f },
		NewD: func(l string) dst.Node {
			return &dst.FuncDecl{Name: dst.NewIdent(l), Type: &dst.FuncType{Params: &dst.FieldList{}}, Body: &dst.BlockStmt{}}
		},
		NewA: func(l string) ast.Node {
			return &ast.FuncDecl{Name: ast.NewIdent(l), Type: &ast.FuncType{Params: &ast.FieldList{}}, Body: &ast.BlockStmt{}}
		},
	},
}

// label finds the e<k> / n<k> identifier that names a list element.
func labelOf(n interface{}) int {
	found := 0
	var visitD func(dst.Node) bool
	visitD = func(x dst.Node) bool {
		if id, ok := x.(*dst.Ident); ok && found == 0 {
			found = parseLabel(id.Name)
		}
		return found == 0
	}
	switch x := n.(type) {
	case dst.Node:
		dst.Inspect(x, visitD)
	case ast.Node:
		ast.Inspect(x, func(y ast.Node) bool {
			if id, ok := y.(*ast.Ident); ok && found == 0 {
				found = parseLabel(id.Name)
			}
			return found == 0
		})
	}
	return found
}

func parseLabel(s string) int {
	var k int
	if len(s) > 1 && (s[0] == 'e' || s[0] == 'n') {
		if _, err := fmt.Sscanf(s[1:], "%d", &k); err == nil {
			return k
		}
	}
	return 0
}

type applyLog struct {
	Calls  []string // "pre e1@0", "post e1@0" for list-level callbacks
	Final  []int
	Panic  string
	Diverg string // divergence from the script (model)
}

// runScriptDst executes a TLC behaviour on the real dstutil.Apply.
func runScriptDst(k listKind, n int, beh c14Beh) applyLog {
	var lg applyLog
	f, err := decorator.Parse(k.Src(n))
	if err != nil {
		lg.Diverg = "harness: " + err.Error()
		return lg
	}
	parent := k.Parent(f)
	j := 0
	fresh := 99
	cb := func(phase string) dstutil.ApplyFunc {
		return func(c *dstutil.Cursor) bool {
			if c.Parent() != parent || c.Name() != k.Field || c.Index() < 0 {
				return true
			}
			lbl := labelOf(c.Node())
			lg.Calls = append(lg.Calls, fmt.Sprintf("%s %d@%d", phase, lbl, c.Index()))
			if j >= len(beh.Hist) {
				if lg.Diverg == "" {
					lg.Diverg = fmt.Sprintf("callback %d (%s on element %d) happens after the model's traversal ended", j+1, phase, lbl)
				}
				j++
				return true
			}
			h := beh.Hist[j]
			j++
			if (h.Cb != phase || h.Elem != lbl) && lg.Diverg == "" {
				lg.Diverg = fmt.Sprintf("callback %d is %s on element %d, the specification has %s on element %d", j, phase, lbl, h.Cb, h.Elem)
			}
			for _, op := range h.Ops {
				if op != "Delete" {
					fresh++
				}
				switch op {
				case "Delete":
					c.Delete()
				case "Replace":
					c.Replace(k.NewD(fmt.Sprintf("n%d", fresh)))
				case "InsertBefore":
					c.InsertBefore(k.NewD(fmt.Sprintf("n%d", fresh)))
				case "InsertAfter":
					c.InsertAfter(k.NewD(fmt.Sprintf("n%d", fresh)))
				}
			}
			return h.Ret
		}
	}
	lg.Panic = guard(func() { dstutil.Apply(f, cb("pre"), cb("post")) })
	lg.Final = dstListLabels(parent, k.Field)
	if j < len(beh.Hist) && lg.Diverg == "" && lg.Panic == "" {
		h := beh.Hist[j]
		lg.Diverg = fmt.Sprintf("the traversal ended after %d list callbacks, the specification continues with %s on element %d", j, h.Cb, h.Elem)
	}
	return lg
}

func dstListLabels(parent dst.Node, field string) []int {
	var out []int
	switch p := parent.(type) {
	case *dst.BlockStmt:
		for _, x := range p.List {
			out = append(out, labelOf(x))
		}
	case *dst.CallExpr:
		for _, x := range p.Args {
			out = append(out, labelOf(x))
		}
	case *dst.FieldList:
		for _, x := range p.List {
			out = append(out, labelOf(x))
		}
	case *dst.File:
		for _, x := range p.Decls {
			out = append(out, labelOf(x))
		}
	}
	return out
}

func astListLabels(parent ast.Node) []int {
	var out []int
	switch p := parent.(type) {
	case *ast.BlockStmt:
		for _, x := range p.List {
			out = append(out, labelOf(x))
		}
	case *ast.CallExpr:
		for _, x := range p.Args {
			out = append(out, labelOf(x))
		}
	case *ast.FieldList:
		for _, x := range p.List {
			out = append(out, labelOf(x))
		}
	case *ast.File:
		for _, x := range p.Decls {
			out = append(out, labelOf(x))
		}
	}
	return out
}

// runScriptAst executes the same behaviour on x/tools' astutil.Apply (the reference).
func runScriptAst(k listKind, n int, beh c14Beh) applyLog {
	var lg applyLog
	fset := token.NewFileSet()
	f, err := parser.ParseFile(fset, "", k.Src(n), 0)
	if err != nil {
		lg.Diverg = "harness: " + err.Error()
		return lg
	}
	parent := k.AParnt(f)
	j := 0
	fresh := 99
	cb := func(phase string) astutil.ApplyFunc {
		return func(c *astutil.Cursor) bool {
			if c.Parent() != parent || c.Name() != k.Field || c.Index() < 0 {
				return true
			}
			lbl := labelOf(c.Node())
			lg.Calls = append(lg.Calls, fmt.Sprintf("%s %d@%d", phase, lbl, c.Index()))
			if j >= len(beh.Hist) {
				j++
				return true
			}
			h := beh.Hist[j]
			j++
			for _, op := range h.Ops {
				if op != "Delete" {
					fresh++
				}
				switch op {
				case "Delete":
					c.Delete()
				case "Replace":
					c.Replace(k.NewA(fmt.Sprintf("n%d", fresh)))
				case "InsertBefore":
					c.InsertBefore(k.NewA(fmt.Sprintf("n%d", fresh)))
				case "InsertAfter":
					c.InsertAfter(k.NewA(fmt.Sprintf("n%d", fresh)))
				}
			}
			return h.Ret
		}
	}
	lg.Panic = guard(func() { astutil.Apply(f, cb("pre"), cb("post")) })
	lg.Final = astListLabels(parent)
	return lg
}

func intsEq(a, b []int) bool {
	if len(a) != len(b) {
		return false
	}
	for i := range a {
		if a[i] != b[i] {
			return false
		}
	}
	return true
}

func behKey(n int, b c14Beh) string {
	var s []string
	for _, h := range b.Hist {
		s = append(s, fmt.Sprintf("%s(%d)%s%v", h.Cb, h.Elem, strings.Join(h.Ops, "+"), h.Ret))
	}
	return fmt.Sprintf("N=%d ", n) + strings.Join(s, " ")
}

// c14Judge evaluates the P-layer on one behaviour executed on the real code.
func c14Judge(k listKind, n int, b c14Beh) (sig, what string) {
	d := runScriptDst(k, n, b)
	a := runScriptAst(k, n, b)
	// (a) exactly as astutil
	if strings.Join(d.Calls, ",") != strings.Join(a.Calls, ",") || !intsEq(d.Final, a.Final) || (d.Panic == "") != (a.Panic == "") {
		return "differs-from-astutil", fmt.Sprintf("%s: dstutil callbacks %v final %v panic=%q; astutil callbacks %v final %v panic=%q", k.Name, d.Calls, d.Final, d.Panic, a.Calls, a.Final, a.Panic)
	}
	if b.AfterDel {
		// K3 domain: the guarantees are known not to hold; only the agreement with astutil is required
		visits := map[int]int{}
		anomaly := ""
		for _, c := range d.Calls {
			var ph string
			var e, ix int
			fmt.Sscanf(c, "%s %d@%d", &ph, &e, &ix)
			if ph == "pre" {
				visits[e]++
				if e >= 100 {
					anomaly = fmt.Sprintf("inserted node n%d is visited", e)
				}
				if visits[e] > 1 {
					anomaly = fmt.Sprintf("element e%d is visited twice", e)
				}
			}
		}
		if anomaly == "" && d.Panic == "" && b.End == "done" {
			for _, e := range d.Final {
				if e < 100 && visits[e] == 0 {
					anomaly = fmt.Sprintf("surviving element e%d is never visited", e)
				}
			}
		}
		if d.Panic != "" {
			anomaly = d.Panic
		}
		if anomaly != "" {
			return "visit-guarantee-after-delete", k.Name + ": " + anomaly + " when a cursor operation follows Delete within one visit (astutil behaves identically)"
		}
		return "", ""
	}
	if d.Panic != "" {
		return "apply-panic", k.Name + ": " + d.Panic
	}
	if d.Diverg != "" {
		return "apply-diverges-from-spec", k.Name + ": " + d.Diverg
	}
	if !intsEq(d.Final, b.Final) {
		return "apply-final-list", fmt.Sprintf("%s: final list %v, the specification (and the property's list semantics) gives %v", k.Name, d.Final, b.Final)
	}
	// visit guarantees, evaluated on the real log
	visits := map[int]int{}
	for _, c := range d.Calls {
		var ph string
		var e, ix int
		fmt.Sscanf(c, "%s %d@%d", &ph, &e, &ix)
		if ph == "pre" {
			visits[e]++
			if e >= 100 {
				return "inserted-visited", fmt.Sprintf("%s: inserted/replacement node n%d is visited", k.Name, e)
			}
			if visits[e] > 1 {
				return "visited-twice", fmt.Sprintf("%s: element e%d is visited twice", k.Name, e)
			}
		}
	}
	if b.End == "done" {
		for e := 1; e <= n; e++ {
			if visits[e] != 1 {
				return "skipped", fmt.Sprintf("%s: original element e%d was visited %d times", k.Name, e, visits[e])
			}
		}
	}
	return "", ""
}

func checkC14(c *Ctx) {
	c.Assume("golang.org/x/tools v0.1.12 astutil.Apply is the reference implementation")
	c.Assume("histories in which a cursor operation follows Delete within one visit are outside the visit guarantees (K3); agreement with astutil is still required there")
	type bound struct{ n, ops int }
	mcB := bound{3, 2}
	gens := []bound{{2, 2}, {3, 1}}
	if !c.Quick() {
		mcB = bound{4, 2}
		gens = []bound{{2, 2}, {3, 1}, {4, 1}}
	}
	mc, err := RunTLC(TLCRun{Module: "Apply", Cfg: applyCfg(mcB.n, mcB.ops, 2*mcB.n, false, true, false), Workers: 12, Timeout: 30 * time.Minute})
	if err != nil || !mc.OK() {
		c.Infra("TLC model check of Apply failed: " + errText(mc, err))
		return
	}
	c.TLC(mc)
	c.Set("mc_bounds", fmt.Sprintf("N=%d originals, <=%d cursor operations per callback, pre/post may return false", mcB.n, mcB.ops))
	c.Set("exhaustive", true)
	// the after-Delete domain really breaks the guarantees in the model (K3): TLC must find it
	k3, err := RunTLC(TLCRun{Module: "Apply", Cfg: strings.Replace(applyCfg(3, 2, 6, true, false, false), "InsertedNeverVisited VisitedAtMostOnce NothingSkipped PostAtMostOnce CursorLocates IndexSane", "IndexSane", 1), Workers: 4, Timeout: 10 * time.Minute})
	if err != nil || k3.Violated == "" {
		c.Infra("TLC did not find the after-Delete anomaly: " + errText(k3, err))
		return
	}
	c.Set("k3_model_counterexample", "IndexSane violated with AllowAfterDelete=TRUE (Delete, Delete on the first element)")

	total := 0
	for gi, g := range gens {
		for _, afterDel := range []bool{false, true} {
			if afterDel && gi > 0 {
				continue
			}
			gen, err := RunTLC(TLCRun{Module: "Apply", Cfg: applyCfg(g.n, g.ops, 2*g.n+2, afterDel, !afterDel, true), Workers: 12, Timeout: 30 * time.Minute})
			if err != nil || !gen.OK() {
				c.Infra("TLC generation (Apply) failed: " + errText(gen, err))
				return
			}
			c.TLC(gen)
			behs := gen.Payloads("BEH ")
			total += len(behs)
			parsed := make([]c14Beh, len(behs))
			for i, s := range behs {
				if err := json.Unmarshal([]byte(s), &parsed[i]); err != nil {
					c.Infra("bad behaviour JSON: " + err.Error())
					return
				}
			}
			parallel(len(parsed), func(i int) {
				b := parsed[i]
				if afterDel && !b.AfterDel {
					return
				}
				k := c14Kinds[i%len(c14Kinds)]
				nOps := 0
				for _, h := range b.Hist {
					nOps += len(h.Ops)
				}
				key := behKey(g.n, b)
				c.Eval(k.Name+"|"+key, nOps > 0)
				c.Traces(1)
				if sig, what := c14Judge(k, g.n, b); sig != "" {
					in := key
					if b.AfterDel {
						in = "after-delete:" + key
					}
					c.Fail(Finding{Sig: sig, Input: in, What: what, Replay: obj{"kind": "c14", "list": k.Name, "n": g.n, "beh": b}})
				}
				if i%997 == 0 {
					c.Sample(obj{"list": k.Name, "script": key, "final": b.Final})
				}
			})
		}
	}
	c.Set("behaviours_replayed", total)
	c.Set("rule", "behaviour = complete Apply run over one list emitted by TLC (per callback: cursor operations and return value), executed on dstutil.Apply and astutil.Apply; non-trivial = at least one cursor operation; distinct by list kind + script")
	c14Traversal(c)
	c14RootReplace(c)
	c14Positions(c)
	if !c14Nested(c) {
		return
	}
	c14Package(c)
	c14NilElems(c)
}

func init() {
	replayers["c14"] = func(raw json.RawMessage) string {
		var r struct {
			List string `json:"list"`
			N    int    `json:"n"`
			Beh  c14Beh `json:"beh"`
		}
		json.Unmarshal(raw, &r)
		for _, k := range c14Kinds {
			if k.Name == r.List {
				_, what := c14Judge(k, r.N, r.Beh)
				return what
			}
		}
		return "harness: unknown list kind"
	}
}
