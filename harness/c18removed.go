package main

import (
	"encoding/json"
	"fmt"
	"go/ast"
	"go/token"
	"strings"
	"time"

	"github.com/dave/dst"
	"github.com/dave/dst/decorator"
)

// ---- Deferred.tla: the restorer's deferred declaration links (Restorer.Extras) ----

func c18Deferred(c *Ctx) bool {
	cfg := func(n int, v string, coms bool) string {
		return fmt.Sprintf("CONSTANTS N = %d M = 2 Variant = \"%s\" Coms = %s\nINIT Init\nNEXT Next\nINVARIANTS AllLinked Complete OnlyFileComments\nCHECK_DEADLOCK FALSE\n", n, v, tlaBool(coms))
	}
	n := 4
	if !c.Quick() {
		n = 5
	}
	r, err := RunTLC(TLCRun{Module: "Deferred", Cfg: cfg(n, "worklist", false), Workers: 8, Timeout: 20 * time.Minute})
	if err != nil || !r.OK() {
		c.Infra("TLC model check of Deferred failed: " + errText(r, err))
		return false
	}
	c.TLC(r)
	// with comments on any subset of the nodes (one node less: 2^N times the states)
	rc, err := RunTLC(TLCRun{Module: "Deferred", Cfg: cfg(n-1, "worklist", true), Workers: 8, Timeout: 20 * time.Minute})
	if err != nil || !rc.OK() {
		c.Infra("TLC model check of Deferred (with comments) failed: " + errText(rc, err))
		return false
	}
	c.TLC(rc)
	v, err := RunTLC(TLCRun{Module: "Deferred", Cfg: cfg(4, "snapshot", false), Workers: 8, Timeout: 20 * time.Minute})
	if err != nil || v.Violated != "AllLinked" {
		c.Infra("TLC did not reject the snapshot variant of Deferred: " + errText(v, err))
		return false
	}
	lc, err := RunTLC(TLCRun{Module: "Deferred", Cfg: cfg(3, "lateComments", true), Workers: 8, Timeout: 20 * time.Minute})
	if err != nil || lc.Violated != "OnlyFileComments" {
		c.Infra("TLC did not reject the lateComments variant of Deferred: " + errText(lc, err))
		return false
	}
	c.Set("deferred_model", fmt.Sprintf("Deferred.tla: all forests of %d nodes (node 1 the file, other roots outside it) x identifier->object x object->declaration maps, 2 objects x which nodes carry comments: AllLinked, Complete, OnlyFileComments; ranging over the link table while it grows (snapshot variant) and handing the comment list to the file after the pass (lateComments variant) are rejected", n))
	return true
}

var c18RemovedSources = []string{
	`package p

func a(x, y int) int { z := x; return z + y }

func b(q int) int { w := q; return w }

func c(r int) int { return r }

func use() int { return a(1, 2) + b(3) + c(4) }
`,
	`package p

type T struct{ next *T }

func (t *T) M(n int) *T {
	for i := 0; i < n; i++ {
		t = t.next
	}
	return t
}

var v = func(k int) int { l := k; return l }

const (
	c0 = iota
	c1
)

func use(t *T) (*T, int) { return t.M(c1), v(c0) }
`,
	`package p

func first(m map[string]int) (s string) {
	for k, e := range m {
		if e > 0 {
			s = k
		}
	}
	return
}

func second(f func(int) int) int {
L:
	for {
		break L
	}
	return f(1)
}

func use() string { _ = second(nil); return first(nil) }
`,
}

// reachCanon lists every object reachable from the identifiers of a file, also through declaration
// nodes that are not part of the file, in first-visit order.
type reachWalker struct {
	ids  map[interface{}]int
	out  []string
	work []func()
}

func (w *reachWalker) id(o interface{}) (int, bool) {
	if n, ok := w.ids[o]; ok {
		return n, false
	}
	n := len(w.ids) + 1
	w.ids[o] = n
	w.out = append(w.out, "")
	return n, true
}

func reachCanonDst(f *dst.File) []string {
	w := &reachWalker{ids: map[interface{}]int{}}
	var visit func(o *dst.Object) int
	visit = func(o *dst.Object) int {
		if o == nil {
			return 0
		}
		n, fresh := w.id(o)
		if !fresh {
			return n
		}
		desc := fmt.Sprintf("%v %s %T", o.Kind, o.Name, o.Decl)
		var refs []string
		if dn, ok := o.Decl.(dst.Node); ok && dn != nil {
			dst.Inspect(dn, func(m dst.Node) bool {
				if id, ok := m.(*dst.Ident); ok && id.Obj != nil {
					refs = append(refs, fmt.Sprint(visit(id.Obj)))
				}
				return true
			})
		}
		// Data is a node only on objects somebody built or edited by hand (the parser stores iota or nothing)
		switch data := o.Data.(type) {
		case int:
			desc += fmt.Sprintf(" data=%d", data)
		case dst.Node:
			desc += strings.Replace(fmt.Sprintf(" data=%T", data), "*dst.", "*", 1)
			refs = append(refs, "|")
			dst.Inspect(data, func(m dst.Node) bool {
				if id, ok := m.(*dst.Ident); ok && id.Obj != nil {
					refs = append(refs, fmt.Sprint(visit(id.Obj)))
				}
				return true
			})
		}
		w.out[n-1] = strings.Replace(desc, "*dst.", "*", 1) + " [" + strings.Join(refs, " ") + "]"
		return n
	}
	dst.Inspect(f, func(m dst.Node) bool {
		if id, ok := m.(*dst.Ident); ok && id.Obj != nil {
			visit(id.Obj)
		}
		return true
	})
	return w.out
}

func reachCanonAst(f *ast.File) []string {
	w := &reachWalker{ids: map[interface{}]int{}}
	var visit func(o *ast.Object) int
	visit = func(o *ast.Object) int {
		if o == nil {
			return 0
		}
		n, fresh := w.id(o)
		if !fresh {
			return n
		}
		desc := fmt.Sprintf("%v %s %T", o.Kind, o.Name, o.Decl)
		var refs []string
		if dn, ok := o.Decl.(ast.Node); ok && dn != nil {
			ast.Inspect(dn, func(m ast.Node) bool {
				if id, ok := m.(*ast.Ident); ok && id.Obj != nil {
					refs = append(refs, fmt.Sprint(visit(id.Obj)))
				}
				return true
			})
		}
		// Data is a node only on objects somebody built or edited by hand (the parser stores iota or nothing)
		switch data := o.Data.(type) {
		case int:
			desc += fmt.Sprintf(" data=%d", data)
		case ast.Node:
			desc += strings.Replace(fmt.Sprintf(" data=%T", data), "*ast.", "*", 1)
			refs = append(refs, "|")
			ast.Inspect(data, func(m ast.Node) bool {
				if id, ok := m.(*ast.Ident); ok && id.Obj != nil {
					refs = append(refs, fmt.Sprint(visit(id.Obj)))
				}
				return true
			})
		}
		w.out[n-1] = strings.Replace(desc, "*ast.", "*", 1) + " [" + strings.Join(refs, " ") + "]"
		return n
	}
	ast.Inspect(f, func(m ast.Node) bool {
		if id, ok := m.(*ast.Ident); ok && id.Obj != nil {
			visit(id.Obj)
		}
		return true
	})
	return w.out
}

// c18Removed: decorate, remove the first half of the declarations from the tree (objects of the
// remaining code still point to them), restore with Extras; the reachable graph of both sides.
func c18Removed(c *Ctx, path string, src []byte, out *ndjson) {
	for _, keepFrom := range []int{-1, 1} {
		df, err := decorator.Parse(string(src))
		if err != nil || len(df.Decls) < 2 {
			return
		}
		k := len(df.Decls) / 2
		if keepFrom == 1 {
			k = 1
		}
		if _, isImport := df.Decls[0].(*dst.GenDecl); isImport && len(df.Imports) > 0 {
			return // import declarations stay where they are: not this scenario
		}
		df.Decls = df.Decls[k:]
		r := decorator.NewRestorer()
		r.Extras = true
		var raf *ast.File
		if msg := guard(func() { raf, err = r.RestoreFile(df) }); msg != "" || err != nil {
			c.Add("removed_inapplicable", 1)
			continue
		}
		a, b := reachCanonDst(df), reachCanonAst(raf)
		out.Add(obj{"side": "reach", "a": a, "b": b, "file": fmt.Sprintf("%s|first %d declarations removed", path, k)})
		c.Eval(fmt.Sprintf("removed|%s|%d", path, k), len(a) > 0)
	}
}

// c18HandData: objects that were edited by hand.  Object.Data of a declared name is set to an expression
// that is not part of the file and mentions a helper name; the helper's object is built by hand, its
// declaration is a hand-built spec outside the file that mentions the first name again (a cycle through
// Data and Decl), and its own Data is a node too.  Restoring with Extras has to carry the whole graph:
// every Data node and every Decl node converted, every object reachable through them linked.
func c18HandData(c *Ctx, path string, src []byte, out *ndjson) {
	df, err := decorator.Parse(string(src))
	if err != nil {
		return
	}
	var objs []*dst.Object
	seen := map[*dst.Object]bool{}
	dst.Inspect(df, func(m dst.Node) bool {
		if id, ok := m.(*dst.Ident); ok && id.Obj != nil && !seen[id.Obj] && id.Obj.Data == nil {
			seen[id.Obj] = true
			objs = append(objs, id.Obj)
		}
		return true
	})
	if len(objs) == 0 {
		return
	}
	for variant := 0; variant < 3; variant++ {
		df, _ = decorator.Parse(string(src))
		objs = objs[:0]
		seen = map[*dst.Object]bool{}
		dst.Inspect(df, func(m dst.Node) bool {
			if id, ok := m.(*dst.Ident); ok && id.Obj != nil && !seen[id.Obj] && id.Obj.Data == nil {
				seen[id.Obj] = true
				objs = append(objs, id.Obj)
			}
			return true
		})
		n := 0
		for i, o := range objs {
			if i%(variant+1) != 0 || n >= 6 {
				continue
			}
			n++
			hname := fmt.Sprintf("helper%d", i)
			hobj := dst.NewObj(dst.Var, hname)
			back := &dst.Ident{Name: o.Name, Obj: o}
			hdecl := &dst.ValueSpec{Names: []*dst.Ident{{Name: hname, Obj: hobj}}, Values: []dst.Expr{back}}
			hobj.Decl = hdecl
			if variant == 2 {
				// a second hop: the helper's Data mentions another hand-built name declared by a hand-built field
				h2 := dst.NewObj(dst.Var, hname+"x")
				h2.Decl = &dst.Field{Names: []*dst.Ident{{Name: hname + "x", Obj: h2}}, Type: dst.NewIdent("int")}
				hobj.Data = &dst.UnaryExpr{Op: token.SUB, X: &dst.Ident{Name: hname + "x", Obj: h2}}
			}
			o.Data = &dst.ParenExpr{X: &dst.Ident{Name: hname, Obj: hobj}}
		}
		r := decorator.NewRestorer()
		r.Extras = true
		var raf *ast.File
		key := fmt.Sprintf("hand-data|%s|variant %d", path, variant)
		if msg := guard(func() { raf, err = r.RestoreFile(df) }); msg != "" || err != nil {
			c.Fail(Finding{Sig: "extras-restore-fails", Input: key, What: fmt.Sprintf("restoring with Extras a file whose objects carry hand-built Data nodes: %s %v", msg, err), Replay: obj{"kind": "none"}})
			continue
		}
		a, b := reachCanonDst(df), reachCanonAst(raf)
		out.Add(obj{"side": "reach", "a": a, "b": b, "file": fmt.Sprintf("%s|objects with hand-built Data nodes, variant %d", path, variant)})
		c.Eval(key, len(a) > 0)
	}
}

func init() {
	replayers["c18removed"] = func(raw json.RawMessage) string {
		var r struct{ Src, Path string }
		json.Unmarshal(raw, &r)
		src := []byte(r.Src)
		if r.Src == "" {
			b, err := readFile(r.Path)
			if err != nil {
				return ""
			}
			src = b
		}
		out := &ndjson{}
		c18Removed(newCtx("C18", "quick", 1, "model_checking"), r.Path, src, out)
		c18HandData(newCtx("C18", "quick", 1, "model_checking"), r.Path, src, out)
		for _, line := range strings.Split(string(out.Bytes()), "\n") {
			var rec struct{ A, B []string }
			if json.Unmarshal([]byte(line), &rec) == nil && strings.Join(rec.A, "|") != strings.Join(rec.B, "|") {
				return "restored object graph differs from the dst graph: " + truncate(line, 600)
			}
		}
		return ""
	}
}
