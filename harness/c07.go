package main

import (
	"bytes"
	"encoding/json"
	"fmt"
	"go/ast"
	"go/format"
	"go/parser"
	"go/token"
	"math/rand"
	"reflect"
	"regexp"
	"sort"
	"strconv"
	"strings"
	"time"

	"github.com/dave/dst"
	"github.com/dave/dst/decorator"
	"github.com/dave/dst/decorator/resolver/goast"
	"github.com/dave/dst/decorator/resolver/guess"
	"github.com/dave/dst/decorator/resolver/simple"
)

func init() { register("C07", "model_checking", checkC07) }

var impPaths = []string{"A/y", "C", "a/x", "b.io/x"}
var impPkg = map[string]string{"A/y": "y", "C": "C", "a/x": "x", "b.io/x": "x"}
var impSrcStates = []string{"absent", "", "x", "z", "_", "."}
var impOvStates = []string{"unset", "", "x", "z", "_", "."}

const importsMC = `---- MODULE ImportsMC ----
EXTENDS Imports
MCPaths == {"C", "a/x", "b.io/x", "A/y"}
MCPkg == [p \in MCPaths |-> CASE p = "C" -> "C" [] p = "a/x" -> "x" [] p = "b.io/x" -> "x" [] p = "A/y" -> "y"]
MCDotted == {"b.io/x"}
MCOrd == [p \in MCPaths |-> CASE p = "A/y" -> 0 [] p = "C" -> 1 [] p = "a/x" -> 2 [] p = "b.io/x" -> 3]
MCSrc == {"absent", "", "x", "z", "_", "."}
MCOv == {"unset", "", "x", "z", "_", "."}
MCSrcSmall == {"absent", "", "z", "_"}
MCOvSmall == {"unset", "", "x", "."}
====
`
const importsTraceMC = `---- MODULE ImportsTraceMC ----
EXTENDS ImportsTrace
MCPaths == {"C", "a/x", "b.io/x", "A/y"}
MCPkg == [p \in MCPaths |-> CASE p = "C" -> "C" [] p = "a/x" -> "x" [] p = "b.io/x" -> "x" [] p = "A/y" -> "y"]
MCDotted == {"b.io/x"}
MCOrd == [p \in MCPaths |-> CASE p = "A/y" -> 0 [] p = "C" -> 1 [] p = "a/x" -> 2 [] p = "b.io/x" -> 3]
MCSrc == {"absent", "", "x", "z", "_", "."}
MCOv == {"unset", "", "x", "z", "_", "."}
====
`

func importsConsts(small bool, cfix bool) string {
	s, o := "MCSrc", "MCOv"
	if small {
		s, o = "MCSrcSmall", "MCOvSmall"
	}
	return fmt.Sprintf(`CONSTANTS
 Paths <- MCPaths
 Pkg <- MCPkg
 Dotted <- MCDotted
 Ord <- MCOrd
 CPath = "C"
 SrcStates <- %s
 OvStates <- %s
 CFix = %s
`, s, o, tlaBool(cfix))
}

type impCfg struct {
	Src   map[string]string
	Ov    map[string]string
	Used  map[string]bool
	Shape int // 0: one parenthesised block; 1: one declaration per import; 2: "C" in its own first block
	Lit   int // form of the import path literals: 0 "a/x", 1 raw `a/x`, 2 interpreted with an escape "a\x2fx", 3 "a/x" in a hand-made spec (literal with its text only, Kind unset); 4: plain literals, the alias z spelled with a letter outside ASCII (in the source and in the Alias map)
}

const impGreekZ = "ζώνη" // an identifier of four two-byte letters

func (c impCfg) key() string {
	var s []string
	for _, p := range impPaths {
		s = append(s, fmt.Sprintf("%s:%s/%s/%v", p, c.Src[p], c.Ov[p], c.Used[p]))
	}
	return fmt.Sprintf("shape%d lit%d ", c.Shape, c.Lit) + strings.Join(s, " ")
}

func (c impCfg) source() string {
	lit := func(p string) string {
		switch {
		case c.Lit == 1 && p != "C":
			return "`" + p + "`"
		case c.Lit == 2 && strings.Contains(p, "/"):
			return "\"" + strings.Replace(p, "/", "\\x2f", 1) + "\""
		}
		return strconv.Quote(p)
	}
	spec := func(p string) string {
		if c.Src[p] == "" {
			return lit(p)
		}
		if c.Lit == 4 && c.Src[p] == "z" {
			return impGreekZ + " " + lit(p)
		}
		return c.Src[p] + " " + lit(p)
	}
	var present []string
	for _, p := range impPaths {
		if c.Src[p] != "absent" {
			present = append(present, p)
		}
	}
	var b strings.Builder
	b.WriteString("package main\n\n")
	switch {
	case len(present) == 0:
	case c.Shape == 1:
		for _, p := range present {
			b.WriteString("import " + spec(p) + "\n")
		}
		b.WriteString("\n")
	case c.Shape == 2 && c.Src["C"] != "absent":
		b.WriteString("import \"C\"\n\n")
		var rest []string
		for _, p := range present {
			if p != "C" {
				rest = append(rest, p)
			}
		}
		if len(rest) > 0 {
			b.WriteString("import (\n")
			for _, p := range rest {
				b.WriteString("\t" + spec(p) + "\n")
			}
			b.WriteString(")\n\n")
		}
	default:
		b.WriteString("import (\n")
		for _, p := range present {
			b.WriteString("\t" + spec(p) + "\n")
		}
		b.WriteString(")\n\n")
	}
	b.WriteString("var local = 1\n")
	return b.String()
}

type impObs struct {
	Imports [][2]string `json:"imports"`
	Quals   [][2]string `json:"quals"`
	Locals  []string    `json:"locals"`
	Kept    bool        `json:"kept"`
	Output  string      `json:"-"`
}

func importRegion(src string) string {
	fset := token.NewFileSet()
	f, err := parser.ParseFile(fset, "", src, parser.ImportsOnly|parser.ParseComments)
	if err != nil {
		return "\x00"
	}
	var parts []string
	for _, d := range f.Decls {
		parts = append(parts, src[fset.Position(d.Pos()).Offset:fset.Position(d.End()).Offset])
	}
	return strings.Join(parts, "\n")
}

// impRun restores one configuration with the real FileRestorer and observes the output.
func impRun(c impCfg) (*impObs, string) {
	src := c.source()
	f, err := decorator.Parse(src)
	if err != nil {
		return nil, "harness: " + err.Error()
	}
	if c.Lit == 3 {
		// the import specs as a user writes them by hand: &dst.ImportSpec{Name: ..., Path: &dst.BasicLit{Value: `"a/x"`}}
		// (go/printer never looks at the Kind of a literal)
		dst.Inspect(f, func(n dst.Node) bool {
			if is, ok := n.(*dst.ImportSpec); ok {
				is.Path = &dst.BasicLit{Value: is.Path.Value}
				if is.Name != nil {
					is.Name = dst.NewIdent(is.Name.Name)
				}
			}
			return true
		})
	}
	used := []string{}
	for i, p := range impPaths {
		if c.Used[p] {
			used = append(used, p)
			f.Decls = append(f.Decls, &dst.GenDecl{Tok: token.VAR, Specs: []dst.Spec{&dst.ValueSpec{
				Names: []*dst.Ident{dst.NewIdent("_")}, Values: []dst.Expr{&dst.Ident{Name: fmt.Sprintf("V%d", i), Path: p}}}}})
		}
	}
	// identifiers with local and with empty path stay bare
	f.Decls = append(f.Decls, &dst.GenDecl{Tok: token.VAR, Specs: []dst.Spec{&dst.ValueSpec{
		Names: []*dst.Ident{dst.NewIdent("_")}, Values: []dst.Expr{&dst.Ident{Name: "local", Path: "main"}, &dst.Ident{Name: "local"}}}}})
	names := map[string]string{}
	for p, n := range impPkg {
		names[p] = n
	}
	rst := decorator.NewRestorerWithImports("main", simple.New(names))
	if len(c.key())%4 == 1 {
		// every fourth configuration: the references carry objects next to their paths (code decorated with
		// ResolveLocalPath and moved here has them) and the restorer restores the object graph too
		rst.Extras = true
		dst.Inspect(f, func(n dst.Node) bool {
			if id, ok := n.(*dst.Ident); ok && id.Path != "" && id.Obj == nil {
				id.Obj = dst.NewObj(dst.Var, id.Name)
			}
			return true
		})
	}
	fr := rst.FileRestorer()
	for p, o := range c.Ov {
		if o != "unset" {
			if c.Lit == 4 && o == "z" {
				o = impGreekZ
			}
			fr.Alias[p] = o
		}
	}
	var buf bytes.Buffer
	if msg := guard(func() { err = fr.Fprint(&buf, f) }); msg != "" {
		return nil, msg
	}
	if err != nil {
		return nil, "error: " + err.Error()
	}
	out := buf.String()
	if c.Lit == 4 {
		// back to the model's alphabet (the other names in play are ASCII: nothing else can become "z")
		out = strings.ReplaceAll(out, impGreekZ, "z")
		src = strings.ReplaceAll(src, impGreekZ, "z")
	}
	fset := token.NewFileSet()
	af, err := parser.ParseFile(fset, "", out, 0)
	if err != nil {
		return nil, "output does not parse: " + err.Error() + "\n" + out
	}
	obs := &impObs{Imports: [][2]string{}, Quals: [][2]string{}, Locals: []string{}, Output: out}
	for _, is := range af.Imports {
		p, _ := strconv.Unquote(is.Path.Value)
		a := ""
		if is.Name != nil {
			a = is.Name.Name
		}
		obs.Imports = append(obs.Imports, [2]string{p, a})
	}
	ast.Inspect(af, func(n ast.Node) bool {
		switch x := n.(type) {
		case *ast.ValueSpec:
			for _, v := range x.Values {
				q, name := "", ""
				switch e := v.(type) {
				case *ast.SelectorExpr:
					if id, ok := e.X.(*ast.Ident); ok {
						q = id.Name
					}
					name = e.Sel.Name
				case *ast.Ident:
					name = e.Name
				default:
					continue
				}
				if strings.HasPrefix(name, "V") {
					i, _ := strconv.Atoi(name[1:])
					obs.Quals = append(obs.Quals, [2]string{impPaths[i], q})
				} else if name == "local" {
					obs.Locals = append(obs.Locals, q)
				}
			}
		}
		return true
	})
	// go/printer itself rewrites raw and escaped import path literals to the plain quoted form
	canon := src
	if b, err := format.Source([]byte(src)); err == nil {
		canon = string(b)
	}
	obs.Kept = importRegion(canon) == importRegion(out)
	return obs, ""
}

func pairs(m map[string]string) [][2]string {
	var out [][2]string
	for _, p := range impPaths {
		if v, ok := m[p]; ok {
			out = append(out, [2]string{p, v})
		}
	}
	return out
}

func checkC07(c *Ctx) {
	c.Assume("resolver = simple.RestorerResolver with the exact name map; the output is judged by re-parsing it with go/parser")
	files := map[string][]byte{"ImportsMC.tla": []byte(importsMC)}
	invs := "INIT Init\nNEXT Next\nINVARIANTS InvBound InvExact InvDistinct InvValid InvPrecedence\nCHECK_DEADLOCK FALSE\n"
	mc, err := RunTLC(TLCRun{Module: "ImportsMC", Cfg: importsConsts(c.Quick(), true) + invs, Files: files, Workers: 12, Timeout: 30 * time.Minute})
	if err != nil || !mc.OK() {
		c.Infra("TLC model check of Imports failed: " + errText(mc, err))
		return
	}
	c.TLC(mc)
	c.Set("exhaustive", true)
	c.Set("mc_bounds", map[bool]string{true: "4 paths (two sharing a package name, one dotted, one sorting before \"C\", \"C\") x 4 source states x 4 override states x used/unused", false: "4 paths x 6 source states x 6 override states x used/unused (1.5M configurations)"}[c.Quick()])
	// without the repair for "C" the model itself has the invalid-name state (F6)
	f6, err := RunTLC(TLCRun{Module: "ImportsMC", Cfg: importsConsts(true, false) + invs, Files: files, Workers: 4, Timeout: 10 * time.Minute})
	if err != nil || f6.Violated == "" {
		c.Infra("TLC did not find the cgo naming state without CFix: " + errText(f6, err))
		return
	}
	c.Set("f6_model_counterexample", f6.Violated+" violated with CFix=FALSE (blank import of a path sorting before \"C\")")

	// code -> spec
	r := rand.New(rand.NewSource(c.Seed))
	n := 12000
	if !c.Quick() {
		n = 250000
	}
	var cfgs []impCfg
	seen := map[string]bool{}
	add := func(cf impCfg) {
		if k := cf.key(); !seen[k] {
			seen[k] = true
			cfgs = append(cfgs, cf)
		}
	}
	// systematic part: every (src, ov, used) of one path against fixed typical states of the others
	for _, p := range impPaths {
		for _, s := range impSrcStates {
			for _, o := range impOvStates {
				for _, u := range []bool{false, true} {
					for variant := 0; variant < 3; variant++ {
						cf := impCfg{Src: map[string]string{}, Ov: map[string]string{}, Used: map[string]bool{}, Shape: variant}
						for _, q := range impPaths {
							cf.Src[q], cf.Ov[q] = []string{"", "absent", "_"}[variant], "unset"
							cf.Used[q] = variant != 2
							if q == "C" {
								cf.Src[q], cf.Used[q] = []string{"absent", "", ""}[variant], false
							}
						}
						if p == "C" && (s != "absent" && s != "" || o != "unset" || u) {
							continue
						}
						cf.Src[p], cf.Ov[p], cf.Used[p] = s, o, u
						add(cf)
						if variant == 0 { // the same configuration with the other forms of path literal
							for lit := 1; lit <= 4; lit++ {
								cl := impCfg{Src: cf.Src, Ov: cf.Ov, Used: cf.Used, Shape: cf.Shape, Lit: lit}
								add(cl)
							}
						}
					}
				}
			}
		}
	}
	for len(cfgs) < n {
		cf := impCfg{Src: map[string]string{}, Ov: map[string]string{}, Used: map[string]bool{}, Shape: r.Intn(3), Lit: []int{0, 0, 1, 2, 3, 4}[r.Intn(6)]}
		for _, p := range impPaths {
			if p == "C" {
				cf.Src[p], cf.Ov[p], cf.Used[p] = []string{"absent", ""}[r.Intn(2)], "unset", false
				continue
			}
			cf.Src[p], cf.Ov[p], cf.Used[p] = impSrcStates[r.Intn(len(impSrcStates))], impOvStates[r.Intn(len(impOvStates))], r.Intn(2) == 0
		}
		add(cf)
	}
	recs := make([][]byte, len(cfgs))
	parallel(len(cfgs), func(i int) {
		cf := cfgs[i]
		conflict := false
		for _, p := range impPaths {
			if cf.Used[p] && (cf.Ov[p] != "unset" || cf.Src[p] == "x" || cf.Src[p] == "z") {
				conflict = true
			}
		}
		c.Eval(cf.key(), conflict)
		obs, msg := impRun(cf)
		if msg != "" {
			in := cf.key()
			sig := "import-restore-fails"
			if strings.Contains(msg, "1 \"C\"") || strings.Contains(msg, "expected 'STRING', found 1") {
				sig = "cgo-import-gets-numeric-alias"
				in = "cgo|" + in
			}
			c.Fail(Finding{Sig: sig, Input: in, What: truncate(msg, 400) + " for configuration " + cf.key(), Replay: obj{"kind": "c07", "cfg": cf}})
			return
		}
		// "renamed deterministically": the same configuration restored again gives the same bytes (the
		// restorer walks Go maps; every choice has to be made in a fixed order)
		if conflict && i%4 == 0 {
			for rep := 0; rep < 6; rep++ {
				o2, m2 := impRun(cf)
				if m2 != "" || o2.Output != obs.Output {
					c.Fail(Finding{Sig: "imports-nondeterministic", Input: cf.key(), What: fmt.Sprintf("the same configuration restored twice gives different results (%s):\n%s\nvs\n%s", m2, obs.Output, func() string {
						if o2 != nil {
							return o2.Output
						}
						return ""
					}()), Replay: obj{"kind": "c07", "cfg": cf}})
					return
				}
			}
		}
		used := []string{}
		for _, p := range impPaths {
			if cf.Used[p] {
				used = append(used, p)
			}
		}
		sort.Strings(used)
		b, _ := json.Marshal(obj{"src": pairs(cf.Src), "ov": pairs(cf.Ov), "used": used, "imports": obs.Imports, "quals": obs.Quals, "locals": obs.Locals, "kept": obs.Kept, "shape": cf.Shape})
		recs[i] = append(b, '\n')
		if i%2500 == 0 {
			c.Sample(obj{"cfg": cf.key(), "imports": obs.Imports, "quals": obs.Quals})
		}
	})
	var items []traceItem
	for i, b := range recs {
		if b != nil {
			items = append(items, traceItem{Key: cfgs[i].key(), Trace: b, Events: 1, Replay: obj{"kind": "c07", "cfg": cfgs[i]}})
		}
	}
	items = append(items, c07Positions(c)...)
	c07CaseVariants(c)
	c.Traces(int64(len(items)))
	tcfg := importsConsts(false, true) + "INIT TInit\nNEXT TNext\nINVARIANTS EachOnce Exact Bound LocalsBare Distinct Precedence NoOpKept Conforms\nPOSTCONDITION Accepted\nCHECK_DEADLOCK FALSE\n"
	validateTracesF(c, "ImportsTraceMC", tcfg, map[string][]byte{"ImportsTraceMC.tla": []byte(importsTraceMC)}, items, 3000, false, func(it traceItem, res *TLCResult) {
		if res.Violated == "Conforms" {
			// the output deviates from the transcription but every property predicate held on it
			c.Note("model_conformance:false for " + it.Key)
			c.Set("model_conformance", false)
			return
		}
		c.Fail(Finding{Sig: "imports-" + res.Violated, Input: it.Key, What: fmt.Sprintf("predicate %s of ImportsTrace.tla fails on the restored output: %s", res.Violated, truncate(string(it.Trace), 500)), Replay: it.Replay})
	})
	c07TwoPass(c)
	// one import-managing Decorator / Restorer / FileRestorer for several files (Reuse.tla)
	if !c07Reuse(c) {
		return
	}
	c.Set("rule", "case = one import configuration (existing specs and aliases, overrides, used paths, block shape) restored by the real FileRestorer and re-parsed; non-trivial = some used path has an alias or override; distinct by configuration")
}

func init() {
	replayers["c07"] = func(raw json.RawMessage) string {
		var r struct {
			Cfg impCfg `json:"cfg"`
		}
		json.Unmarshal(raw, &r)
		obs, msg := impRun(r.Cfg)
		if msg != "" {
			return msg
		}
		return "output:\n" + obs.Output
	}
}

// ---- a reference at every expression position ----

var dstExprType = reflect.TypeOf((*dst.Expr)(nil)).Elem()

// exprPositions lists every position below n whose static type is dst.Expr (a field or a list
// element), by reflection over struct fields.
func exprPositions(n dst.Node, out *[]nodePos, seen map[dst.Node]bool) {
	if n == nil || reflect.ValueOf(n).IsNil() || seen[n] {
		return
	}
	seen[n] = true
	v := reflect.ValueOf(n).Elem()
	for i := 0; i < v.NumField(); i++ {
		name := v.Type().Field(i).Name
		if name == "Imports" || name == "Unresolved" || name == "Obj" || name == "Scope" || name == "Decs" {
			continue
		}
		fv := v.Field(i)
		switch {
		case fv.Kind() == reflect.Slice && fv.Type().Elem().Implements(dstNodeType):
			for k := 0; k < fv.Len(); k++ {
				if e := fv.Index(k); !e.IsNil() {
					if fv.Type().Elem() == dstExprType {
						*out = append(*out, nodePos{v, i, k})
					}
					exprPositions(e.Interface().(dst.Node), out, seen)
				}
			}
		case fv.Type().Implements(dstNodeType) && (fv.Kind() == reflect.Ptr || fv.Kind() == reflect.Interface):
			if !fv.IsNil() {
				if fv.Type() == dstExprType {
					*out = append(*out, nodePos{v, i, -1})
				}
				exprPositions(fv.Interface().(dst.Node), out, seen)
			}
		}
	}
}

var c07QualRe = regexp.MustCompile(`([A-Za-z_][A-Za-z0-9_]*)\s*\.\s*V2\b`)
var c07BareRe = regexp.MustCompile(`\bV2\b`)

// c07Positions puts an identifier carrying the path a/x at every expression position of every
// template fragment (one at a time), restores with import management and reads the imports and
// the qualifier off the output.
func c07Positions(c *Ctx) []traceItem {
	src, err := templateSrc()
	if err != nil {
		c.Infra(err.Error())
		return nil
	}
	minis, err := miniFiles(src)
	if err != nil {
		c.Infra(err.Error())
		return nil
	}
	type job struct{ mi, pi int }
	var jobs []job
	for mi, m := range minis {
		if gd, ok := m.Decls[0].(*dst.GenDecl); ok && gd.Tok == token.IMPORT {
			continue
		}
		var ps []nodePos
		exprPositions(m, &ps, map[dst.Node]bool{})
		for pi := range ps {
			jobs = append(jobs, job{mi, pi})
		}
	}
	recs := make([]*traceItem, len(jobs))
	parallel(len(jobs), func(i int) {
		j := jobs[i]
		ms, _ := miniFiles(src)
		f := ms[j.mi]
		var ps []nodePos
		exprPositions(f, &ps, map[dst.Node]bool{})
		p := ps[j.pi]
		where := fmt.Sprintf("%s.%s", p.holder.Type().Name(), p.holder.Type().Field(p.fi).Name)
		key := fmt.Sprintf("position|fragment-%d|%d|%s", j.mi, j.pi, where)
		p.get().Set(reflect.ValueOf(&dst.Ident{Name: "V2", Path: "a/x"}))
		var buf bytes.Buffer
		var perr error
		msg := guard(func() {
			perr = decorator.NewRestorerWithImports("main", simple.New(impPkg)).Fprint(&buf, f)
		})
		c.Eval(key, true)
		if msg != "" || perr != nil {
			// go/format refuses trees that are not valid Go (a reference where only a call, a type or a
			// name can stand): nothing to observe
			if msg != "" && !strings.Contains(msg, "format.Node") && !strings.Contains(msg, "interface conversion: ast.") {
				c.Fail(Finding{Sig: "imports-restore-panics", Input: key, What: msg, Replay: obj{"kind": "c07pos", "mini": j.mi, "pos": j.pi}})
			} else {
				c.Add("positions_not_printable", 1)
			}
			return
		}
		out := buf.String()
		obs := obj{"src": [][2]string{}, "ov": [][2]string{}, "used": []string{"a/x"}, "imports": [][2]string{}, "quals": [][2]string{}, "locals": []string{}, "kept": false, "shape": 0, "where": where}
		imps := [][2]string{}
		if af, err := parser.ParseFile(token.NewFileSet(), "", out, parser.ImportsOnly); err == nil {
			for _, is := range af.Imports {
				ip, _ := strconv.Unquote(is.Path.Value)
				a := ""
				if is.Name != nil {
					a = is.Name.Name
				}
				imps = append(imps, [2]string{ip, a})
			}
		}
		obs["imports"] = imps
		body := out
		if k := strings.Index(out, "V2"); k < 0 {
			c.Fail(Finding{Sig: "imports-reference-lost", Input: key, What: "the identifier placed at " + where + " is not in the output:\n" + truncate(out, 400), Replay: obj{"kind": "c07pos", "mini": j.mi, "pos": j.pi}})
			return
		}
		q := ""
		if m := c07QualRe.FindStringSubmatch(body); m != nil {
			q = m[1]
		}
		obs["quals"] = [][2]string{{"a/x", q}}
		b, _ := json.Marshal(obs)
		recs[i] = &traceItem{Key: key, Trace: append(b, '\n'), Events: 1, Replay: obj{"kind": "c07pos", "mini": j.mi, "pos": j.pi}}
	})
	var items []traceItem
	for _, r := range recs {
		if r != nil {
			items = append(items, *r)
		}
	}
	c.Set("reference_positions", len(items))
	return items
}

func init() {
	replayers["c07pos"] = func(raw json.RawMessage) string {
		var r struct{ Mini, Pos int }
		json.Unmarshal(raw, &r)
		src, err := templateSrc()
		if err != nil {
			return ""
		}
		ms, _ := miniFiles(src)
		if r.Mini >= len(ms) {
			return ""
		}
		var ps []nodePos
		exprPositions(ms[r.Mini], &ps, map[dst.Node]bool{})
		if r.Pos >= len(ps) {
			return ""
		}
		p := ps[r.Pos]
		where := fmt.Sprintf("%s.%s", p.holder.Type().Name(), p.holder.Type().Field(p.fi).Name)
		p.get().Set(reflect.ValueOf(&dst.Ident{Name: "V2", Path: "a/x"}))
		var buf bytes.Buffer
		var perr error
		if msg := guard(func() { perr = decorator.NewRestorerWithImports("main", simple.New(impPkg)).Fprint(&buf, ms[r.Mini]) }); msg != "" || perr != nil {
			return ""
		}
		out := buf.String()
		if !strings.Contains(out, "\"a/x\"") || c07QualRe.FindStringSubmatch(out) == nil {
			return "a reference to a/x placed at " + where + " is printed without its import or qualifier:\n" + out
		}
		return ""
	}
}

// c07CaseVariants: import paths that differ only in the case of their letters (all naming the same
// package name): names stay pairwise distinct, every reference is bound to the import of its own path,
// and repeated restores give identical bytes.
func c07CaseVariants(c *Ctx) {
	sets := [][]string{
		{"github.com/Sirupsen/logrus", "github.com/sirupsen/logrus"},
		{"example.com/x/Log", "example.com/x/log", "example.com/X/log"},
		{"a.b/Pkg", "a.b/pkg", "fmt"},
	}
	for si, paths := range sets {
		key := fmt.Sprintf("case-variants|%v", paths)
		c.Eval(key, true)
		first := ""
		for rep := 0; rep < 24; rep++ {
			f, err := decorator.Parse("package p\n\nvar _ = 1\n")
			if err != nil {
				c.Infra(err.Error())
				return
			}
			for i, p := range paths {
				f.Decls = append(f.Decls, &dst.GenDecl{Tok: token.VAR, Specs: []dst.Spec{&dst.ValueSpec{Names: []*dst.Ident{dst.NewIdent("_")}, Values: []dst.Expr{&dst.Ident{Name: fmt.Sprintf("V%d", i), Path: p}}}}})
			}
			var buf bytes.Buffer
			var perr error
			if msg := guard(func() { perr = decorator.NewRestorerWithImports("main", guess.New()).Fprint(&buf, f) }); msg != "" || perr != nil {
				c.Fail(Finding{Sig: "import-restore-fails", Input: key, What: fmt.Sprintf("%s %v", msg, perr), Replay: obj{"kind": "none"}})
				return
			}
			out := buf.String()
			if rep == 0 {
				first = out
				// names distinct, references bound
				af, err := parser.ParseFile(token.NewFileSet(), "", out, 0)
				if err != nil {
					c.Fail(Finding{Sig: "import-restore-fails", Input: key, What: "output does not parse: " + out, Replay: obj{"kind": "none"}})
					return
				}
				nameOf := map[string]string{}
				seen := map[string]string{}
				for _, is := range af.Imports {
					ip, _ := strconv.Unquote(is.Path.Value)
					n := ""
					if is.Name != nil {
						n = is.Name.Name
					} else {
						n, _ = guess.New().ResolvePackage(ip)
					}
					if other, dup := seen[n]; dup {
						c.Fail(Finding{Sig: "imports-Distinct", Input: key, What: fmt.Sprintf("imports %s and %s are both bound to the name %s:\n%s", other, ip, n, out), Replay: obj{"kind": "none"}})
						return
					}
					seen[n] = ip
					nameOf[ip] = n
				}
				for i, p := range paths {
					if !strings.Contains(out, fmt.Sprintf("%s.V%d", nameOf[p], i)) {
						c.Fail(Finding{Sig: "imports-Bound", Input: key, What: fmt.Sprintf("the reference V%d to %s is not a selector on its import (%q):\n%s", i, p, nameOf[p], out), Replay: obj{"kind": "none"}})
						return
					}
				}
			} else if out != first {
				c.Fail(Finding{Sig: "imports-nondeterministic", Input: key, What: fmt.Sprintf("set %d restored twice gives different results:\n%s\nvs\n%s", si, first, out), Replay: obj{"kind": "none"}})
				return
			}
		}
	}
}

// c07TwoPass: the same dst tree restored again after a further edit (fresh import-managing Restorer each
// time; the first restore has edited the import declarations of the tree): a file that had no imports
// gets a reference (import added), the reference is removed again (import removed); and the same with a
// file that had imports.
func c07TwoPass(c *Ctx) {
	for name, src := range map[string]string{
		"no-imports":   "package main\n\nfunc a() {}\n",
		"with-imports": "package main\n\nimport \"os\"\n\nfunc a() { _ = os.Args }\n",
	} {
		key := "two-pass|" + name
		c.Eval(key, true)
		f, err := decorator.NewDecoratorWithImports(token.NewFileSet(), "main", goast.New()).Parse(src)
		if err != nil {
			c.Infra("two-pass source is refused: " + err.Error())
			return
		}
		print := func() (string, error) {
			var buf bytes.Buffer
			err := decorator.NewRestorerWithImports("main", guess.New()).Fprint(&buf, f)
			return buf.String(), err
		}
		fn := f.Decls[len(f.Decls)-1].(*dst.FuncDecl)
		call := &dst.ExprStmt{X: &dst.CallExpr{Fun: &dst.Ident{Name: "Println", Path: "fmt"}}}
		fn.Body.List = append(fn.Body.List, call)
		out1, err := print()
		if err != nil || !strings.Contains(out1, "\"fmt\"") || !strings.Contains(out1, "fmt.Println()") {
			c.Fail(Finding{Sig: "two-pass-import-not-added", Input: key, What: fmt.Sprintf("after adding fmt.Println: %v\n%s", err, out1), Replay: obj{"kind": "none"}})
			continue
		}
		// the same tree printed again without an edit: identical
		if out1b, err := print(); err != nil || out1b != out1 {
			c.Fail(Finding{Sig: "two-pass-unstable", Input: key, What: fmt.Sprintf("the same tree printed twice: %v\n%s\nvs\n%s", err, out1, out1b), Replay: obj{"kind": "none"}})
			continue
		}
		fn.Body.List = fn.Body.List[:len(fn.Body.List)-1]
		out2, err := print()
		want, _ := format.Source([]byte(src))
		if err != nil || out2 != string(want) {
			c.Fail(Finding{Sig: "two-pass-import-not-removed", Input: key, What: fmt.Sprintf("after removing the reference again the file should be the source: %v\n%s", err, out2), Replay: obj{"kind": "none"}})
		}
	}
}
