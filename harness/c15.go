package main

import (
	"bytes"
	"encoding/json"
	"fmt"
	"go/ast"
	"go/parser"
	"go/scanner"
	"go/token"
	"math/rand"
	"os"
	"path/filepath"
	"regexp"
	"strings"
	"time"

	"github.com/dave/dst"
	"github.com/dave/dst/decorator"
	"github.com/dave/dst/decorator/resolver/goast"
	"github.com/dave/dst/decorator/resolver/guess"
)

func init() { register("C15", "exploration", checkC15) }

const entryTraceCfg = `CONSTANTS GuardPackage = TRUE GuardImportPath = TRUE GuardPackageFile = TRUE
INIT TInit
NEXT TNext
INVARIANTS Conforms NeverPanics
POSTCONDITION Accepted
CHECK_DEADLOCK FALSE
`

// parserClass classifies an input by what go/parser itself answers (independently of dst).
func parserClass(src []byte, mode parser.Mode) string {
	fset := token.NewFileSet()
	f, err := parser.ParseFile(fset, "", src, mode|parser.ParseComments)
	switch {
	case err == nil:
		return "ok"
	case f == nil:
		return "nilerr"
	case !f.Package.IsValid():
		return "nopkg"
	}
	return "partial"
}

type c15Obs struct {
	Entry string `json:"entry"`
	Cls   string `json:"cls"`
	Parse string `json:"parse"`
	Print string `json:"print"`
	Msg   string `json:"-"`
}

func printOutcome(f *dst.File) (string, string) {
	var buf bytes.Buffer
	var err error
	if msg := guard(func() { err = decorator.Fprint(&buf, f) }); msg != "" {
		return "panic", msg
	}
	if err != nil {
		return "printerror", ""
	}
	return "output", ""
}

// c15Run pushes one input through the three parse entry points and prints whatever comes back.
func c15Run(src []byte) []c15Obs {
	var out []c15Obs
	one := func(entry string, fn func() (*dst.File, error)) {
		mode := parser.Mode(0)
		if entry == "ParseFile" {
			mode = parser.AllErrors
		}
		o := c15Obs{Entry: entry, Cls: parserClass(src, mode), Print: "none"}
		var f *dst.File
		var err error
		if msg := guard(func() { f, err = fn() }); msg != "" {
			o.Parse, o.Msg = "panic", msg
			out = append(out, o)
			return
		}
		switch {
		case f == nil:
			o.Parse = "error"
			if err == nil {
				o.Parse, o.Msg = "panic", "neither a tree nor an error was returned"
			}
		case err != nil:
			o.Parse = "tree+error"
		default:
			o.Parse = "tree"
		}
		if f != nil && (entry == "Parse+imports" || entry == "ParseDir+imports") {
			var buf bytes.Buffer
			var perr error
			if msg := guard(func() {
				perr = decorator.NewRestorerWithImports("example.com/p", guess.New()).Fprint(&buf, f)
			}); msg != "" {
				o.Print, o.Msg = "panic", msg
			} else if perr != nil {
				o.Print = "printerror"
			} else {
				o.Print = "output"
			}
		} else if f != nil {
			o.Print, o.Msg = printOutcome(f)
			// RestoreFile directly as well
			if o.Print != "panic" {
				if msg := guard(func() { decorator.RestoreFile(f) }); msg != "" {
					o.Print, o.Msg = "panic", msg
				}
			}
			// ... with the object graph restored as well (Restorer.Extras)
			if o.Print != "panic" {
				if msg := guard(func() {
					r := decorator.NewRestorer()
					r.Extras = true
					var b bytes.Buffer
					r.Fprint(&b, f)
				}); msg != "" {
					o.Print, o.Msg = "panic", "restorer with Extras: "+msg
				}
			}
			// ... and through a Restorer that shares a file set with other files (the decorator's, in practice)
			if o.Print != "panic" {
				if msg := guard(func() {
					r := decorator.NewRestorer()
					r.Fset = token.NewFileSet()
					r.Fset.AddFile("other.go", -1, 4321)
					var b bytes.Buffer
					r.Fprint(&b, dst.Clone(f).(*dst.File))
				}); msg != "" {
					o.Print, o.Msg = "panic", "restorer with a shared file set: "+msg
				}
			}
		}
		out = append(out, o)
	}
	one("Parse", func() (*dst.File, error) { return decorator.Parse(src) })
	one("ParseFile", func() (*dst.File, error) {
		return decorator.ParseFile(token.NewFileSet(), "x.go", src, parser.AllErrors)
	})
	// a decorator with import resolution (its restorer counterpart prints what comes back)
	one("Parse+imports", func() (*dst.File, error) {
		return decorator.NewDecoratorWithImports(token.NewFileSet(), "example.com/p", goast.New()).Parse(src)
	})
	parseDir := func(imports bool) func() (*dst.File, error) {
		return func() (*dst.File, error) {
			dir, err := os.MkdirTemp("", "dstv-c15-")
			if err != nil {
				return nil, err
			}
			defer os.RemoveAll(dir)
			if err := os.WriteFile(filepath.Join(dir, "x.go"), src, 0644); err != nil {
				return nil, err
			}
			var pkgs map[string]*dst.Package
			if imports {
				// the directory entry point of a decorator with import resolution
				pkgs, err = decorator.NewDecoratorWithImports(token.NewFileSet(), "example.com/p", goast.New()).ParseDir(dir, nil, 0)
			} else {
				pkgs, err = decorator.ParseDir(token.NewFileSet(), dir, nil, 0)
			}
			if err != nil {
				return nil, err
			}
			for _, p := range pkgs {
				for _, f := range p.Files {
					return f, nil
				}
			}
			return nil, fmt.Errorf("no file")
		}
	}
	one("ParseDir", parseDir(false))
	one("ParseDir+imports", parseDir(true))
	return out
}

type damage struct {
	Name string
	Fn   func(src []byte, r *rand.Rand) []byte
}

func tokenSpans(src []byte) [][2]int {
	its := [][2]int{}
	fset := token.NewFileSet()
	f, err := parser.ParseFile(fset, "", src, parser.ParseComments)
	if err != nil {
		return its
	}
	ast.Inspect(f, func(n ast.Node) bool {
		switch x := n.(type) {
		case *ast.Ident:
			its = append(its, [2]int{fset.Position(x.Pos()).Offset, fset.Position(x.End()).Offset})
		case *ast.BasicLit:
			its = append(its, [2]int{fset.Position(x.Pos()).Offset, fset.Position(x.End()).Offset})
		case *ast.BlockStmt:
			its = append(its, [2]int{fset.Position(x.Lbrace).Offset, fset.Position(x.Lbrace).Offset + 1})
			if x.Rbrace.IsValid() {
				its = append(its, [2]int{fset.Position(x.Rbrace).Offset, fset.Position(x.Rbrace).Offset + 1})
			}
		case *ast.CallExpr:
			its = append(its, [2]int{fset.Position(x.Lparen).Offset, fset.Position(x.Lparen).Offset + 1})
			its = append(its, [2]int{fset.Position(x.Rparen).Offset, fset.Position(x.Rparen).Offset + 1})
		}
		return true
	})
	return its
}

var damages = []damage{
	{"truncate", func(s []byte, r *rand.Rand) []byte { return s[:r.Intn(len(s)+1)] }},
	{"delete-token", func(s []byte, r *rand.Rand) []byte {
		sp := tokenSpans(s)
		if len(sp) == 0 {
			return s
		}
		t := sp[r.Intn(len(sp))]
		return append(append([]byte{}, s[:t[0]]...), s[t[1]:]...)
	}},
	{"duplicate-token", func(s []byte, r *rand.Rand) []byte {
		sp := tokenSpans(s)
		if len(sp) == 0 {
			return s
		}
		t := sp[r.Intn(len(sp))]
		out := append([]byte{}, s[:t[1]]...)
		out = append(out, ' ')
		out = append(out, s[t[0]:t[1]]...)
		return append(out, s[t[1]:]...)
	}},
	{"swap-bytes", func(s []byte, r *rand.Rand) []byte {
		if len(s) < 2 {
			return s
		}
		o := append([]byte{}, s...)
		i := r.Intn(len(s) - 1)
		o[i], o[i+1] = o[i+1], o[i]
		return o
	}},
	{"insert-nul", func(s []byte, r *rand.Rand) []byte {
		i := r.Intn(len(s) + 1)
		return append(append(append([]byte{}, s[:i]...), 0), s[i:]...)
	}},
	{"insert-bad-utf8", func(s []byte, r *rand.Rand) []byte {
		i := r.Intn(len(s) + 1)
		return append(append(append([]byte{}, s[:i]...), 0xff, 0xfe), s[i:]...)
	}},
	{"open-block-comment", func(s []byte, r *rand.Rand) []byte {
		i := r.Intn(len(s) + 1)
		return append(append(append([]byte{}, s[:i]...), []byte("/* open")...), s[i:]...)
	}},
	{"open-string", func(s []byte, r *rand.Rand) []byte {
		i := r.Intn(len(s) + 1)
		return append(append(append([]byte{}, s[:i]...), '"'), s[i:]...)
	}},
	{"open-raw-string", func(s []byte, r *rand.Rand) []byte {
		i := r.Intn(len(s) + 1)
		return append(append(append([]byte{}, s[:i]...), '`'), s[i:]...)
	}},
	{"drop-package-clause", func(s []byte, r *rand.Rand) []byte {
		i := bytes.Index(s, []byte("package "))
		if i < 0 {
			return s
		}
		j := bytes.IndexByte(s[i:], '\n')
		if j < 0 {
			return s[:i]
		}
		return append(append([]byte{}, s[:i]...), s[i+j:]...)
	}},
	{"line-directive", func(s []byte, r *rand.Rand) []byte {
		// a //line directive in front of a random line (generated code: goyacc, cgo, stringer ...)
		lines := bytes.Split(s, []byte("\n"))
		i := r.Intn(len(lines))
		n := []int{1, 7, 100, 5000, 100000}[r.Intn(5)]
		d := []byte(fmt.Sprintf("//line gen.y:%d", n))
		out := append(append(append([][]byte{}, lines[:i]...), d), lines[i:]...)
		return bytes.Join(out, []byte("\n"))
	}},
	{"break-import-path", func(s []byte, r *rand.Rand) []byte {
		// the path literal of one import spec becomes something that is not a string literal
		m := importPathRe.FindAllIndex(s, -1)
		if len(m) == 0 {
			return append(append([]byte{}, s...), []byte("\nimport 'x'\n")...)
		}
		at := m[r.Intn(len(m))]
		lit := s[at[0]:at[1]]
		inner := string(lit[1 : len(lit)-1])
		repl := []string{"'" + inner + "'", "\"" + inner, inner, "1", "\"\\x" + inner + "\"", "`" + inner}[r.Intn(6)]
		return append(append(append([]byte{}, s[:at[0]]...), repl...), s[at[1]:]...)
	}},
	{"insert-garbage", func(s []byte, r *rand.Rand) []byte {
		g := []string{"}", "{", ")", "(", "func", ";;", "@", "#", "case", ":=", "...", "<-", "\\", "'", "0x", "1e", "/*", "*/", "//", "\r", "\t"}
		i := r.Intn(len(s) + 1)
		return append(append(append([]byte{}, s[:i]...), []byte(g[r.Intn(len(g))])...), s[i:]...)
	}},
}

// gapInputs returns src with "/* c */", " // c\n" or "\n" inserted behind every step-th token.
func gapInputs(src []byte, off, step int) [][]byte {
	var ends []int
	fset := token.NewFileSet()
	file := fset.AddFile("", -1, len(src))
	var sc scanner.Scanner
	sc.Init(file, src, nil, scanner.ScanComments)
	for {
		pos, tok, lit := sc.Scan()
		if tok == token.EOF {
			break
		}
		if tok == token.SEMICOLON && lit == "\n" || tok == token.COMMENT {
			continue
		}
		n := len(lit)
		if n == 0 {
			n = len(tok.String())
		}
		ends = append(ends, file.Offset(pos)+n)
	}
	var out [][]byte
	for i, e := range ends {
		if i%step != off || i == len(ends)-1 {
			continue
		}
		for _, ins := range []string{"/* c */", " // c\n", "\n"} {
			out = append(out, append(append(append([]byte{}, src[:e]...), ins...), src[e:]...))
		}
	}
	return out
}

var importPathRe = regexp.MustCompile(`"[A-Za-z0-9_./-]+"`)

// qualified identifiers at every kind of position an expression can stand in (with the import-resolving
// entry points they become path-carrying identifiers, which the import-managing restorer must accept
// wherever the decorator makes them)
const c15Qualified = `package p

import (
	"example.com/cfg"
	"example.com/q"
)

func f(xs []int, ch chan int) {
	for cfg.Index = range xs {
	}
	for _, cfg.Current = range xs {
	}
	for cfg.Index, cfg.Current = range cfg.List {
	}
	cfg.Count++
	cfg.Count += q.Step
	ch <- cfg.Count
	cfg.Table[q.Key] = cfg.Values[q.Lo:q.Hi:q.Max]
	switch cfg.Mode {
	case q.A, q.B:
	}
	switch v := cfg.Any.(type) {
	case q.T, *q.U:
		_ = v
	}
	switch cfg.Any.(type) {
	}
	select {
	case cfg.Ch <- q.Step:
	case cfg.Count = <-cfg.Ch:
	case v, ok := <-q.Ch:
		_, _ = v, ok
	}
	go cfg.Run(q.Step)
	defer cfg.Stop()
	_ = q.T{F: cfg.Count}
	_ = map[q.K]cfg.V{q.Key: cfg.Val}
	_ = [...]cfg.V{q.Idx: cfg.Val}
	_ = &cfg.Val
	_ = *cfg.Ptr
	_ = -cfg.Count
	_ = cfg.Fn(q.Args...)
	_ = cfg.Gen[q.T]
	_ = cfg.Gen2[q.T, cfg.V]
	_ = cfg.Any.(q.T)
	_ = func(a cfg.V, b ...q.T) (r q.U) { return }
	var _ cfg.Iface = (*q.T)(nil)
	var _ chan<- cfg.V
	var _ [q.N]cfg.V
	var _ struct {
		cfg.Embedded
		F q.T ` + "`tag`" + `
	}
	var _ interface {
		cfg.Iface
		M(q.T) cfg.V
	}
	if cfg.Ok && !q.Ok {
	} else if v := cfg.Val; v != q.Zero {
	}
L:
	for cfg.I = 0; cfg.I < q.N; cfg.I++ {
		continue L
	}
	cfg.A, q.B = q.B, cfg.A
	return
}

type t[P cfg.Constraint] struct{ p P }

func (r t[P]) m(x cfg.V) q.T { return q.Conv(x) }
`

var c15Fixed = [][]byte{
	[]byte(c15Qualified),
	[]byte("package p\nimport 'a'\nvar x = a.B\n"), []byte("package p\nimport \"a\nvar x = a.B\n"), []byte("package p\nimport a.b\nvar x = a.B\n"),
	[]byte("package p\nimport \"\\xZ\"\nvar x = a.B\n"), []byte("package p\nimport 1\nvar x = a.B\n"), []byte("package p\n\nimport (\n\t\"fmt\"\n\tx 'y'\n)\n\nvar _ = fmt.Sprint(x.V)\n"),
	[]byte(""), []byte("\n"), []byte(" \t\n\n"), []byte("// c\n"), []byte("/* c */"), []byte("func f(){}"), []byte("package"), []byte("package p"),
	[]byte("package p;"), []byte("package p; func"), []byte("x"), []byte("package p\nfunc f() {"), []byte("package p\nvar x = "), []byte("package p\nimport"),
	[]byte("package p\nimport \"a"), []byte("package p\n/*"), []byte("package p\nvar s = `"), []byte("\xEF\xBB\xBF"), []byte("\xEF\xBB\xBFpackage p\n"), []byte("package p\x00"),
	[]byte("package p\n\nfunc f() {\n\tx := \n}\n"), []byte("package p\n\nfunc f() {\n\tif {\n}\n"), []byte("package p\n\ntype T struct {\n\ta int,\n}\n"),
	[]byte("package p\n\nvar x = [...]int{1, 2,\n"), []byte("package p\n\nfunc (f() {}\n"), []byte("package p\n\nfunc f() { for ;; {} }}\n"),
	[]byte("package a\n\n//line a.y:100\nfunc f() {\n\tg()\n}\n"), []byte("//line g.y:2\npackage a\n\nvar s = `x\ny`\n"),
	[]byte("package a\n\n//line a.y:100000\n/* multi\nline */\nfunc f() {}\n"), []byte("package a\n\nfunc f() { /*line b.go:500:3*/ g() }\n"),
	[]byte("package a\n\n//line a.y:7\nfunc f() {\n//line a.y:7\n\tg()\n//line a.y:3\n\th()\n}\n"), []byte("package a\n\n//line :0\nvar x = 1\n//line a.y:99\nvar y = `a\n"),
	// what stands in front of the package clause: line breaks, blanks, a byte-order mark, comments
	[]byte("\npackage a\n"), []byte("\n\n\npackage a\n\nfunc f() {}\n"), []byte("\r\npackage a"), []byte(" \n// c\npackage a\n"),
	[]byte("\n/* x\n*/\npackage a\n\nvar x = 1\n"), []byte("\xEF\xBB\xBF\npackage p\n"), []byte("\t\npackage p\n"), []byte("// c\n\n\npackage p\n"),
	[]byte("/* c */ package p\n"), []byte("\n// c\n\npackage p // t\n"), []byte("\n\n"), []byte("\n// only a comment\n"), []byte(" package p"),
	[]byte("package p // c\n// d"), []byte("//go:build x\n"), []byte("package p\n\nfunc f() {\n\tlabel:\n}\n"), []byte("package p\n\nfunc f() {\n\tgoto\n}\n"),
}

func checkC15(c *Ctx) {
	c.Assume("go/parser classifies each input (no file / no package clause / partial file / ok) independently of dst")
	// (M) the entry-point machine: panic state unreachable with the package guard, reachable without
	ok, err := RunTLC(TLCRun{Module: "Entry", Workers: 2, Timeout: 5 * time.Minute, Cfg: "CONSTANTS GuardPackage = TRUE GuardImportPath = TRUE GuardPackageFile = TRUE\nINIT Init\nNEXT Next\nINVARIANTS NoPanic NoPackageIsError\nCHECK_DEADLOCK FALSE\n"})
	if err != nil || !ok.OK() {
		c.Infra("TLC model check of Entry failed: " + errText(ok, err))
		return
	}
	c.TLC(ok)
	bad, err := RunTLC(TLCRun{Module: "Entry", Workers: 2, Timeout: 5 * time.Minute, Cfg: "CONSTANTS GuardPackage = FALSE GuardImportPath = TRUE GuardPackageFile = TRUE\nINIT Init\nNEXT Next\nINVARIANTS NoPanic\nCHECK_DEADLOCK FALSE\n"})
	if err != nil || bad.Violated == "" {
		c.Infra("TLC did not find the missing-package panic state without the guard: " + errText(bad, err))
		return
	}
	bad2, err := RunTLC(TLCRun{Module: "Entry", Workers: 2, Timeout: 5 * time.Minute, Cfg: "CONSTANTS GuardPackage = TRUE GuardImportPath = FALSE GuardPackageFile = TRUE\nINIT Init\nNEXT Next\nINVARIANTS NoPanic\nCHECK_DEADLOCK FALSE\n"})
	if err != nil || bad2.Violated == "" {
		c.Infra("TLC did not find the malformed-import-path panic state without the guard: " + errText(bad2, err))
		return
	}
	bad3, err := RunTLC(TLCRun{Module: "Entry", Workers: 2, Timeout: 5 * time.Minute, Cfg: "CONSTANTS GuardPackage = TRUE GuardImportPath = TRUE GuardPackageFile = FALSE\nINIT Init\nNEXT Next\nINVARIANTS NoPanic\nCHECK_DEADLOCK FALSE\n"})
	if err != nil || bad3.Violated == "" {
		c.Infra("TLC did not find the package-without-file panic state without the guard: " + errText(bad3, err))
		return
	}
	c.Set("model", "Entry.tla: NoPanic holds with the package-clause, import-path and package-file guards (4 parser classes x 5 entry points, malformed import paths) and is violated without any one of them")

	nFiles, perFile := 30, 24
	if !c.Quick() {
		nFiles, perFile = 600, 60
	}
	files := corpus(c, nFiles)
	var inputs [][]byte
	var names []string
	for i, f := range c15Fixed {
		inputs = append(inputs, f)
		names = append(names, fmt.Sprintf("fixed-%d", i))
	}
	r := rand.New(rand.NewSource(c.Seed))
	// every truncation point of a few small snippets
	small := []string{"package p\n\n// c\nfunc f(a int) (b string) {\n\tif a > 0 { // d\n\t\treturn `x`\n\t}\n\treturn \"\"\n}\n",
		"package p\n\nimport (\n\t\"fmt\"\n\tx \"os\"\n)\n\ntype T struct {\n\tA int `j:\"a\"` // c\n}\n\nvar _ = fmt.Sprint(x.Args, T{A: 1}, []int{1, 2}[0:1], func() {}, <-make(chan int))\n"}
	for si, s := range small {
		for k := 0; k <= len(s); k++ {
			inputs = append(inputs, []byte(s[:k]))
			names = append(names, fmt.Sprintf("truncate-small%d@%d", si, k))
		}
	}
	for _, f := range files {
		src := f.Src
		if len(src) > 6000 {
			// keep the package clause and a window of the file
			i := r.Intn(len(src) - 4000)
			j := bytes.IndexByte(src[i:], '\n')
			head := src[:bytes.Index(src, []byte("package "))+0]
			_ = head
			src = append(append([]byte{}, []byte("package p\n")...), src[i+j+1:i+4000]...)
		}
		for k := 0; k < perFile; k++ {
			d := damages[r.Intn(len(damages))]
			inputs = append(inputs, d.Fn(src, r))
			names = append(names, d.Name+"|"+f.Path+fmt.Sprintf("#%d", k))
		}
	}
	// legal input in unusual layouts: a block comment, a line comment or a line break in every gap
	// between two adjacent tokens of every template fragment (most stay legal Go; all must be handled)
	if tsrc, err := templateSrc(); err == nil {
		if ms, err := miniFiles(tsrc); err == nil {
			step := 1
			if c.Quick() {
				step = 2
			}
			for mi, m := range ms {
				var buf bytes.Buffer
				if decorator.Fprint(&buf, dst.Clone(m).(*dst.File)) != nil {
					continue
				}
				for gi, in := range gapInputs(buf.Bytes(), (mi+int(c.Seed))%step, step) {
					inputs = append(inputs, in)
					names = append(names, fmt.Sprintf("token-gap|fragment%d#%d", mi, gi))
				}
			}
		}
	}
	obs := make([][]c15Obs, len(inputs))
	parallel(len(inputs), func(i int) { obs[i] = c15Run(inputs[i]) })
	tr := &ndjson{}
	classes := map[string]int{}
	for i, os := range obs {
		for _, o := range os {
			key := names[i] + "|" + o.Entry
			c.Eval(key+shortHash(string(inputs[i])), o.Cls != "ok")
			classes[o.Cls+"/"+o.Entry+"/"+o.Parse+"/"+o.Print]++
			tr.Add(o)
			if o.Parse == "panic" || o.Print == "panic" {
				c.Fail(Finding{Sig: "panic", Input: o.Entry + "|" + shortHash(string(inputs[i])), What: fmt.Sprintf("%s on %s input (%s): %s; input %q", o.Entry, o.Cls, names[i], o.Msg, truncate(string(inputs[i]), 200)), Replay: obj{"kind": "c15", "src": string(inputs[i])}})
			}
		}
		if i%211 == 0 {
			c.Sample(obj{"input": truncate(string(inputs[i]), 120), "damage": names[i], "observed": os})
		}
	}
	c.Set("outcome_classes", classes)
	c.Traces(1)
	res, err := RunTLC(TLCRun{Module: "EntryTrace", Cfg: entryTraceCfg, Workers: 1, Timeout: 20 * time.Minute, Files: map[string][]byte{"trace.ndjson": tr.Bytes()}})
	if err != nil || res.TimedOut {
		c.Infra("TLC (EntryTrace) did not run: " + errText(res, err))
		return
	}
	c.TLC(res)
	if !res.OK() && res.Violated == "Conforms" {
		// an observation the entry-point machine does not allow but that is no panic: report with the offending record
		lines := bytes.Split(tr.Bytes(), []byte("\n"))
		i := int(res.Distinct) - 1
		rec := ""
		if i >= 0 && i < len(lines) {
			rec = string(lines[i])
		}
		c.Fail(Finding{Sig: "entry-outcome-not-allowed", Input: rec, What: "observed outcome is not a behaviour of Entry.tla: " + rec, Replay: obj{"kind": "c15rec", "rec": rec}})
	}
	c.Set("rule", "case = one damaged input through one parse entry point (then Fprint/RestoreFile of any tree returned), recover()-wrapped; non-trivial = go/parser reports an error for the input; distinct by input bytes + entry point")
}

func init() {
	replayers["c15"] = func(raw json.RawMessage) string {
		var r struct {
			Src string `json:"src"`
		}
		json.Unmarshal(raw, &r)
		for _, o := range c15Run([]byte(r.Src)) {
			if o.Parse == "panic" || o.Print == "panic" {
				return o.Entry + ": " + o.Msg
			}
		}
		return ""
	}
}

var _ = strings.TrimSpace
