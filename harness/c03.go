package main

import (
	"bytes"
	"encoding/json"
	"fmt"
	"github.com/dave/dst/decorator/resolver/goast"
	"github.com/dave/dst/decorator/resolver/guess"
	"go/ast"
	"go/format"
	"go/parser"
	"go/scanner"
	"go/token"
	"math/rand"
	"os"
	"regexp"
	"sort"
	"strings"

	"github.com/dave/dst"
	"github.com/dave/dst/decorator"
)

func init() { register("C03", "exploration", checkC03) }

// perturbation rewrites the formatting of a source file without touching tokens or comments.
type perturbation struct {
	Name string
	Fn   func(src []byte, r *rand.Rand) []byte
}

// lineStarts reports for each line whether its first non-blank byte starts a token or comment
// (false inside raw strings and block comments, whose bytes must not be touched).
func tokenStartLines(src []byte) map[int]bool {
	fset := token.NewFileSet()
	file := fset.AddFile("", fset.Base(), len(src))
	var s scanner.Scanner
	s.Init(file, src, nil, scanner.ScanComments)
	starts := map[int]bool{}
	for {
		pos, tok, lit := s.Scan()
		if tok == token.EOF {
			break
		}
		if tok == token.SEMICOLON && lit == "\n" {
			continue
		}
		p := fset.Position(pos)
		// is it the first thing on its line?
		off := p.Offset
		ls := off
		for ls > 0 && src[ls-1] != '\n' {
			ls--
		}
		if len(bytes.TrimLeft(src[ls:off], " \t")) == 0 {
			starts[p.Line] = true
		}
	}
	return starts
}

func mapLines(src []byte, fn func(line int, text string, tokenStart bool) []string) []byte {
	starts := tokenStartLines(src)
	lines := strings.Split(string(src), "\n")
	var out []string
	for i, l := range lines {
		out = append(out, fn(i+1, l, starts[i+1])...)
	}
	return []byte(strings.Join(out, "\n"))
}

func reindent(unit string) func([]byte, *rand.Rand) []byte {
	return func(src []byte, _ *rand.Rand) []byte {
		return mapLines(src, func(_ int, l string, ts bool) []string {
			if !ts {
				return []string{l}
			}
			t := strings.TrimLeft(l, "\t")
			n := len(l) - len(t)
			if strings.HasPrefix(t, " ") { // alignment spaces after tabs: leave the line alone
				return []string{l}
			}
			return []string{strings.Repeat(unit, n) + t}
		})
	}
}

var perturbations = []perturbation{
	{"identity", func(s []byte, _ *rand.Rand) []byte { return s }},
	{"indent-2-spaces", reindent("  ")},
	{"indent-4-spaces", reindent("    ")},
	{"indent-none", reindent("")},
	{"crlf", func(s []byte, _ *rand.Rand) []byte { return bytes.ReplaceAll(s, []byte("\n"), []byte("\r\n")) }},
	{"bom", func(s []byte, _ *rand.Rand) []byte { return append([]byte("\xEF\xBB\xBF"), s...) }},
	// the file does not end in a line break (its last line is often a single closing bracket)
	{"no-final-newline", func(s []byte, _ *rand.Rand) []byte { return bytes.TrimRight(s, "\r\n") }},
	{"trailing-blanks", func(s []byte, r *rand.Rand) []byte {
		return mapLines(s, func(_ int, l string, ts bool) []string {
			if ts && !strings.Contains(l, "`") && r.Intn(3) == 0 {
				return []string{l + "  \t"}
			}
			return []string{l}
		})
	}},
	{"comment-indent-jitter", func(s []byte, r *rand.Rand) []byte {
		// own-line // comments lose or gain a tab (hand-edited code; the hanging-indent rules of the
		// decorator look at comment columns)
		if bytes.Contains(s, []byte("`")) || bytes.Contains(s, []byte("/*")) {
			return s
		}
		lines := strings.Split(string(s), "\n")
		for i, l := range lines {
			t := strings.TrimLeft(l, "\t")
			if strings.HasPrefix(t, "//") && !strings.HasPrefix(t, "//go:") && !strings.HasPrefix(t, "//line") && i > 0 && len(l) > len(t) {
				switch r.Intn(4) {
				case 0:
					lines[i] = "\t" + l
				case 1:
					lines[i] = l[1:]
				}
			}
		}
		return []byte(strings.Join(lines, "\n"))
	}},
	{"blanks-with-spaces", func(s []byte, r *rand.Rand) []byte {
		// empty lines between two code lines hold blanks or a tab (editors leave such lines behind)
		starts := tokenStartLines(s)
		lines := strings.Split(string(s), "\n")
		for i, l := range lines {
			lineCom := func(j int) bool {
				return j >= 0 && j < len(lines) && strings.HasPrefix(strings.TrimSpace(lines[j]), "//")
			}
			simple := !strings.Contains(string(s), "`") && !strings.Contains(string(s), "/*")
			if l == "" && i > 0 && i+1 < len(lines) && (starts[i] || simple && lineCom(i-1)) && (starts[i+2] || simple && lineCom(i+1)) {
				lines[i] = []string{" ", "\t", "  \t "}[r.Intn(3)]
			}
		}
		return []byte(strings.Join(lines, "\n"))
	}},
	{"blank-inflate", func(s []byte, r *rand.Rand) []byte {
		starts := tokenStartLines(s)
		lines := strings.Split(string(s), "\n")
		var out []string
		for i, l := range lines {
			out = append(out, l)
			// add blank lines only between two lines that both start a token (never inside strings/comments)
			if strings.TrimSpace(l) == "" && i+1 < len(lines) && starts[i+2] && i > 0 && (starts[i] || strings.TrimSpace(lines[i-1]) == "") {
				// one, two or three more blank lines (runs of 2, 3 and 4 empty lines)
				for k := r.Intn(3); k >= 0; k-- {
					out = append(out, "")
				}
			}
		}
		return []byte(strings.Join(out, "\n"))
	}},
	{"blank-deflate", func(s []byte, r *rand.Rand) []byte {
		starts := tokenStartLines(s)
		lines := strings.Split(string(s), "\n")
		var out []string
		for i, l := range lines {
			if strings.TrimSpace(l) == "" && i > 0 && i+1 < len(lines) && starts[i] && starts[i+2] && r.Intn(2) == 0 {
				continue
			}
			out = append(out, l)
		}
		return []byte(strings.Join(out, "\n"))
	}},
	{"extra-blank-everywhere", func(s []byte, r *rand.Rand) []byte {
		starts := tokenStartLines(s)
		lines := strings.Split(string(s), "\n")
		var out []string
		for i, l := range lines {
			out = append(out, l)
			if starts[i+1] && i+1 < len(lines) && starts[i+2] && r.Intn(4) == 0 {
				out = append(out, "")
			}
		}
		return []byte(strings.Join(out, "\n"))
	}},
	{"respace-tokens", func(s []byte, r *rand.Rand) []byte {
		// widen the blanks that already separate two tokens on one line
		re := regexp.MustCompile(`([A-Za-z0-9_)\]}]) ([A-Za-z0-9_(\[{*&])`)
		return mapLines(s, func(_ int, l string, ts bool) []string {
			if !ts || strings.ContainsAny(l, "`\"'/") {
				return []string{l}
			}
			return []string{re.ReplaceAllString(l, "$1   $2")}
		})
	}},
}

// tokenEnds lists the end offsets of all non-comment tokens (implicit semicolons excluded).
func tokenEnds(src []byte) (ends []int, eol []int) {
	fset := token.NewFileSet()
	file := fset.AddFile("", fset.Base(), len(src))
	var s scanner.Scanner
	s.Init(file, src, nil, scanner.ScanComments)
	for {
		pos, tok, lit := s.Scan()
		if tok == token.EOF {
			break
		}
		if tok == token.COMMENT || (tok == token.SEMICOLON && lit == "\n") {
			continue
		}
		n := len(lit)
		if n == 0 {
			n = len(tok.String())
		}
		end := fset.Position(pos).Offset + n
		ends = append(ends, end)
		// is the rest of the line blank?
		j := end
		for j < len(src) && (src[j] == ' ' || src[j] == '\t' || src[j] == '\r') {
			j++
		}
		if j < len(src) && src[j] == '\n' {
			eol = append(eol, end)
		}
	}
	return
}

func insertText(src []byte, at map[int]string) []byte {
	var out []byte
	for i := 0; i <= len(src); i++ {
		if s, ok := at[i]; ok {
			out = append(out, s...)
		}
		if i < len(src) {
			out = append(out, src[i])
		}
	}
	return out
}

func init() {
	perturbations = append(perturbations,
		perturbation{"dense-block-comments", func(src []byte, r *rand.Rand) []byte {
			ends, _ := tokenEnds(src)
			at := map[int]string{}
			for k, e := range ends {
				switch r.Intn(6) {
				case 0:
					at[e] = fmt.Sprintf(" /*d%d*/", k)
				case 1:
					at[e] = fmt.Sprintf(" /*d%d*/ /*e%d*/", k, k)
				}
			}
			return insertText(src, at)
		}},
		perturbation{"line-directives", func(src []byte, r *rand.Rand) []byte {
			// //line directives as generated code has them, in front of lines that start a token
			k := 0
			all := strings.Split(string(src), "\n")
			isCom := func(i int) bool {
				return i >= 0 && i < len(all) && (strings.HasPrefix(strings.TrimSpace(all[i]), "//") || strings.HasPrefix(strings.TrimSpace(all[i]), "/*") || strings.HasSuffix(strings.TrimSpace(all[i]), "*/"))
			}
			return mapLines(src, func(ln int, l string, ts bool) []string {
				// in front of code lines only: a directive inside a doc comment is reformatted by go/printer itself
				if ts && ln > 3 && !isCom(ln-1) && !isCom(ln-2) && r.Intn(10) == 0 {
					k++
					n := []int{1, ln, ln + 1, 100 + k, 100000}[r.Intn(5)]
					return []string{fmt.Sprintf("//line gen%d.go:%d", k, n), l}
				}
				return []string{l}
			})
		}},
		perturbation{"dense-eol-comments", func(src []byte, r *rand.Rand) []byte {
			_, eol := tokenEnds(src)
			at := map[int]string{}
			for k, e := range eol {
				switch r.Intn(4) {
				case 0:
					at[e] = fmt.Sprintf(" // l%d", k)
				case 1:
					at[e] = fmt.Sprintf(" /*b%d*/ // l%d", k, k)
				}
			}
			return insertText(src, at)
		}})
}

type tokItem struct{ Kind, Text string }

func tokenStream(src []byte) ([]tokItem, []string, error) {
	its, err := scanItems(src)
	if err != nil {
		return nil, nil, err
	}
	var toks []tokItem
	var coms []string
	for _, it := range its {
		switch it.K {
		case "com":
			coms = append(coms, normComment(it.Text))
		case "tok":
			if it.Text == ";" || it.Text == "," {
				continue
			}
			toks = append(toks, tokItem{"tok", it.Text})
		default:
			toks = append(toks, tokItem{"str", it.Text})
		}
	}
	return toks, coms, nil
}

var reCont = regexp.MustCompile(`\n[ \t]*`)

// normComment applies what go/printer itself does to comment text: CR removal, trailing blanks,
// re-indentation of the continuation lines of block comments.
func normComment(c string) string {
	c = strings.ReplaceAll(c, "\r", "")
	lines := strings.Split(c, "\n")
	for i := range lines {
		lines[i] = strings.TrimRight(lines[i], " \t")
	}
	c = strings.Join(lines, "\n")
	if strings.HasPrefix(c, "/*") {
		c = reCont.ReplaceAllString(c, "\n")
	}
	return c
}

func sameToks(a, b []tokItem) (bool, int) {
	n := len(a)
	if len(b) < n {
		n = len(b)
	}
	for i := 0; i < n; i++ {
		if a[i] != b[i] {
			return false, i
		}
	}
	return len(a) == len(b), n
}

func bag(xs []string) map[string]int {
	m := map[string]int{}
	for _, x := range xs {
		m[x]++
	}
	return m
}

func bagEq(a, b map[string]int) bool {
	if len(a) != len(b) {
		return false
	}
	for k, v := range a {
		if b[k] != v {
			return false
		}
	}
	return true
}

// c03Judge runs decorate+print on src and evaluates the conservation oracles.
func c03Judge(src []byte) (sig, what string) {
	if _, err := parser.ParseFile(token.NewFileSet(), "", src, parser.ParseComments); err != nil {
		return "", "" // not accepted by go/parser: outside the quantifier
	}
	var out bytes.Buffer
	var err error
	shared := ""
	if msg := guard(func() {
		f, e := decorator.Parse(src)
		if e != nil {
			err = e
			return
		}
		err = decorator.Fprint(&out, f)
		if err == nil {
			// the same tree through a Restorer whose file set already holds another file must print the same
			r := decorator.NewRestorer()
			r.Fset = token.NewFileSet()
			r.Fset.AddFile("other.go", -1, 57)
			var b2 bytes.Buffer
			if e2 := r.Fprint(&b2, dst.Clone(f).(*dst.File)); e2 != nil || !bytes.Equal(b2.Bytes(), out.Bytes()) {
				shared = fmt.Sprintf("%v: %s", e2, diffAt(out.Bytes(), b2.Bytes()))
			}
		}
	}); msg != "" {
		return "decorate-print-panic", msg
	}
	if shared != "" {
		return "print-depends-on-fileset", "a Restorer whose file set already holds a file prints differently: " + shared
	}
	if err != nil {
		return "decorate-print-error", err.Error()
	}
	if _, err := parser.ParseFile(token.NewFileSet(), "", out.Bytes(), parser.ParseComments); err != nil {
		return "output-does-not-parse", err.Error()
	}
	want, err := format.Source(src)
	if err != nil {
		return "", ""
	}
	wt, wc, err1 := tokenStream(want)
	gt, gc, err2 := tokenStream(out.Bytes())
	_, ic, err3 := tokenStream(src)
	if err1 != nil || err2 != nil || err3 != nil {
		return "", ""
	}
	if ok, i := sameToks(wt, gt); !ok {
		// K1 shape: only the order of tokens differs and the difference lies inside import declarations
		wb, gb := []string{}, []string{}
		for _, t := range wt {
			wb = append(wb, t.Kind+t.Text)
		}
		for _, t := range gt {
			gb = append(gb, t.Kind+t.Text)
		}
		lo, hi := i-3, i+4
		if lo < 0 {
			lo = 0
		}
		ctx := func(ts []tokItem) string {
			h := hi
			if h > len(ts) {
				h = len(ts)
			}
			if lo >= h {
				return ""
			}
			var s []string
			for _, t := range ts[lo:h] {
				s = append(s, t.Text)
			}
			return strings.Join(s, " ")
		}
		if bagEq(bag(wb), bag(gb)) && importPermutationOnly(want, out.Bytes()) {
			return "import-specs-reordered", fmt.Sprintf("token order differs only by a permutation of import specs: gofmt %q, dst %q", ctx(wt), ctx(gt))
		}
		return "token-stream-differs", fmt.Sprintf("token %d: gofmt(input) has %q, decorate+print has %q", i, ctx(wt), ctx(gt))
	}
	// comments: exactly the input's texts, in the order gofmt emits them
	// go/printer itself moves //go:build lines and writes or drops bare "//" separator lines
	if k := orderKey(gc); k != orderKey(ic) && k != orderKey(wc) {
		if !bagEq(bag(gc), bag(ic)) {
			lost, extra := []string{}, []string{}
			gb, ib := bag(gc), bag(ic)
			for k, v := range ib {
				if gb[k] < v {
					lost = append(lost, truncate(k, 80))
				}
			}
			for k, v := range gb {
				if ib[k] < v {
					extra = append(extra, truncate(k, 80))
				}
			}
			sort.Strings(lost)
			sort.Strings(extra)
			squeeze := func(cs []string) map[string]int {
				m := map[string]int{}
				for _, c := range cs {
					if c == "//" {
						continue
					}
					// go/printer's doc-comment formatter also turns `` and '' into typographic quotes
					c = strings.NewReplacer("``", "\"", "''", "\"", "\u201c", "\"", "\u201d", "\"").Replace(c)
					q := strings.Join(strings.Fields(strings.ReplaceAll(c, "//", "// ")), "")
					// ... and rewrites the list markers * + and the bullet to "-"
					for _, mk := range []string{"//*", "//+", "//\u2022"} {
						if strings.HasPrefix(q, mk) {
							q = "//-" + strings.TrimPrefix(q, mk)
						}
					}
					m[q]++
				}
				return m
			}
			if bagEq(squeeze(gc), squeeze(ic)) && !(len(lost) == 0 && len(extra) == 1 && extra[0] == "//") {
				// every comment is there; only blanks inside comment lines differ: go/printer reformatted
				// a comment group as a doc comment
				return "doc-comment-reformatted", fmt.Sprintf("comment texts differ only in their inner blanks (go/printer reformatted a comment group that became a doc comment): e.g. input %q", lost)
			}
			if len(lost) == 0 && len(extra) == 1 && extra[0] == "//" {
				// gofmt itself writes a bare "//" line between text and directives of one comment group
				return "bare-comment-line-inserted", "go/printer inserted bare // separator lines because a blank line between two comment groups was not preserved"
			}
			return "comments-differ", fmt.Sprintf("comments lost %q, comments appearing %q", lost, extra)
		}
		if hasGenericAlias(src) {
			return "generic-alias-comment-order", "comments around the '=' of a generic type alias come out in a different order (the restorer renders '=' before the type parameters, K2)"
		}
		if ci := commentsOutsideImports(out.Bytes()); ci != "\x00" && ci == commentsOutsideImports(want) {
			return "import-specs-reordered", "comment order differs only inside the import declarations, whose specs were re-sorted"
		}
		return "comment-order-differs", "comment texts are conserved but their order is neither the input's nor gofmt's"
	}
	// the commas as well: gofmt(input) and the output must agree on every comma (a trailing comma comes and
	// goes with the line breaks go/printer sees, so a difference means a line break or a position is off)
	if a, b := commaStream(want), commaStream(out.Bytes()); a != b {
		return "commas-differ", "the output and gofmt(input) have commas at different places: " + diffAt([]byte(a), []byte(b))
	}
	// the same source decorated and printed with import management (qualified identifiers are collapsed into
	// path-carrying identifiers and expanded again): behind the import declarations - which the import
	// manager owns - the tokens, commas and comments are still those of gofmt(input)
	if dupImport(src) {
		return "", "" // one path imported twice: the import manager keeps one name per path (K4, under C08)
	}
	var mout bytes.Buffer
	var merr error
	refused := false
	if msg := guard(func() {
		f, e := decorator.NewDecoratorWithImports(token.NewFileSet(), "example.com/local", goast.New()).Parse(src)
		if e != nil {
			refused = true // a dot-import: the syntax-based resolver says so (C09)
			return
		}
		merr = decorator.NewRestorerWithImports("example.com/local", guess.New()).Fprint(&mout, f)
	}); msg != "" {
		return "decorate-print-panic", "with import management: " + msg
	}
	if refused || merr != nil {
		return "", "" // what the resolvers refuse or cannot name is C09's / C17's business
	}
	wa, ga := afterImports(want), afterImports(mout.Bytes())
	if wa == nil || ga == nil {
		return "output-does-not-parse", "with import management the output does not parse"
	}
	wt2, wc2, e1 := tokenStream(wa)
	gt2, gc2, e2 := tokenStream(ga)
	if e1 != nil || e2 != nil {
		return "", ""
	}
	if ok, i := sameToks(wt2, gt2); !ok {
		return "token-stream-differs", fmt.Sprintf("with import management, behind the imports, token %d differs: %s", i, diffAt(wa, ga))
	}
	if a, b := commaStream(wa), commaStream(ga); a != b {
		return "commas-differ", "with import management the output and gofmt(input) have commas at different places: " + diffAt([]byte(a), []byte(b))
	}
	if orderKey(gc2) != orderKey(wc2) && orderKey(gc2) != orderKey(afterImportsComments(src)) && !bagEq(bag(gc2), bag(wc2)) {
		return "comments-differ", "with import management the comments behind the imports differ: " + diffAt(wa, ga)
	}
	return "", ""
}

// afterImports returns the text behind the last import declaration (the whole text behind the package
// clause when there is none); nil when the text does not parse.
func afterImports(src []byte) []byte {
	fset := token.NewFileSet()
	af, err := parser.ParseFile(fset, "", src, parser.ParseComments)
	if err != nil {
		return nil
	}
	from := fset.Position(af.Name.End()).Offset
	for _, d := range af.Decls {
		if gd, ok := d.(*ast.GenDecl); ok && gd.Tok == token.IMPORT {
			from = fset.Position(gd.End()).Offset
		}
	}
	// a trailing comment on the line of the last import belongs to the import declaration
	for from < len(src) && src[from] != '\n' {
		from++
	}
	return append([]byte("package p\n"), src[from:]...)
}

func afterImportsComments(src []byte) []string {
	a := afterImports(src)
	if a == nil {
		return nil
	}
	_, c, _ := tokenStream(a)
	return c
}

// importPermutationOnly: both texts are equal once their import declarations are removed.
func importPermutationOnly(a, b []byte) bool {
	strip := func(src []byte) string {
		fset := token.NewFileSet()
		f, err := parser.ParseFile(fset, "", src, parser.ImportsOnly)
		if err != nil || len(f.Decls) == 0 {
			return "\x00"
		}
		end := fset.Position(f.Decls[len(f.Decls)-1].End()).Offset
		toks, _, err := tokenStream(src[end:])
		if err != nil {
			return "\x00"
		}
		return fmt.Sprint(toks)
	}
	sa, sb := strip(a), strip(b)
	return sa != "\x00" && sa == sb
}

// commentsOutsideImports lists the comments behind the last import declaration.
func commentsOutsideImports(src []byte) string {
	fset := token.NewFileSet()
	f, err := parser.ParseFile(fset, "", src, parser.ImportsOnly)
	if err != nil || len(f.Decls) == 0 {
		return "\x00"
	}
	end := fset.Position(f.Decls[len(f.Decls)-1].End()).Offset
	_, coms, err := tokenStream(src[end:])
	if err != nil {
		return "\x00"
	}
	return strings.Join(coms, "\x00")
}

func checkC03(c *Ctx) {
	c.Assume("the quantifier is all inputs go/parser accepts; inputs are corpus files under formatting perturbations that leave tokens and comments untouched")
	c.Assume("comment texts are compared after the normalisation go/printer applies itself (CR, trailing blanks, continuation-line indentation)")
	nFiles, perFile := 60, 5
	if !c.Quick() {
		nFiles, perFile = 1500, len(perturbations)
	}
	files := corpus(c, nFiles)
	r0 := rand.New(rand.NewSource(c.Seed))
	seeds := make([]int64, len(files))
	for i := range seeds {
		seeds[i] = r0.Int63()
	}
	type snip struct{ name, src string }
	snips := make([][]snip, len(files))
	parallel(len(files), func(i int) {
		f := files[i]
		r := rand.New(rand.NewSource(seeds[i]))
		order := r.Perm(len(perturbations))
		nPert := perFile
		if strings.Contains(f.Path, "/corpus/extra/") {
			// the small hand-written files get every perturbation, so that every listed finding is reproduced on every run
			nPert = len(perturbations)
			for k := range order {
				order[k] = k
			}
		}
		for k := 0; k < nPert && k < len(order); k++ {
			p := perturbations[order[k]]
			if k == 0 && nPert < len(perturbations) {
				p = perturbations[4] // always include CRLF
			}
			if k == 1 && nPert < len(perturbations) {
				p = perturbations[len(perturbations)-1-r.Intn(3)] // and one of the dense-comment / line-directive perturbations
			}
			src := p.Fn(f.Src, r)
			key := f.Path + "|" + p.Name
			sig, what := c03Judge(src)
			c.Eval(key, p.Name != "identity")
			if sig != "" {
				in := key
				if p.Name == "crlf" {
					in = "crlf|" + f.Path
				}
				if p.Name == "blanks-with-spaces" {
					in = "blank-line-with-spaces|" + f.Path
				}
				if sig == "generic-alias-comment-order" {
					in = "generic-alias|" + key
				}
				c.Fail(Finding{Sig: sig, Input: in, What: p.Name + ": " + what + " (" + f.Path + ")", Replay: obj{"kind": "c03", "path": f.Path, "perturbation": p.Name, "seed": seeds[i]}})
			}
			if i%3 == 0 && k < 3 {
				for _, sn := range declSnippets(src) {
					if len(snips[i]) < 40 {
						snips[i] = append(snips[i], snip{p.Name, sn})
					}
				}
			}
		}
		if i%9 == 0 {
			c.Sample(obj{"file": f.Path, "perturbations": perFile})
		}
	})
	// systematic part: every template fragment with a block comment behind every token, and behind every
	// second token (both parities): comments at every place the decorator can meet one
	if tsrc, err := templateSrc(); err == nil {
		if ms, err := miniFiles(tsrc); err == nil {
			type gj struct {
				mi, off, step int
				src           []byte
			}
			var gjs []gj
			for mi, m := range ms {
				var buf bytes.Buffer
				if decorator.Fprint(&buf, m) != nil {
					continue
				}
				for _, v := range [][2]int{{0, 1}, {0, 2}, {1, 2}} {
					gjs = append(gjs, gj{mi, v[0], v[1], numberedComments(buf.Bytes(), v[0], v[1])})
				}
			}
			parallel(len(gjs), func(i int) {
				g := gjs[i]
				key := fmt.Sprintf("template-fragment-%d|comment-every-%d-from-%d", g.mi, g.step, g.off)
				sig, what := c03Judge(g.src)
				c.Eval(key, true)
				if sig != "" {
					in := key
					if sig == "generic-alias-comment-order" {
						in = "generic-alias|" + key
					}
					c.Fail(Finding{Sig: sig, Input: in, What: key + ": " + what, Replay: obj{"kind": "c03src", "src": string(g.src)}})
				}
			})
			c.Set("systematic_comment_inputs", len(gjs))
		}
	}
	// comments at every indentation below a clause body or a statement that ends on a continuation line
	// (the decorator's hanging-indent rules look at comment columns; arbitrary formatting puts them anywhere)
	{
		var seqs [][]int
		for a := 0; a <= 4; a++ {
			for b := 0; b <= 4; b++ {
				seqs = append(seqs, []int{a, b})
				for d := 0; d <= 4; d++ {
					seqs = append(seqs, []int{a, b, d})
				}
			}
		}
		frames := [][2]string{
			{"package p\n\nfunc f() {\n\tswitch x {\n\tcase 1:\n\t\tfoo()\n", "\tcase 2:\n\t\tbar()\n\t}\n}\n"},
			{"package p\n\nfunc f() {\n\tselect {\n\tcase <-c:\n\t\tfoo()\n", "\tcase d <- 1:\n\t}\n}\n"},
			{"package p\n\nfunc f() {\n\tswitch x {\n\tcase 1:\n", "\tdefault:\n\t}\n}\n"},
			{"package p\n\nfunc f() {\n\tfoo(a,\n\t\tb)\n", "\tbar()\n}\n"},
			{"package p\n\nfunc f() {\n\tif x {\n\t\tfoo()\n", "\t}\n\tbar()\n}\n"},
		}
		n := 0
		for fi, fr := range frames {
			for _, seq := range seqs {
				var b strings.Builder
				b.WriteString(fr[0])
				for k, ind := range seq {
					b.WriteString(strings.Repeat("\t", ind) + fmt.Sprintf("// h%d\n", k+1))
				}
				b.WriteString(fr[1])
				key := fmt.Sprintf("hanging-comments|frame-%d|indents %v", fi, seq)
				sig, what := c03Judge([]byte(b.String()))
				c.Eval(key, true)
				n++
				if sig != "" {
					c.Fail(Finding{Sig: sig, Input: key, What: key + ": " + what, Replay: obj{"kind": "c03src", "src": b.String()}})
				}
			}
		}
		c.Set("hanging_comment_layouts", n)
	}
	// model-level conservation on the real fragment lists of perturbed snippets (Link.tla, property layer)
	var items []traceItem
	for i := range snips {
		for _, sn := range snips[i] {
			it, _ := linkRecord(c, "C03", sn.src, 900)
			if it.Trace != nil {
				items = append(items, it)
			}
		}
	}
	c.Traces(int64(len(items)))
	c.Set("link_snippets", len(items))
	validateLinkNoSkeleton(c, items)
	c.Set("perturbations", func() []string {
		var s []string
		for _, p := range perturbations {
			s = append(s, p.Name)
		}
		return s
	}())
	// one Decorator / Restorer / FileRestorer for several files (Reuse.tla), sources that are not canonical:
	// tokens, commas and comments of every print against gofmt of the source
	if !reuseCheck(c, c03ReuseSources, c03ReuseJudge, "c03reuse") {
		return
	}
	c03Extras(c)
	c.Set("rule", "case = corpus file x formatting perturbation, decorated and printed by the real code; oracles: output parses, token stream equals gofmt(input)'s, comment texts conserved in order; non-trivial = not the identity perturbation; distinct by path+perturbation. Perturbed declaration snippets are also validated by TLC against Link.tla (NoPanic, AllAttached, RoundTrip).")
}

func init() {
	replayers["c03"] = func(raw json.RawMessage) string {
		var r struct {
			Path string `json:"path"`
			Pert string `json:"perturbation"`
			Seed int64  `json:"seed"`
		}
		json.Unmarshal(raw, &r)
		src, err := os.ReadFile(r.Path)
		if err != nil {
			return "harness: " + err.Error()
		}
		for _, p := range perturbations {
			if p.Name == r.Pert {
				// every perturbation that uses randomness is tried with the recorded seed's generator
				rr := rand.New(rand.NewSource(r.Seed))
				_, what := c03Judge(p.Fn(src, rr))
				if what == "" {
					_, what = c03Judge(p.Fn(src, rand.New(rand.NewSource(r.Seed+1))))
				}
				return what
			}
		}
		return "harness: unknown perturbation"
	}
}

// validateLinkNoSkeleton: for arbitrary formatting only NoPanic and AllAttached are demanded of the
// attachment (whitespace may differ, so the line skeleton is not compared).
func validateLinkNoSkeleton(c *Ctx, items []traceItem) {
	cfg := strings.Replace(linkTraceCfg, "INVARIANTS Check", "INVARIANTS CheckC03", 1)
	validateTraces(c, "LinkTrace", cfg, items, 150, false, func(it traceItem, res *TLCResult) {
		v := strings.Join(res.Payloads("VERDICT "), " ")
		c.Fail(Finding{Sig: "link-trace-rejected", Input: shortHash(it.Key), What: "Link.tla verdict " + v + " on snippet:\n" + truncate(it.Key, 600), Replay: it.Replay})
	})
}

func orderKey(coms []string) string {
	var out []string
	for _, c := range coms {
		if c == "//" || strings.HasPrefix(c, "//go:build") || strings.HasPrefix(c, "// +build") {
			continue
		}
		out = append(out, c)
	}
	return strings.Join(out, "\x00")
}

// hasGenericAlias: the source declares a type alias with type parameters (type A[T any] = B[T]).
func hasGenericAlias(src []byte) bool {
	f, err := parser.ParseFile(token.NewFileSet(), "", src, parser.SkipObjectResolution)
	if err != nil {
		return false
	}
	found := false
	ast.Inspect(f, func(n ast.Node) bool {
		if ts, ok := n.(*ast.TypeSpec); ok && ts.TypeParams != nil && ts.Assign.IsValid() {
			found = true
		}
		return !found
	})
	return found
}

// numberedComments inserts " /*gN*/" behind every step-th token of src (N = token index).
func numberedComments(src []byte, off, step int) []byte {
	ends, _ := tokenEnds(src)
	at := map[int]string{}
	for k, e := range ends {
		if k%step == off && k != len(ends)-1 {
			at[e] = fmt.Sprintf(" /*g%d*/", k)
		}
	}
	return insertText(src, at)
}

func init() {
	replayers["c03src"] = func(raw json.RawMessage) string {
		var r struct{ Src string }
		json.Unmarshal(raw, &r)
		_, what := c03Judge([]byte(r.Src))
		return what
	}
}

// commaStream renders the token sequence with commas (semicolons left out), one token per blank.
func commaStream(src []byte) string {
	its, err := scanItems(src)
	if err != nil {
		return ""
	}
	var sb strings.Builder
	for _, it := range its {
		if it.K == "com" || (it.K == "tok" && it.Text == ";") {
			continue
		}
		sb.WriteString(it.Text)
		sb.WriteByte(' ')
	}
	return sb.String()
}

// sources for Reuse.tla under C03: not gofmt-canonical, with trailing commas in front of closing brackets
// on their own line (a comma gofmt keeps only while the line structure is kept)
var c03ReuseSources = []string{
	"package p\n\nvar x = []int{1, // one\n2, 3, // three\n}\n\nfunc f(a int, b int,\n) {\n\n\n  g(1, 2,\n)\n}\n",
	"package p\n// doc\ntype T struct {\n  A int // a\n\n\n  B []string\n}\nfunc (t T) m( ) { switch t.A {\ncase 1:\n// c\n}\n}\n",
	"package p\n\nimport (\n\t\"zeta\"\n\n\n\t\"alpha\"\n)\n\n/* b */ const c = 1\n\n\n\nvar (\n\ty = map[string]int{\n\"a\": 1,\n\n\"b\": 2,\n}\n)\n",
}

func c03ReuseJudge(src, out string) string {
	want, err := format.Source([]byte(src))
	if err != nil {
		return ""
	}
	wt, wc, err1 := tokenStream(want)
	gt, gc, err2 := tokenStream([]byte(out))
	if err1 != nil || err2 != nil {
		return fmt.Sprintf("does not scan: %v %v", err1, err2)
	}
	if ok, at := sameToks(wt, gt); !ok {
		return fmt.Sprintf("has another token sequence than gofmt(source) (token %d): %s", at, diffAt(want, []byte(out)))
	}
	if strings.Join(wc, "\x00") != strings.Join(gc, "\x00") {
		return "has other comments than gofmt(source): " + diffAt(want, []byte(out))
	}
	if commaStream(want) != commaStream([]byte(out)) {
		return "has other commas than gofmt(source): " + diffAt(want, []byte(out))
	}
	return ""
}

func init() {
	replayers["c03reuse"] = func(raw json.RawMessage) string {
		var r struct{ Beh string }
		json.Unmarshal(raw, &r)
		var b reuseBeh
		if json.Unmarshal([]byte(r.Beh), &b) != nil {
			return ""
		}
		return reuseReplayWith(b, c03ReuseSources, c03ReuseJudge)
	}
}

// c03Extras: the tokens and comments that survive are those of the TREE. A declaration is taken out of
// the decorated file (names elsewhere in the file still point at it through their objects) and the
// file is printed twice, by a plain Restorer and by one that restores the object graph too (Extras): the
// same token sequence and the same comments, none of the removed declaration's.
func c03Extras(c *Ctx) {
	srcs := []string{
		"package p\n// helper is going away\nfunc helper(a int /* arg */) int {\n  // inside helper\n  return a /* one */\n} // after helper\n\n// caller stays\nfunc caller() int {\n  return helper(1) // call\n}\n",
		"package p\n\n// limit doc\nconst limit = 10 // limit trail\n\n// T doc\ntype T struct {\n  next *T // next\n  n [limit]int\n}\n\n// v doc\nvar v = T{} /* v trail */\n\nfunc main() {\n  /* use */ _ = v.next\n  var t T // local\n  _ = t\n}\n",
		"package p\n\nfunc a() { b() } // a\n\n/* b lead */\nfunc b() { // open\n  a()\n  // last in b\n}\n\nvar _ = a\n",
	}
	for si, src := range srcs {
		f0, err := decorator.Parse(src)
		if err != nil {
			c.Infra("c03Extras source does not parse: " + err.Error())
			return
		}
		for k := range f0.Decls {
			key := fmt.Sprintf("extras-removed|src%d|decl%d", si, k)
			c.Eval(key, true)
			f, _ := decorator.Parse(src)
			f.Decls = append(f.Decls[:k:k], f.Decls[k+1:]...)
			var plain, extras bytes.Buffer
			var e1, e2 error
			msg := guard(func() {
				e1 = decorator.NewRestorer().Fprint(&plain, f)
				r := decorator.NewRestorer()
				r.Extras = true
				e2 = r.Fprint(&extras, f)
			})
			if msg != "" || e1 != nil || e2 != nil {
				c.Fail(Finding{Sig: "print-fails", Input: key, What: fmt.Sprintf("a file with one declaration removed does not print: %s %v %v", msg, e1, e2), Replay: obj{"kind": "none"}})
				continue
			}
			wt, wc, err1 := tokenStream(plain.Bytes())
			gt, gc, err2 := tokenStream(extras.Bytes())
			if err1 != nil || err2 != nil {
				c.Fail(Finding{Sig: "output-does-not-parse", Input: key, What: fmt.Sprintf("does not scan: %v %v", err1, err2), Replay: obj{"kind": "none"}})
				continue
			}
			if ok, at := sameToks(wt, gt); !ok {
				c.Fail(Finding{Sig: "tokens-differ", Input: key, What: fmt.Sprintf("printed with Extras the edited file has another token sequence (token %d): %s", at, diffAt(plain.Bytes(), extras.Bytes())), Replay: obj{"kind": "none"}})
			} else if strings.Join(wc, "\x00") != strings.Join(gc, "\x00") {
				c.Fail(Finding{Sig: "comments-differ", Input: key, What: "printed with Extras the edited file has other comments than the tree holds: " + diffAt(plain.Bytes(), extras.Bytes()), Replay: obj{"kind": "none"}})
			}
		}
	}
}
