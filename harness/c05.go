package main

import (
	"bytes"
	"encoding/json"
	"fmt"
	"go/token"
	"math/rand"
	"regexp"
	"strings"
	"time"

	"github.com/dave/dst"
	"github.com/dave/dst/decorator"
	"github.com/dave/dst/decorator/resolver/goast"
	"github.com/dave/dst/decorator/resolver/simple"
)

func init() { register("C05", "model_checking", checkC05) }

type spElem struct {
	B int      `json:"b"`
	A int      `json:"a"`
	S []string `json:"s"`
	E []string `json:"e"`
}

// spKind is one own-line sibling list kind: source with n elements, and access to the elements.
type spKind struct {
	Name     string
	Src      func(n int) string
	Elems    func(f *dst.File) []dst.Node
	Decs     bool // Start/End decorations are part of the enumerated space for this kind
	KeepLast bool // go/printer keeps a blank line in front of the closing delimiter of this construct
	Expr     bool // expression-level list: elements may share lines with the delimiters and each other
}

var spKinds = []spKind{
	{"BlockStmt.List", func(n int) string {
		return "package p\n\nfunc f() {\n" + labels(n, func(i int) string { return fmt.Sprintf("\te%d()", i) }, "\n") + "\n}\n"
	}, func(f *dst.File) []dst.Node {
		var out []dst.Node
		for _, s := range f.Decls[0].(*dst.FuncDecl).Body.List {
			out = append(out, s)
		}
		return out
	}, true, true, false},
	{"GenDecl.Specs", func(n int) string {
		return "package p\n\nvar (\n" + labels(n, func(i int) string { return fmt.Sprintf("\te%d = 0", i) }, "\n") + "\n)\n"
	}, func(f *dst.File) []dst.Node {
		var out []dst.Node
		for _, s := range f.Decls[0].(*dst.GenDecl).Specs {
			out = append(out, s)
		}
		return out
	}, true, false, false},
	{"StructType.Fields", func(n int) string {
		return "package p\n\ntype t struct {\n" + labels(n, func(i int) string { return fmt.Sprintf("\te%d int", i) }, "\n") + "\n}\n"
	}, func(f *dst.File) []dst.Node {
		var out []dst.Node
		for _, s := range f.Decls[0].(*dst.GenDecl).Specs[0].(*dst.TypeSpec).Type.(*dst.StructType).Fields.List {
			out = append(out, s)
		}
		return out
	}, true, false, false},
	{"InterfaceType.Methods", func(n int) string {
		return "package p\n\ntype t interface {\n" + labels(n, func(i int) string { return fmt.Sprintf("\te%d()", i) }, "\n") + "\n}\n"
	}, func(f *dst.File) []dst.Node {
		var out []dst.Node
		for _, s := range f.Decls[0].(*dst.GenDecl).Specs[0].(*dst.TypeSpec).Type.(*dst.InterfaceType).Methods.List {
			out = append(out, s)
		}
		return out
	}, true, false, false},
	{"SwitchStmt.Cases", func(n int) string {
		return "package p\n\nfunc f() {\n\tswitch {\n" + labels(n, func(i int) string { return fmt.Sprintf("\tcase e%d:", i) }, "\n") + "\n\t}\n}\n"
	}, func(f *dst.File) []dst.Node {
		var out []dst.Node
		for _, s := range f.Decls[0].(*dst.FuncDecl).Body.List[0].(*dst.SwitchStmt).Body.List {
			out = append(out, s)
		}
		return out
	}, false, true, false},
	// single-spec declarations without parentheses: the spec carries the same After space as the statement
	// around it (nested nodes ending at the same place: the rule is not additive across nesting either)
	{"BlockStmt.List(var)", func(n int) string {
		return "package p\n\nfunc f() {\n" + labels(n, func(i int) string { return fmt.Sprintf("\tvar e%d = 0", i) }, "\n") + "\n}\n"
	}, func(f *dst.File) []dst.Node {
		var out []dst.Node
		for _, s := range f.Decls[0].(*dst.FuncDecl).Body.List {
			out = append(out, s)
		}
		return out
	}, false, true, false},
	// every single-line statement type as the element of a block (the restorer renders Before, the Start
	// decorations, the statement, the End decorations and After per node type)
	stmtKind("send", "c <- e%d"), stmtKind("incdec", "e%d++"), stmtKind("assign", "e%d = 1"), stmtKind("define", "e%d := 1"),
	stmtKind("go", "go e%d()"), stmtKind("defer", "defer e%d()"), stmtKind("goto", "goto e%d"),
	stmtKind("decl", "var e%d int"), stmtKind("return", "return e%d"),
	{"SelectStmt.Comms", func(n int) string {
		return "package p\n\nfunc f() {\n\tselect {\n" + labels(n, func(i int) string { return fmt.Sprintf("\tcase <-e%d:", i) }, "\n") + "\n\t}\n}\n"
	}, func(f *dst.File) []dst.Node {
		var out []dst.Node
		for _, s := range f.Decls[0].(*dst.FuncDecl).Body.List[0].(*dst.SelectStmt).Body.List {
			out = append(out, s)
		}
		return out
	}, false, true, false},
	{"TypeSwitchStmt.Cases", func(n int) string {
		return "package p\n\nfunc f() {\n\tswitch x.(type) {\n" + labels(n, func(i int) string { return fmt.Sprintf("\tcase e%d:", i) }, "\n") + "\n\t}\n}\n"
	}, func(f *dst.File) []dst.Node {
		var out []dst.Node
		for _, s := range f.Decls[0].(*dst.FuncDecl).Body.List[0].(*dst.TypeSwitchStmt).Body.List {
			out = append(out, s)
		}
		return out
	}, false, true, false},
	{"CompositeLit.Elts", func(n int) string {
		return "package p\n\nvar x = []int{\n" + labels(n, func(i int) string { return fmt.Sprintf("\te%d,", i) }, "\n") + "\n}\n"
	}, func(f *dst.File) []dst.Node {
		var out []dst.Node
		for _, s := range f.Decls[0].(*dst.GenDecl).Specs[0].(*dst.ValueSpec).Values[0].(*dst.CompositeLit).Elts {
			out = append(out, s)
		}
		return out
	}, false, false, true},
	{"CallExpr.Args", func(n int) string {
		return "package p\n\nvar x = g(\n" + labels(n, func(i int) string { return fmt.Sprintf("\te%d,", i) }, "\n") + "\n)\n"
	}, func(f *dst.File) []dst.Node {
		var out []dst.Node
		for _, s := range f.Decls[0].(*dst.GenDecl).Specs[0].(*dst.ValueSpec).Values[0].(*dst.CallExpr).Args {
			out = append(out, s)
		}
		return out
	}, false, false, true},
	{"IndexListExpr.Indices", func(n int) string {
		return "package p\n\nvar x = g[\n" + labels(n, func(i int) string { return fmt.Sprintf("\te%d,", i) }, "\n") + "\n]\n"
	}, func(f *dst.File) []dst.Node {
		var out []dst.Node
		switch x := f.Decls[0].(*dst.GenDecl).Specs[0].(*dst.ValueSpec).Values[0].(type) {
		case *dst.IndexExpr:
			out = append(out, x.Index)
		case *dst.IndexListExpr:
			for _, s := range x.Indices {
				out = append(out, s)
			}
		}
		return out
	}, false, false, true},
	// the same lists with package-qualified elements: decorated with import resolution the elements are
	// single identifiers carrying a path, and the import-managing restorer renders them itself
	{"CompositeLit.Elts(qualified)", func(n int) string {
		return spQualHead + "var x = []int{\n" + labels(n, func(i int) string { return fmt.Sprintf("\tlib.e%d,", i) }, "\n") + "\n}\n"
	}, func(f *dst.File) []dst.Node {
		var out []dst.Node
		for _, s := range f.Decls[1].(*dst.GenDecl).Specs[0].(*dst.ValueSpec).Values[0].(*dst.CompositeLit).Elts {
			out = append(out, s)
		}
		return out
	}, false, false, true},
	{"CallExpr.Args(qualified)", func(n int) string {
		return spQualHead + "var x = g(\n" + labels(n, func(i int) string { return fmt.Sprintf("\tlib.e%d,", i) }, "\n") + "\n)\n"
	}, func(f *dst.File) []dst.Node {
		var out []dst.Node
		for _, s := range f.Decls[1].(*dst.GenDecl).Specs[0].(*dst.ValueSpec).Values[0].(*dst.CallExpr).Args {
			out = append(out, s)
		}
		return out
	}, false, false, true},
	exprKind("FuncDecl.Params", func(n int) string {
		return "package p\n\nfunc f(" + labels(n, func(i int) string { return fmt.Sprintf("e%d int", i) }, ", ") + ") {}\n"
	}, func(f *dst.File) []dst.Node {
		var out []dst.Node
		for _, s := range f.Decls[0].(*dst.FuncDecl).Type.Params.List {
			out = append(out, s)
		}
		return out
	}),
	// the same lists with multi-byte identifiers as the last token of every element (positions count bytes)
	exprKind("FuncDecl.Params(multi-byte)", func(n int) string {
		return "package p\n\nfunc f(" + labels(n, func(i int) string { return fmt.Sprintf("e%d 数据Ωμέγα", i) }, ", ") + ") {}\n"
	}, func(f *dst.File) []dst.Node {
		var out []dst.Node
		for _, s := range f.Decls[0].(*dst.FuncDecl).Type.Params.List {
			out = append(out, s)
		}
		return out
	}),
	exprKind("CallExpr.Args(multi-byte)", func(n int) string {
		return "package p\n\nvar x = g(" + labels(n, func(i int) string { return fmt.Sprintf("e%d.größe日本", i) }, ", ") + ")\n"
	}, func(f *dst.File) []dst.Node {
		var out []dst.Node
		for _, s := range f.Decls[0].(*dst.GenDecl).Specs[0].(*dst.ValueSpec).Values[0].(*dst.CallExpr).Args {
			out = append(out, s)
		}
		return out
	}),
	stmtKind("multi-byte", "e%d = größe日本"),
	exprKind("FuncDecl.Results", func(n int) string {
		return "package p\n\nfunc f() (" + labels(n, func(i int) string { return fmt.Sprintf("e%d int", i) }, ", ") + ") { return }\n"
	}, func(f *dst.File) []dst.Node {
		var out []dst.Node
		for _, s := range f.Decls[0].(*dst.FuncDecl).Type.Results.List {
			out = append(out, s)
		}
		return out
	}),
	exprKind("FuncLit.Params", func(n int) string {
		return "package p\n\nvar x = func(" + labels(n, func(i int) string { return fmt.Sprintf("e%d int", i) }, ", ") + ") {}\n"
	}, func(f *dst.File) []dst.Node {
		var out []dst.Node
		for _, s := range f.Decls[0].(*dst.GenDecl).Specs[0].(*dst.ValueSpec).Values[0].(*dst.FuncLit).Type.Params.List {
			out = append(out, s)
		}
		return out
	}),
	exprKind("InterfaceMethod.Params", func(n int) string {
		return "package p\n\ntype t interface {\n\tm(" + labels(n, func(i int) string { return fmt.Sprintf("e%d int", i) }, ", ") + ")\n}\n"
	}, func(f *dst.File) []dst.Node {
		var out []dst.Node
		m := f.Decls[0].(*dst.GenDecl).Specs[0].(*dst.TypeSpec).Type.(*dst.InterfaceType).Methods.List[0]
		for _, s := range m.Type.(*dst.FuncType).Params.List {
			out = append(out, s)
		}
		return out
	}),
	exprKind("TypeSpec.TypeParams", func(n int) string {
		return "package p\n\ntype t[" + labels(n, func(i int) string { return fmt.Sprintf("e%d any", i) }, ", ") + "] int\n"
	}, func(f *dst.File) []dst.Node {
		var out []dst.Node
		for _, s := range f.Decls[0].(*dst.GenDecl).Specs[0].(*dst.TypeSpec).TypeParams.List {
			out = append(out, s)
		}
		return out
	}),
	exprKind("ReturnStmt.Results", func(n int) string {
		return "package p\n\nfunc f() {\n\treturn " + labels(n, func(i int) string { return fmt.Sprintf("e%d", i) }, ", ") + "\n}\n"
	}, func(f *dst.File) []dst.Node {
		var out []dst.Node
		for _, s := range f.Decls[0].(*dst.FuncDecl).Body.List[0].(*dst.ReturnStmt).Results {
			out = append(out, s)
		}
		return out
	}),
	exprKind("AssignStmt.Rhs", func(n int) string {
		return "package p\n\nfunc f() {\n\t" + labels(n, func(i int) string { return fmt.Sprintf("v%d", i) }, ", ") + " = " + labels(n, func(i int) string { return fmt.Sprintf("e%d", i) }, ", ") + "\n}\n"
	}, func(f *dst.File) []dst.Node {
		var out []dst.Node
		for _, s := range f.Decls[0].(*dst.FuncDecl).Body.List[0].(*dst.AssignStmt).Rhs {
			out = append(out, s)
		}
		return out
	}),
	exprKind("CaseClause.List", func(n int) string {
		return "package p\n\nfunc f() {\n\tswitch x {\n\tcase " + labels(n, func(i int) string { return fmt.Sprintf("e%d", i) }, ", ") + ":\n\t}\n}\n"
	}, func(f *dst.File) []dst.Node {
		var out []dst.Node
		for _, s := range f.Decls[0].(*dst.FuncDecl).Body.List[0].(*dst.SwitchStmt).Body.List[0].(*dst.CaseClause).List {
			out = append(out, s)
		}
		return out
	}),
}

// every expression form as the element of a literal that has one element per line (the restorer renders
// Before, the decorations and After per node type)
func init() {
	for _, form := range []struct{ name, format string }{
		{"unary-and", "&e%d"}, {"unary-minus", "-e%d"}, {"receive", "<-e%d"}, {"star", "*e%d"}, {"key-value", "e%d: 0"},
		{"selector", "e%d.f"}, {"index", "e%d[0]"}, {"slice", "e%d[0:1]"}, {"slice3", "e%d[0:1:2]"}, {"assert", "e%d.(T)"},
		{"paren", "(e%d)"}, {"call", "e%d(1)"}, {"composite", "T{e%d}"}, {"elided-composite", "{e%d}"}, {"binary", "e%d + 1"},
		{"instance", "e%d[int, string]"}, {"func-lit", "func() { e%d() }"}, {"array-type", "[2]e%d"}, {"map-type", "map[e%d]int"},
		{"chan-type", "chan<- e%d"}, {"func-type", "func(e%d) int"}, {"struct-type", "struct{ e%d int }"}, {"interface-type", "interface{ e%d() }"},
		{"ellipsis-array", "[...]e%d{}"}, {"basic-lit", "\"e%d\""}, {"conversion", "[]byte(e%d)"},
	} {
		form := form
		spKinds = append(spKinds, exprKind("CompositeLit.Elts("+form.name+")", func(n int) string {
			return "package p\n\nvar x = []T{\n" + labels(n, func(i int) string { return "\t" + fmt.Sprintf(form.format, i) + "," }, "\n") + "\n}\n"
		}, func(f *dst.File) []dst.Node {
			var out []dst.Node
			for _, s := range f.Decls[0].(*dst.GenDecl).Specs[0].(*dst.ValueSpec).Values[0].(*dst.CompositeLit).Elts {
				out = append(out, s)
			}
			return out
		}))
	}
}

// stmtKind: a block whose elements are statements of one type (format holds the label e%d once)
func stmtKind(name, format string) spKind {
	return spKind{Name: "BlockStmt.List(" + name + ")", Src: func(n int) string {
		return "package p\n\nfunc f() {\n" + labels(n, func(i int) string { return "\t" + fmt.Sprintf(format, i) }, "\n") + "\n}\n"
	}, Elems: func(f *dst.File) []dst.Node {
		var out []dst.Node
		for _, s := range f.Decls[0].(*dst.FuncDecl).Body.List {
			out = append(out, s)
		}
		return out
	}, Decs: true, KeepLast: true, Expr: false}
}

func exprKind(name string, src func(n int) string, elems func(f *dst.File) []dst.Node) spKind {
	return spKind{Name: name, Src: src, Elems: elems, Decs: false, KeepLast: false, Expr: true}
}

const spQualHead = "package p\n\nimport \"example.com/lib\"\n\n"

var spLabelRe = regexp.MustCompile(`\be\d+\b|u?[st]\d+\.\d+`)

func spDecText(kind string, who string, k int) string {
	switch kind {
	case "L":
		return fmt.Sprintf("// %s%d", who, k)
	case "B":
		return fmt.Sprintf("/*%s%d*/", who, k)
	case "M": // a block comment over two lines; the second line carries the label u<who><k>
		return fmt.Sprintf("/*%s%d\n\tu%s%d*/", who, k, who, k)
	}
	return "\n"
}

// spPrint builds the list with the given spacing/decorations on the real tree, prints it with the
// real restorer and returns the observed line structure.
func spPrint(k spKind, es []spElem) (lines [][]string, text string, errMsg string) {
	qualified := strings.HasSuffix(k.Name, "(qualified)")
	var f *dst.File
	var err error
	if qualified {
		f, err = decorator.NewDecoratorWithImports(token.NewFileSet(), "example.com/p", goast.WithResolver(simple.New(map[string]string{"example.com/lib": "lib"}))).Parse(k.Src(len(es)))
	} else {
		f, err = decorator.Parse(k.Src(len(es)))
	}
	if err != nil {
		return nil, "", "harness: " + err.Error()
	}
	nodes := k.Elems(f)
	if len(nodes) != len(es) {
		return nil, "", "harness: element count"
	}
	for i, n := range nodes {
		d := n.Decorations()
		d.Before, d.After = dst.SpaceType(es[i].B), dst.SpaceType(es[i].A)
		if ds, ok := n.(*dst.DeclStmt); ok && k.Name == "BlockStmt.List(var)" {
			gd := ds.Decl.(*dst.GenDecl)
			gd.Decs.After = d.After
			gd.Specs[0].Decorations().After = d.After
		}
		d.Start.Clear()
		d.End.Clear()
		for j, x := range es[i].S {
			d.Start.Append(spDecText(x, fmt.Sprintf("s%d.", i+1), j+1))
		}
		for j, x := range es[i].E {
			d.End.Append(spDecText(x, fmt.Sprintf("t%d.", i+1), j+1))
		}
	}
	var buf bytes.Buffer
	if msg := guard(func() {
		if qualified {
			for _, n := range nodes {
				if id, ok := n.(*dst.Ident); !ok || id.Path != "example.com/lib" {
					err = fmt.Errorf("harness: element is not a path-carrying identifier")
					return
				}
			}
			err = decorator.NewRestorerWithImports("example.com/p", simple.New(map[string]string{"example.com/lib": "lib"})).Fprint(&buf, f)
		} else {
			err = decorator.Fprint(&buf, f)
		}
	}); msg != "" {
		return nil, "", msg
	}
	if err != nil {
		if strings.HasPrefix(err.Error(), "harness:") {
			return nil, "", err.Error()
		}
		return nil, "", "print error: " + err.Error()
	}
	text = buf.String()
	body := strings.TrimPrefix(strings.TrimPrefix(text, spQualHead), "package p\n\n")
	body = strings.TrimSuffix(body, "\n")
	ls := strings.Split(body, "\n")
	if (k.Name == "SwitchStmt.Cases" || k.Name == "SelectStmt.Comms" || k.Name == "TypeSwitchStmt.Cases") && len(ls) >= 3 {
		ls = ls[1 : len(ls)-1] // drop "func f() {" and its "}"
	}
	for i, l := range ls {
		row := []string{}
		if i == 0 {
			row = append(row, "{")
		}
		row = append(row, spLabelRe.FindAllString(l, -1)...)
		if i == len(ls)-1 {
			row = append(row, "}")
		}
		lines = append(lines, row)
	}
	return lines, text, ""
}

var (
	spStart = [][]string{{}, {"L"}, {"N"}}
	spEnd   = [][]string{{}, {"L"}, {"N"}, {"N", "N"}, {"B"}, {"M"}}
)

func spAllElems(decs bool) []spElem {
	var out []spElem
	for b := 0; b <= 2; b++ {
		for a := 0; a <= 2; a++ {
			if !decs {
				out = append(out, spElem{b, a, []string{}, []string{}})
				continue
			}
			for _, s := range spStart {
				for _, e := range spEnd {
					if len(e) == 1 && e[0] == "M" && a == 0 {
						// what follows a two-line comment without a line break of its own is laid out by
						// go/printer (it breaks the line in front of a statement or a closing brace itself)
						continue
					}
					out = append(out, spElem{b, a, s, e})
				}
			}
		}
	}
	return out
}

const spacingMC = `---- MODULE SpacingMC ----
EXTENDS Spacing
MCStart == {<<>>, <<"L">>, <<"N">>}
MCEnd == {<<>>, <<"L">>, <<"N">>, <<"N", "N">>, <<"B">>, <<"M">>}
====
`

func spacingCfg(n int, additive bool) string {
	return fmt.Sprintf(`CONSTANTS MaxN = %d
 StartSet <- MCStart
 EndSet <- MCEnd
 Additive = %s
INIT Init
NEXT Next
INVARIANTS InvNonAdditive InvDelimiters InvNeverTwoBlanks
CHECK_DEADLOCK FALSE
`, n, tlaBool(additive))
}

const spacingTraceMC = `---- MODULE SpacingTraceMC ----
EXTENDS SpacingTrace
MCStart == {<<>>}
MCEnd == {<<>>}
====
`
const spacingTraceCfg = `CONSTANTS MaxN = 4
 StartSet <- MCStart
 EndSet <- MCEnd
 Additive = FALSE
INIT TInit
NEXT TNext
INVARIANTS Conforms Rule
POSTCONDITION Accepted
CHECK_DEADLOCK FALSE
`

func checkC05(c *Ctx) {
	c.Assume("go/printer places items on lines according to the positions and the line table it is given, collapsing consecutive blank lines into one (checked against the model on every case)")
	n := 2
	if !c.Quick() {
		n = 3
	}
	mc, err := RunTLC(TLCRun{Module: "SpacingMC", Cfg: spacingCfg(n, false), Files: map[string][]byte{"SpacingMC.tla": []byte(spacingMC)}, Workers: 12, Timeout: 40 * time.Minute})
	if err != nil || !mc.OK() {
		c.Infra("TLC model check of Spacing failed: " + errText(mc, err))
		return
	}
	c.TLC(mc)
	c.Set("mc_bounds", fmt.Sprintf("all lists of 1..%d elements x Before,After in {None,NewLine,EmptyLine} x Start in {[],[//],[\\n]} x End in {[],[//],[\\n],[\\n \\n],[/**/],[/*two lines*/]}", n))
	c.Set("exhaustive", true)
	bad, err := RunTLC(TLCRun{Module: "SpacingMC", Cfg: spacingCfg(2, true), Files: map[string][]byte{"SpacingMC.tla": []byte(spacingMC)}, Workers: 4, Timeout: 5 * time.Minute})
	if err != nil || bad.Violated == "" {
		c.Infra("TLC did not reject the additive variant: " + errText(bad, err))
		return
	}
	c.Set("spec_variants_rejected_by_tlc", 1)

	// code -> spec: print every case with the real restorer, let TLC compare with the line machine
	r := rand.New(rand.NewSource(c.Seed))
	type job struct {
		k  spKind
		es []spElem
	}
	var jobs []job
	for ki, k := range spKinds {
		all := spAllElems(k.Decs)
		// n = 1 and n = 2 completely for the first kind; seeded samples for the others (quick)
		for _, e1 := range all {
			jobs = append(jobs, job{k, []spElem{e1}})
		}
		full := ki == 0 || !c.Quick() || !k.Decs
		for _, e1 := range all {
			for _, e2 := range all {
				if full || r.Intn(6) == 0 {
					jobs = append(jobs, job{k, []spElem{e1, e2}})
				}
			}
		}
		m := 1500
		if !c.Quick() {
			m = 30000
		}
		for i := 0; i < m; i++ {
			jobs = append(jobs, job{k, []spElem{all[r.Intn(len(all))], all[r.Intn(len(all))], all[r.Intn(len(all))]}})
		}
	}
	recs := make([][]byte, len(jobs))
	parallel(len(jobs), func(i int) {
		j := jobs[i]
		lines, text, msg := spPrint(j.k, j.es)
		key := fmt.Sprintf("%s %v", j.k.Name, j.es)
		nontriv := false
		for _, e := range j.es {
			if len(e.S)+len(e.E) > 0 || e.A == 2 || e.B == 2 {
				nontriv = true
			}
		}
		c.Eval(key, nontriv)
		if msg != "" {
			// printing may legitimately fail only by returning an error for unparseable layouts; a panic is a finding
			if strings.HasPrefix(msg, "harness:") {
				c.Infra(j.k.Name + ": " + msg)
			}
			if strings.HasPrefix(msg, "panic") {
				c.Fail(Finding{Sig: "spacing-print-panic", Input: key, What: msg, Replay: obj{"kind": "c05", "list": j.k.Name, "elems": j.es}})
			}
			return
		}
		b, _ := json.Marshal(obj{"kind": j.k.Name, "elems": j.es, "lines": lines, "text": text, "keepLast": j.k.KeepLast, "expr": j.k.Expr})
		recs[i] = b
		if i%4001 == 0 {
			c.Sample(obj{"kind": j.k.Name, "elems": j.es, "lines": lines})
		}
	})
	var items []traceItem
	for i, b := range recs {
		if b == nil {
			continue
		}
		items = append(items, traceItem{Key: fmt.Sprintf("%s %v", jobs[i].k.Name, jobs[i].es), Trace: append(b, '\n'), Events: 1, Replay: obj{"kind": "c05", "list": jobs[i].k.Name, "elems": jobs[i].es}})
	}
	c.Traces(int64(len(items)))
	files := map[string][]byte{"SpacingTraceMC.tla": []byte(spacingTraceMC)}
	validateTracesF(c, "SpacingTraceMC", spacingTraceCfg, files, items, 12000, false, func(it traceItem, res *TLCResult) {
		c.Fail(Finding{Sig: "spacing-lines-differ", Input: it.Key, What: rejectText(res) + ": " + truncate(string(it.Trace), 500), Replay: it.Replay})
	})
	// the spacing of a restored file lives in the line table of its token.File: one Restorer / FileRestorer
	// used for several files, earlier results printed after later restores (Reuse.tla)
	if !reuseCheck(c, reuseSources, reuseJudgeBytes, "c01reuse") {
		return
	}
	c05ClosingBreak(c)
	c05HandBuilt(c)
	c.Set("rule", "case = one sibling list (7 list kinds) with Before/After/Start/End per element printed by the real restorer; non-trivial = some EmptyLine spacing or decoration present; distinct by kind + assignment")
}

func init() {
	replayers["c05"] = func(raw json.RawMessage) string {
		var r struct {
			List  string   `json:"list"`
			Elems []spElem `json:"elems"`
		}
		json.Unmarshal(raw, &r)
		for _, k := range spKinds {
			if k.Name != r.List {
				continue
			}
			lines, text, msg := spPrint(k, r.Elems)
			if msg != "" {
				return msg
			}
			b, _ := json.Marshal(obj{"kind": k.Name, "elems": r.Elems, "lines": lines, "text": text, "keepLast": k.KeepLast, "expr": k.Expr})
			c := newCtx("C05", "quick", 1, "model_checking")
			out := ""
			validateTracesF(c, "SpacingTraceMC", spacingTraceCfg, map[string][]byte{"SpacingTraceMC.tla": []byte(spacingTraceMC)}, []traceItem{{Key: "replay", Trace: append(b, '\n'), Events: 1}}, 10, false, func(it traceItem, res *TLCResult) {
				out = rejectText(res) + ": printed\n" + text
			})
			return out
		}
		return "harness: unknown list kind"
	}
}

// c05ClosingBreak: an explicit newline decoration (or a line comment) on the decoration point between
// the last element of an index list and the closing bracket contributes its line break there: the
// list is split one element per line and the bracket stands on a line of its own.
func c05ClosingBreak(c *Ctx) {
	for _, tc := range []struct {
		name, src, want string
		decs            []string
	}{
		{"IndexListExpr.Indices newline", "package p\n\nvar x = g[e1, e2]\n", "package p\n\nvar x = g[\n\te1,\n\te2,\n]\n", []string{"\n"}},
		// a variadic call: the point between the "..." and the closing parenthesis
		{"CallExpr.Ellipsis newline", "package p\n\nvar x = g(e1, e2...)\n", "package p\n\nvar x = g(\n\te1,\n\te2...,\n)\n", []string{"\n"}},
		{"CallExpr.Ellipsis line comment", "package p\n\nvar x = g(e1, e2...)\n", "package p\n\nvar x = g(\n\te1,\n\te2..., // c\n)\n", []string{"// c"}},
		{"IndexListExpr.Indices line comment", "package p\n\nvar x = g[e1, e2]\n", "package p\n\nvar x = g[\n\te1,\n\te2, // c\n]\n", []string{"// c"}},
	} {
		f, err := decorator.Parse(tc.src)
		if err != nil {
			c.Infra("closing-break source does not parse")
			return
		}
		switch x := f.Decls[0].(*dst.GenDecl).Specs[0].(*dst.ValueSpec).Values[0].(type) {
		case *dst.IndexListExpr:
			for _, e := range x.Indices {
				e.Decorations().Before = dst.NewLine
			}
			x.Decs.Indices.Replace(tc.decs...)
		case *dst.IndexExpr:
			x.Index.Decorations().Before = dst.NewLine
			x.Decs.Index.Replace(tc.decs...)
		case *dst.CallExpr:
			for _, e := range x.Args {
				e.Decorations().Before = dst.NewLine
			}
			x.Decs.Ellipsis.Replace(tc.decs...)
		}
		key := "closing-break|" + tc.name
		c.Eval(key, true)
		out, msg := printFile(f)
		if msg != "" {
			c.Fail(Finding{Sig: "spacing-print-fails", Input: key, What: msg, Replay: obj{"kind": "none"}})
		} else if out != tc.want {
			c.Fail(Finding{Sig: "closing-break-not-rendered", Input: key, What: fmt.Sprintf("%s: printed\n%s\nexpected\n%s", tc.name, out, tc.want), Replay: obj{"kind": "none"}})
		}
	}
}

// c05HandBuilt: the rule on a tree that no parser produced. `func f() { a := <lit>; g() }` is built from
// struct literals with the minimal fields a user would write; the literal is a one-line string, a raw
// string over two lines or one over three lines, and its Kind is the zero value, STRING, or another
// token (go/printer never looks at Kind, the text alone decides how many lines the literal takes).
// The space between the two statements is the larger of After and Before: exactly one empty line for
// EmptyLine, otherwise the statements follow each other on consecutive lines.
func c05HandBuilt(c *Ctx) {
	lits := []string{"\"s\"", "`x\ny`", "`x\n\ny\n`"}
	kinds := []token.Token{token.ILLEGAL, token.STRING, token.CHAR, token.INT}
	for li, lit := range lits {
		for _, kind := range kinds {
			for a := 0; a <= 2; a++ {
				for b := 0; b <= 2; b++ {
					for _, where := range []string{"stmt", "spec"} {
						key := fmt.Sprintf("hand-built|%s|lit%d|kind=%s|After=%d|Before=%d", where, li, kind, a, b)
						c.Eval(key, true)
						first := &dst.BasicLit{Value: lit, Kind: kind}
						var f *dst.File
						if where == "stmt" {
							s1 := &dst.AssignStmt{Lhs: []dst.Expr{dst.NewIdent("a")}, Tok: token.DEFINE, Rhs: []dst.Expr{first}}
							s2 := &dst.ExprStmt{X: &dst.CallExpr{Fun: dst.NewIdent("g")}}
							s1.Decs.After, s2.Decs.Before = dst.SpaceType(a), dst.SpaceType(b)
							f = &dst.File{Name: dst.NewIdent("p"), Decls: []dst.Decl{&dst.FuncDecl{Name: dst.NewIdent("f"), Type: &dst.FuncType{Params: &dst.FieldList{}},
								Body: &dst.BlockStmt{List: []dst.Stmt{s1, s2}}}}}
						} else {
							s1 := &dst.ValueSpec{Names: []*dst.Ident{dst.NewIdent("a")}, Values: []dst.Expr{first}}
							s2 := &dst.ValueSpec{Names: []*dst.Ident{dst.NewIdent("g")}, Values: []dst.Expr{&dst.BasicLit{Kind: token.INT, Value: "1"}}}
							s1.Decs.After, s2.Decs.Before = dst.SpaceType(a), dst.SpaceType(b)
							f = &dst.File{Name: dst.NewIdent("p"), Decls: []dst.Decl{&dst.GenDecl{Tok: token.VAR, Lparen: true, Rparen: true, Specs: []dst.Spec{s1, s2}}}}
						}
						out, msg := printFile(f)
						if msg != "" {
							c.Fail(Finding{Sig: "spacing-print-fails", Input: key, What: msg, Replay: obj{"kind": "none"}})
							continue
						}
						// line breaks between the end of the literal and the second element
						got := -1
						if i := strings.Index(out, lit); i >= 0 {
							rest := out[i+len(lit):]
							if j := strings.Index(rest, "g"); j >= 0 {
								got = strings.Count(rest[:j], "\n")
							}
						}
						want := 1
						if a == 2 || b == 2 {
							want = 2
						}
						// None on both sides leaves the layout to go/printer (one line or two), but never an empty line
						if got < 0 || (a+b > 0 && got != want) || (a+b == 0 && got > 1) {
							c.Fail(Finding{Sig: "hand-built-spacing", Input: key, What: fmt.Sprintf("After=%d Before=%d: %d line break(s) between the end of the first element and the second, the rule says %d; printed\n%s", a, b, got, want, out), Replay: obj{"kind": "none"}})
						}
					}
				}
			}
		}
	}
}
