package main

import (
	"bufio"
	"bytes"
	"context"
	"fmt"
	"os"
	"os/exec"
	"path/filepath"
	"regexp"
	"strconv"
	"strings"
	"time"
)

// TLCRun describes one invocation of TLC on a module of /verif/spec.
type TLCRun struct {
	Module   string            // module name (file Module.tla in spec dir)
	Cfg      string            // contents of the .cfg file
	Files    map[string][]byte // extra files placed next to the spec (traces)
	Workers  int
	Timeout  time.Duration
	Simulate string // e.g. "num=1000" ; empty = model checking
	Depth    int
	Seed     int64
	Coverage bool
	DFS      bool // use the depth-first state queue (trace validation with branching)
	KeepDir  bool
}

// TLCResult is what the harness extracts from TLC's output.
type TLCResult struct {
	Generated   int64
	Distinct    int64
	Depth       int
	Prints      []string // payloads of PrintT("...") lines, unquoted
	Violated    string   // name of violated invariant / property, "" if none
	ErrorText   string   // first error block (for diagnostics)
	Postcond    bool     // postcondition failed
	Output      string
	Wall        float64
	TimedOut    bool
	ExitCode    int
	CovZero     []string // actions with zero coverage (when Coverage)
	ActionCount map[string]int64
	Dir         string
}

var (
	reStates  = regexp.MustCompile(`(\d+) states generated, (\d+) distinct states found`)
	reDepth   = regexp.MustCompile(`The depth of the complete state graph search is (\d+)`)
	reInvViol = regexp.MustCompile(`Error: Invariant (\S+) is violated`)
	rePropV   = regexp.MustCompile(`Error: (?:Action|Temporal) propert(?:y|ies) (\S+)?.*violated`)
	reCov     = regexp.MustCompile(`^<(\w+) line \d+, col \d+ to line \d+, col \d+ of module (\w+)>: (\d+):(\d+)`)
)

func specDir() string { return filepath.Join(verifRoot(), "spec") }

func verifRoot() string {
	if v := os.Getenv("VERIF_ROOT"); v != "" {
		return v
	}
	return "/verif"
}

func scratchDir(prefix string) (string, error) {
	base := os.Getenv("VERIF_SCRATCH")
	if base == "" {
		base = os.TempDir()
	}
	return os.MkdirTemp(base, "dstv-"+prefix+"-")
}

// RunTLC copies the spec directory into a scratch directory, writes the cfg and extra files there,
// runs TLC and parses its output. The scratch directory is removed afterwards.
func RunTLC(r TLCRun) (*TLCResult, error) {
	dir, err := scratchDir("tlc")
	if err != nil {
		return nil, err
	}
	if !r.KeepDir {
		defer os.RemoveAll(dir)
	}
	ents, err := os.ReadDir(specDir())
	if err != nil {
		return nil, err
	}
	for _, e := range ents {
		if strings.HasSuffix(e.Name(), ".tla") {
			b, err := os.ReadFile(filepath.Join(specDir(), e.Name()))
			if err != nil {
				return nil, err
			}
			if err := os.WriteFile(filepath.Join(dir, e.Name()), b, 0644); err != nil {
				return nil, err
			}
		}
	}
	for name, b := range r.Files {
		if err := os.WriteFile(filepath.Join(dir, name), b, 0644); err != nil {
			return nil, err
		}
	}
	cfgName := r.Module + "_run.cfg"
	if err := os.WriteFile(filepath.Join(dir, cfgName), []byte(r.Cfg), 0644); err != nil {
		return nil, err
	}
	if r.Workers <= 0 {
		r.Workers = 8
	}
	if r.Timeout == 0 {
		r.Timeout = 10 * time.Minute
	}
	args := []string{"-XX:+UseParallelGC", "-Xss256m", "-Djava.io.tmpdir=" + filepath.Join(dir, "jtmp")}
	os.MkdirAll(filepath.Join(dir, "jtmp"), 0755)
	if r.DFS {
		args = append(args, "-Dtlc2.tool.queue.IStateQueue=StateDeque")
	}
	if hx := os.Getenv("VERIF_TLC_HEAP"); hx != "" {
		args = append(args, "-Xmx"+hx)
	}
	args = append(args, "-cp", "/opt/veriftools/tla/tla2tools.jar:/opt/veriftools/tla/CommunityModules-deps.jar", "tlc2.TLC",
		"-workers", strconv.Itoa(r.Workers), "-metadir", filepath.Join(dir, "md"), "-config", cfgName, "-noGenerateSpecTE")
	if r.Simulate != "" {
		args = append(args, "-simulate", r.Simulate)
		if r.Depth > 0 {
			args = append(args, "-depth", strconv.Itoa(r.Depth))
		}
	}
	if r.Seed != 0 {
		args = append(args, "-seed", strconv.FormatInt(r.Seed, 10))
	}
	if r.Coverage {
		args = append(args, "-coverage", "1")
	}
	args = append(args, r.Module+".tla")
	ctx, cancel := context.WithTimeout(context.Background(), r.Timeout)
	defer cancel()
	cmd := exec.CommandContext(ctx, "java", args...)
	cmd.Dir = dir
	var out bytes.Buffer
	cmd.Stdout = &out
	cmd.Stderr = &out
	t0 := time.Now()
	runErr := cmd.Run()
	res := &TLCResult{Output: out.String(), Wall: time.Since(t0).Seconds(), ActionCount: map[string]int64{}, Dir: dir}
	if ctx.Err() == context.DeadlineExceeded {
		res.TimedOut = true
	}
	if ee, ok := runErr.(*exec.ExitError); ok {
		res.ExitCode = ee.ExitCode()
	} else if runErr != nil {
		return res, fmt.Errorf("tlc: %v", runErr)
	}
	sc := bufio.NewScanner(strings.NewReader(res.Output))
	sc.Buffer(make([]byte, 1<<20), 1<<28)
	inErr := false
	for sc.Scan() {
		line := sc.Text()
		if strings.HasPrefix(line, `"`) && strings.HasSuffix(line, `"`) {
			if s, err := strconv.Unquote(line); err == nil {
				res.Prints = append(res.Prints, s)
				continue
			}
		}
		if m := reStates.FindStringSubmatch(line); m != nil {
			res.Generated, _ = strconv.ParseInt(m[1], 10, 64)
			res.Distinct, _ = strconv.ParseInt(m[2], 10, 64)
		}
		if m := reDepth.FindStringSubmatch(line); m != nil {
			res.Depth, _ = strconv.Atoi(m[1])
		}
		if m := reInvViol.FindStringSubmatch(line); m != nil && res.Violated == "" {
			res.Violated = m[1]
		}
		if strings.Contains(line, "Postcondition") && (strings.Contains(line, "is false") || strings.Contains(line, "violated")) {
			res.Postcond = true
		}
		if strings.HasPrefix(line, "Error:") {
			inErr = true
			if res.Violated == "" {
				if m := rePropV.FindStringSubmatch(line); m != nil {
					res.Violated = "property:" + m[1]
				}
			}
		}
		if inErr && len(res.ErrorText) < 4000 {
			res.ErrorText += line + "\n"
		}
		if r.Coverage {
			if m := reCov.FindStringSubmatch(line); m != nil {
				n, _ := strconv.ParseInt(m[4], 10, 64)
				res.ActionCount[m[1]] += n
			}
		}
	}
	if r.Coverage {
		for a, n := range res.ActionCount {
			if n == 0 {
				res.CovZero = append(res.CovZero, a)
			}
		}
	}
	return res, nil
}

// OK reports whether TLC finished without any error.
func (r *TLCResult) OK() bool {
	return r != nil && !r.TimedOut && r.ExitCode == 0 && r.Violated == "" && !r.Postcond && !strings.Contains(r.Output, "Error:")
}

// Payloads returns the PrintT payloads carrying the given prefix, with the prefix removed.
func (r *TLCResult) Payloads(prefix string) []string {
	var out []string
	for _, p := range r.Prints {
		if strings.HasPrefix(p, prefix) {
			out = append(out, p[len(prefix):])
		}
	}
	return out
}

// tlaSet renders a Go slice as a TLA+ set literal.
func tlaSetInts(xs []int) string {
	var s []string
	for _, x := range xs {
		s = append(s, strconv.Itoa(x))
	}
	return "{" + strings.Join(s, ", ") + "}"
}

func tlaBool(b bool) string {
	if b {
		return "TRUE"
	}
	return "FALSE"
}
