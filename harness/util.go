package main

import (
	"bytes"
	"encoding/json"
	"fmt"
	"go/ast"
	"go/build"
	"go/parser"
	"go/token"
	"io/fs"
	"os"
	"path/filepath"
	"reflect"
	"sort"
)

func sprint(v interface{}) string { return fmt.Sprint(v) }

// ndjson accumulates newline-delimited JSON events for TLC trace validation.
type ndjson struct {
	buf bytes.Buffer
	n   int
}

func (w *ndjson) Add(v interface{}) {
	b, err := json.Marshal(v)
	if err != nil {
		panic(err)
	}
	w.buf.Write(b)
	w.buf.WriteByte('\n')
	w.n++
}

func (w *ndjson) Bytes() []byte { return w.buf.Bytes() }
func (w *ndjson) Len() int      { return w.n }

type obj = map[string]interface{}

func maxI64(a, b int64) int64 {
	if a > b {
		return a
	}
	return b
}

func reflectValue(v interface{}) reflect.Value { return reflect.ValueOf(v) }

type fsFileInfo = fs.FileInfo

func sortStrings(s []string) { sort.Strings(s) }

// buildOK reports whether the file's build constraints match this platform (go/build's rules,
// without cgo).
func buildOK(f *ast.File, fset *token.FileSet) bool {
	name := filepath.Base(fset.File(f.Pos()).Name())
	ctx := build.Default
	ctx.CgoEnabled = false
	ok, err := ctx.MatchFile(filepath.Dir(fset.File(f.Pos()).Name()), name)
	return err == nil && ok
}

func parseFileOnly(src string) (*ast.File, error) {
	return parser.ParseFile(token.NewFileSet(), "", src, 0)
}

func readFile(p string) ([]byte, error) { return os.ReadFile(p) }
