package main

import (
	"bytes"
	"crypto/sha1"
	"encoding/hex"
	"encoding/json"
	"fmt"
	"go/ast"
	"go/build"
	"go/format"
	"go/parser"
	"go/token"
	"os"
	"os/exec"
	"path/filepath"
	"runtime"
	"sort"
	"strings"
	"sync"
	"sync/atomic"
	"time"

	"github.com/dave/dst"
	"github.com/dave/dst/decorator"
	"github.com/dave/dst/decorator/resolver"
	"github.com/dave/dst/decorator/resolver/goast"
	"github.com/dave/dst/decorator/resolver/gobuild"
	"github.com/dave/dst/decorator/resolver/guess"
	"github.com/dave/dst/decorator/resolver/simple"
)

func init() { register("C16", "model_checking", checkC16) }

func concCfg(procs, calls int, lazy, emit bool) string {
	ps := []string{}
	for i := 1; i <= procs; i++ {
		ps = append(ps, fmt.Sprint(i))
	}
	s := fmt.Sprintf("CONSTANTS Procs = {%s} Calls = %d InitNil = TRUE LazyUnderLock = %s EmitHist = %s\nINIT Init\nNEXT Next\nCHECK_DEADLOCK FALSE\n", strings.Join(ps, ","), calls, tlaBool(lazy), tlaBool(emit))
	if emit {
		return s + "INVARIANTS Emit\n"
	}
	return s + "VIEW view\nINVARIANTS NoRace MutualExclusion SameAsSequential\n"
}

// c16Sources: files with imports whose qualified identifiers the goast resolver must resolve.
func c16Sources(n int) [][]byte {
	var out [][]byte
	for i := 0; i < n; i++ {
		// the files import the same paths under different names: renamed in one file, plain in the
		// next (what a shared resolver learns from one file must not leak into another)
		imp, q, osq := "str \"strings\"", "str", "os"
		if i%2 == 1 {
			imp, q = "\"strings\"", "strings"
		}
		osImp := "\"os\""
		if i%3 == 2 {
			osImp, osq = "sys \"os\"", "sys"
		}
		out = append(out, []byte(fmt.Sprintf(`package p%d

import (
	"fmt"
	%s
	%s
)

// F%d uses the imports.
func F%d(a string) string {
	fmt.Println(%s.Args, a) // trailing
	return %s.Repeat(a, %d) + fmt.Sprint(%s.Getpid())
}
`, i, imp, osImp, i, i, osq, q, i+1, osq)))
	}
	return out
}

func hashBytes(b []byte) string {
	h := sha1.Sum(b)
	return hex.EncodeToString(h[:6])
}

// c16One decorates with import resolution through the shared resolver and restores with the shared
// name resolver; it returns a digest of the printed file and of the path annotations.
func c16One(src []byte, path string, dr resolver.DecoratorResolver, rr resolver.RestorerResolver) (string, error) {
	fset := token.NewFileSet()
	af, err := parser.ParseFile(fset, "", src, parser.ParseComments)
	if err != nil {
		return "", err
	}
	d := decorator.NewDecoratorWithImports(fset, path, dr)
	df, err := d.DecorateFile(af)
	if err != nil {
		return "", err
	}
	var paths []string
	dst.Inspect(df, func(n dst.Node) bool {
		if id, ok := n.(*dst.Ident); ok && id.Path != "" {
			paths = append(paths, id.Name+"@"+id.Path)
		}
		return true
	})
	r := decorator.NewRestorerWithImports(path, rr)
	var buf bytes.Buffer
	if err := r.Fprint(&buf, df); err != nil {
		return "", err
	}
	return hashBytes(buf.Bytes()) + "/" + hashBytes([]byte(strings.Join(paths, ","))), nil
}

// c16Worker is executed in the -race build. mode: stress | trace | gated
func c16Worker(args []string) int {
	mode := args[0]
	switch mode {
	case "stress":
		// watchdog: the whole mode takes seconds; a call that is still blocked inside the shared resolver
		// after four minutes never returns (a lock that is not released on some path). Reported as a
		// difference to the call made alone; any other hang is an infrastructure problem.
		go func() {
			time.Sleep(4 * time.Minute)
			buf := make([]byte, 1<<20)
			buf = buf[:runtime.Stack(buf, true)]
			blocked := 0
			for _, g := range strings.Split(string(buf), "\n\n") {
				if strings.Contains(g, "goast.(*DecoratorResolver).imports") && (strings.Contains(g, "sync.(*Mutex).Lock") || strings.Contains(g, "semacquire")) {
					blocked++
				}
			}
			if blocked > 0 {
				fmt.Printf("DIFF hang: %d calls on a shared goast resolver are still blocked on its mutex after four minutes (the same calls made alone return at once)\n", blocked)
				fmt.Println("STRESS-DONE")
				os.Exit(0)
			}
			fmt.Println("HANG-UNKNOWN")
			os.Exit(3)
		}()
		srcs := c16Sources(16)
		want := make([]string, len(srcs))
		for i, s := range srcs {
			w, err := c16One(s, fmt.Sprintf("example.com/p%d", i), goast.New(), guess.New())
			if err != nil {
				fmt.Println("ERR sequential:", err)
				return 3
			}
			want[i] = w
		}
		for round := 0; round < 42; round++ {
			// the read-only package-name resolvers that may be shared: guess, simple, gobuild
			var rr resolver.RestorerResolver
			hints := map[string]string{"fmt": "fmt"}
			switch round % 3 {
			case 0:
				rr = guess.New()
			case 1:
				rr = simple.New(map[string]string{"fmt": "fmt", "strings": "strings", "os": "os"})
			default:
				gb := gobuild.WithHints("/", hints)
				gb.FindPackage = func(ctxt *build.Context, importPath, fromDir string, mode build.ImportMode) (*build.Package, error) {
					return &build.Package{Name: importPath[strings.LastIndex(importPath, "/")+1:]}, nil
				}
				rr = gb
			}
			var shared *goast.DecoratorResolver
			if round%2 == 0 {
				shared = goast.New() // lazily defaulted name resolver
			} else {
				shared = goast.WithResolver(rr)
			}
			var wg sync.WaitGroup
			for i := range srcs {
				wg.Add(1)
				go func(i int) {
					defer wg.Done()
					for k := 0; k < 3; k++ {
						got, err := c16One(srcs[i], fmt.Sprintf("example.com/p%d", i), shared, rr)
						if err != nil {
							fmt.Printf("DIFF goroutine %d: error %v\n", i, err)
						} else if got != want[i] {
							fmt.Printf("DIFF goroutine %d round %d: concurrent result %s, sequential %s\n", i, round, got, want[i])
						}
					}
				}(i)
			}
			wg.Wait()
			if len(hints) != 1 {
				fmt.Printf("DIFF round %d: the shared resolver's Hints map was modified (%d entries, had 1)\n", round, len(hints))
			}
		}
		// the hand-written corpus files (every construct a seeded change was about) through the same mill: each
		// goroutine its own file, decorator and restorer, one shared identifier resolver and one shared name resolver
		{
			paths, _ := filepath.Glob(filepath.Join(verifRoot(), "corpus", "extra", "*.go"))
			sort.Strings(paths)
			var xs [][]byte
			var xw []string
			for _, p := range paths {
				b, err := os.ReadFile(p)
				if err != nil || len(b) > 20000 {
					continue
				}
				w, err := c16One(b, "example.com/local", goast.New(), guess.New())
				if err != nil {
					continue // refused (dot-import, one name for two paths): nothing to compare
				}
				xs, xw = append(xs, b), append(xw, w)
			}
			for round := 0; round < 6; round++ {
				shared, rr := goast.New(), guess.New()
				var wg sync.WaitGroup
				for i := range xs {
					wg.Add(1)
					go func(i int) {
						defer wg.Done()
						for k := 0; k < 2; k++ {
							got, err := c16One(xs[i], "example.com/local", shared, rr)
							if err != nil {
								fmt.Printf("DIFF corpus file %d: error %v (alone: none)\n", i, err)
							} else if got != xw[i] {
								fmt.Printf("DIFF corpus file %d round %d: concurrent result %s, alone %s\n", i, round, got, xw[i])
							}
						}
					}(i)
				}
				wg.Wait()
			}
		}
		// repeated decoration of the same parsed files through one shared identifier resolver, some of which
		// the resolver must refuse: every repetition answers like the call made alone with a fresh resolver
		{
			inputs := append(c16Sources(3),
				[]byte("package q\n\nimport (\n\t\"fmt\"\n\t. \"os\"\n)\n\nvar _ = fmt.Sprint(Args)\n"),
				[]byte("package q\n\nimport (\n\t\"fmt\"\n\t\"a/x\"\n\t\"b/x\"\n)\n\nvar _ = fmt.Sprint(x.V)\n"),
				[]byte("package q\n\nimport (\n\t\"fmt\"\n\t\"unknown.example/pkg\"\n\t\"os\"\n)\n\nvar _ = fmt.Sprint(pkg.V, os.Args)\n"))
			names := map[string]string{"fmt": "fmt", "strings": "strings", "os": "os", "a/x": "x", "b/x": "x"}
			outcome := func(af *ast.File, fset *token.FileSet, dr resolver.DecoratorResolver) string {
				df, err := decorator.NewDecoratorWithImports(fset, "example.com/q", dr).DecorateFile(af)
				if err != nil {
					return "error: " + err.Error()
				}
				var paths []string
				dst.Inspect(df, func(n dst.Node) bool {
					if id, ok := n.(*dst.Ident); ok && id.Path != "" {
						paths = append(paths, id.Name+"@"+id.Path)
					}
					return true
				})
				return strings.Join(paths, ",")
			}
			shared := goast.WithResolver(simple.New(names))
			var rwg sync.WaitGroup
			for i := range inputs {
				rwg.Add(1)
				go func(i int) {
					defer rwg.Done()
					fset := token.NewFileSet()
					af, err := parser.ParseFile(fset, "", inputs[i], parser.ParseComments)
					if err != nil {
						fmt.Println("ERR repeat-same-ast: ", err)
						return
					}
					want := outcome(af, fset, goast.WithResolver(simple.New(names)))
					for k := 0; k < 4; k++ {
						if got := outcome(af, fset, shared); got != want {
							fmt.Printf("DIFF repeat-same-ast input %d call %d: shared resolver answers %q, alone %q\n", i, k+1, got, want)
							return
						}
					}
				}(i)
			}
			rwg.Wait()
		}
		// repeated calls on equal inputs: identical bytes whatever the map iteration order
		src := []byte("package p\n\nimport (\n\t\"z/b\"\n\t\"a/b\"\n\t\"m.io/b\"\n\t\"c/b\"\n)\n\nvar _ = 1\n")
		first := ""
		for k := 0; k < 60; k++ {
			f, err := decorator.Parse(src)
			if err != nil {
				return 3
			}
			for i, p := range []string{"z/b", "a/b", "m.io/b", "c/b", "q/b", "r.io/b"} {
				f.Decls = append(f.Decls, &dst.GenDecl{Tok: token.VAR, Specs: []dst.Spec{&dst.ValueSpec{Names: []*dst.Ident{dst.NewIdent("_")}, Values: []dst.Expr{&dst.Ident{Name: fmt.Sprintf("V%d", i), Path: p}}}}})
			}
			var buf bytes.Buffer
			if err := decorator.NewRestorerWithImports("main", guess.New()).Fprint(&buf, f); err != nil {
				fmt.Println("DIFF repeat: error", err)
				break
			}
			if first == "" {
				first = buf.String()
			} else if buf.String() != first {
				fmt.Printf("DIFF repeat %d: output differs between identical calls:\n%s\nvs\n%s\n", k, first, buf.String())
				break
			}
		}
		// repeated directory parses (the package's files are held in a map): identical bytes every time,
		// from several goroutines at once
		var dirs [][][]byte
		for i := range dirHandFiles {
			for j := range dirHandFiles {
				if i < j {
					dirs = append(dirs, [][]byte{[]byte(dirHandFiles[i]), []byte(dirHandFiles[j]), []byte(dirHandFiles[(i+j)%len(dirHandFiles)])})
				}
			}
		}
		var dmu sync.Mutex
		var dwg sync.WaitGroup
		for di := range dirs {
			dwg.Add(1)
			go func(di int) {
				defer dwg.Done()
				var first [][]byte
				for k := 0; k < 12; k++ {
					out, msg := runDir(dirs[di])
					dmu.Lock()
					if msg != "" {
						fmt.Printf("DIFF repeat-dir %d: %s\n", di, msg)
						dmu.Unlock()
						return
					}
					if first == nil {
						first = out
					}
					for j := range out {
						if !bytes.Equal(out[j], first[j]) {
							fmt.Printf("DIFF repeat-dir %d run %d: file %d differs between identical ParseDir calls: %q vs %q\n", di, k, j, first[j], out[j])
							dmu.Unlock()
							return
						}
					}
					dmu.Unlock()
				}
			}(di)
		}
		dwg.Wait()
		// ... also when names collide and almost every name is an explicit alias (which package keeps the
		// name must not depend on map iteration order)
		{
			csrc := []byte("package p\n\nimport foo \"a.b/bar\"\n\nvar _ = foo.X\n")
			cfirst := ""
			for k := 0; k < 120; k++ {
				if k == 60 {
					// ... also next to a blank and a dot-free renamed import (entries without a name of their own)
					csrc = []byte("package p\n\nimport (\n\t_ \"a.a/anon\"\n\tfoo \"a.b/bar\"\n\t_ \"z.z/anon\"\n)\n\nvar _ = foo.X\n")
					cfirst = ""
				}
				f, err := decorator.NewDecoratorWithImports(token.NewFileSet(), "main", goast.WithResolver(guess.New())).Parse(csrc)
				if err != nil {
					fmt.Println("DIFF repeat-collision: error", err)
					break
				}
				f.Decls = append(f.Decls, &dst.GenDecl{Tok: token.VAR, Specs: []dst.Spec{&dst.ValueSpec{Names: []*dst.Ident{dst.NewIdent("_")}, Values: []dst.Expr{&dst.Ident{Name: "Y", Path: "a.b/foo"}}}}})
				var buf bytes.Buffer
				if err := decorator.NewRestorerWithImports("main", guess.New()).Fprint(&buf, f); err != nil {
					fmt.Println("DIFF repeat-collision: error", err)
					break
				}
				if cfirst == "" {
					cfirst = buf.String()
				} else if buf.String() != cfirst {
					fmt.Printf("DIFF repeat-collision %d: output differs between identical calls:\n%s\nvs\n%s\n", k, cfirst, buf.String())
					break
				}
			}
		}
		// ... and when two import paths differ only in the case of their letters (the order in which names are
		// handed out has to be a total order on paths)
		{
			first := ""
			for k := 0; k < 60; k++ {
				f, err := decorator.Parse("package p\n\nvar _ = 1\n")
				if err != nil {
					break
				}
				for i, p := range []string{"github.com/Sirupsen/logrus", "github.com/sirupsen/logrus", "example.com/x/Log", "example.com/x/log"} {
					f.Decls = append(f.Decls, &dst.GenDecl{Tok: token.VAR, Specs: []dst.Spec{&dst.ValueSpec{Names: []*dst.Ident{dst.NewIdent("_")}, Values: []dst.Expr{&dst.Ident{Name: fmt.Sprintf("V%d", i), Path: p}}}}})
				}
				var buf bytes.Buffer
				if err := decorator.NewRestorerWithImports("main", guess.New()).Fprint(&buf, f); err != nil {
					fmt.Println("DIFF repeat-case: error", err)
					break
				}
				if first == "" {
					first = buf.String()
				} else if buf.String() != first {
					fmt.Printf("DIFF repeat-case %d: output differs between identical calls:\n%s\nvs\n%s\n", k, first, buf.String())
					break
				}
			}
		}
		// ... and for a file made by hand, restored with an Alias map filled by hand: keys that look alike (a
		// package and its vendored copy, paths that differ in case or in a trailing element) are different
		// keys, and which alias a package gets never depends on the iteration order of that map
		{
			aliases := map[string]string{"example.com/lib/worker": "w", "example.com/app/vendor/example.com/lib/worker": "vendored",
				"example.com/lib/Worker": "up", "vendor/example.com/lib/worker": "std", "example.com/lib/worker/v2": "w2"}
			first := ""
			for k := 0; k < 120; k++ {
				var stmts []dst.Stmt
				for _, p := range []string{"example.com/lib/worker", "example.com/lib/worker/v2"} {
					stmts = append(stmts, &dst.ExprStmt{X: &dst.CallExpr{Fun: &dst.Ident{Name: "Do", Path: p}}})
				}
				f := &dst.File{Name: dst.NewIdent("main"), Decls: []dst.Decl{&dst.FuncDecl{Name: dst.NewIdent("main"), Type: &dst.FuncType{}, Body: &dst.BlockStmt{List: stmts}}}}
				fr := decorator.NewRestorerWithImports("main", guess.New()).FileRestorer()
				for p, a := range aliases {
					fr.Alias[p] = a
				}
				var buf bytes.Buffer
				if err := fr.Fprint(&buf, f); err != nil {
					fmt.Println("DIFF repeat-alias: error", err)
					break
				}
				if first == "" {
					first = buf.String()
					if !strings.Contains(first, "w \"example.com/lib/worker\"") || !strings.Contains(first, "w.Do()") {
						fmt.Printf("DIFF repeat-alias: the alias given for example.com/lib/worker is w, the file is restored as\n%s\n", first)
						break
					}
				} else if buf.String() != first {
					fmt.Printf("DIFF repeat-alias %d: output differs between identical calls:\n%s\nvs\n%s\n", k, first, buf.String())
					break
				}
			}
		}
		// ... and for copies of one template: every goroutine clones the same decorated file (which nobody writes
		// to), edits the decoration lists of its own copy and prints it - as when the steps are done alone
		{
			var tsrc strings.Builder
			tsrc.WriteString("package p\n\nfunc f(jobs chan int) {\n")
			for i, st := range []string{"go pump(jobs)", "defer close(jobs)", "jobs <- 1", "x := <-jobs", "x++", "return"} {
				for k := 0; k < 3+i%3*2; k++ { // 3, 5, 7 comment lines: lists with spare capacity
					fmt.Fprintf(&tsrc, "\t// %s %d\n", strings.Fields(st)[0], k)
				}
				tsrc.WriteString("\t" + st + " // t\n\n")
			}
			tsrc.WriteString("}\n")
			tmpl, terr := decorator.Parse(tsrc.String())
			edit := func(g int) string {
				cl := dst.Clone(tmpl).(*dst.File)
				dst.Inspect(cl, func(n dst.Node) bool {
					if st, ok := n.(dst.Stmt); ok && n != nil {
						if _, isBlock := n.(*dst.BlockStmt); !isBlock {
							st.Decorations().Start.Append(fmt.Sprintf("// instance %d", g))
							st.Decorations().End.Append(fmt.Sprintf("/* %d */", g))
						}
					}
					return true
				})
				var buf bytes.Buffer
				if err := decorator.Fprint(&buf, cl); err != nil {
					return "error: " + err.Error()
				}
				return buf.String()
			}
			if terr != nil {
				fmt.Println("DIFF clone-template: the template does not parse:", terr)
			} else {
				want := make([]string, 8)
				for g := range want {
					want[g] = edit(g)
				}
				var twg sync.WaitGroup
				got := make([]string, 8)
				for g := 0; g < 8; g++ {
					twg.Add(1)
					go func(g int) { defer twg.Done(); got[g] = edit(g) }(g)
				}
				twg.Wait()
				for g := range got {
					if got[g] != want[g] || !strings.Contains(got[g], fmt.Sprintf("// instance %d\n", g)) || strings.Contains(got[g], fmt.Sprintf("// instance %d\n", (g+1)%8)) {
						fmt.Printf("DIFF clone-template goroutine %d: the copy edited and printed concurrently is\n%s\nalone\n%s\n", g, got[g], want[g])
						break
					}
				}
			}
		}
		// ... and for sources that are not gofmt-canonical (runs of several empty lines, which the decorator
		// folds into one): decorated again and again by ONE decorator, and by several goroutines with a
		// decorator each that share one file set - where the file lands in the file set is no input
		{
			mk := func(i int) string {
				return fmt.Sprintf("package p\n\n\n\nfunc f%d() {\n\tg()\n\n\n\th() // t\n\n\n\n\n\ti()\n\n\n}\n\n\n\n// c\n\n\nvar v%d = %d\n", i, i, i)
			}
			alone := func(src string) string {
				f, err := decorator.Parse(src)
				if err != nil {
					return "error: " + err.Error()
				}
				var buf bytes.Buffer
				if err := decorator.Fprint(&buf, f); err != nil {
					return "error: " + err.Error()
				}
				return buf.String()
			}
			d := decorator.NewDecorator(token.NewFileSet())
			for k := 0; k < 4; k++ {
				f, err := d.Parse(mk(0))
				if err != nil {
					fmt.Println("DIFF repeat-decorator: error", err)
					break
				}
				var buf bytes.Buffer
				decorator.Fprint(&buf, f)
				if want := alone(mk(0)); buf.String() != want {
					fmt.Printf("DIFF repeat-decorator call %d: one Decorator asked again about the same source gives\n%s\nthe call made alone\n%s\n", k+1, buf.String(), want)
					break
				}
			}
			shared := token.NewFileSet()
			var swg sync.WaitGroup
			var smu sync.Mutex
			reported := false
			for g := 0; g < 8; g++ {
				swg.Add(1)
				go func(g int) {
					defer swg.Done()
					for k := 0; k < 6; k++ {
						src := mk(g*10 + k)
						f, err := decorator.NewDecorator(shared).Parse(src)
						got := ""
						if err != nil {
							got = "error: " + err.Error()
						} else {
							var buf bytes.Buffer
							decorator.Fprint(&buf, f)
							got = buf.String()
						}
						if want := alone(src); got != want {
							smu.Lock()
							if !reported {
								reported = true
								fmt.Printf("DIFF shared-fileset goroutine %d call %d: a decorator of its own on a shared file set gives\n%s\nthe call made alone\n%s\n", g, k, got, want)
							}
							smu.Unlock()
							return
						}
					}
				}(g)
			}
			swg.Wait()
		}
		// ... and with Restorer.Extras on a file whose scope still knows declarations that were removed from
		// the tree (objects are kept in maps): the same bytes every time, and the same as without Extras
		{
			esrc := "package p\n\n// Alpha doc\nfunc Alpha(a int) int { b := a; return b } // alpha trail\n\n// Beta doc\nfunc Beta(c, d int) int { return c + d } // beta trail\n\n// Gamma doc\nfunc Gamma() {} // gamma trail\n\nfunc Keep() { Alpha(1); Beta(2, 3); Gamma() }\n"
			first, firstGraph := "", ""
			for k := 0; k < 40; k++ {
				f, err := decorator.Parse(esrc)
				if err != nil {
					break
				}
				f.Decls = f.Decls[3:]
				var plain, ex bytes.Buffer
				if err := decorator.Fprint(&plain, dst.Clone(f).(*dst.File)); err != nil {
					fmt.Println("DIFF repeat-extras: error", err)
					break
				}
				r := decorator.NewRestorer()
				r.Extras = true
				af, err := r.RestoreFile(f)
				if err != nil {
					fmt.Println("DIFF repeat-extras: error", err)
					break
				}
				if err := format.Node(&ex, r.Fset, af); err != nil {
					fmt.Println("DIFF repeat-extras: error", err)
					break
				}
				// equal trees: the object graph reachable from the file (through the removed declarations too)
				g := strings.Join(reachCanonAst(af), " | ")
				if firstGraph == "" {
					firstGraph = g
				} else if g != firstGraph {
					fmt.Printf("DIFF repeat-extras %d: the restored object graph differs between identical calls: %s vs %s\n", k, firstGraph, g)
					break
				}
				if first == "" {
					first = ex.String()
				}
				if ex.String() != first || ex.String() != plain.String() {
					fmt.Printf("DIFF repeat-extras %d: with Extras %q, first run %q, without Extras %q\n", k, ex.String(), first, plain.String())
					break
				}
			}
		}
		fmt.Println("STRESS-DONE")
		return 0
	case "trace":
		// record the protocol steps with a global sequence number (separate run: the recording mutex
		// must not hide races from the detector)
		srcs := c16Sources(3)
		var mu sync.Mutex
		var seq int64
		files := map[*ast.File]int{}
		var events []obj
		goast.VerifStep = func(r *goast.DecoratorResolver, f *ast.File, step string) {
			if step == "acquire" {
				return // not a step of the protocol: the goroutine is still in front of the mutex
			}
			n := atomic.AddInt64(&seq, 1)
			mu.Lock()
			events = append(events, obj{"seq": n, "p": files[f], "step": step})
			mu.Unlock()
		}
		for round := 0; round < 20; round++ {
			shared := goast.New()
			var wg sync.WaitGroup
			asts := make([]*ast.File, len(srcs))
			fsets := make([]*token.FileSet, len(srcs))
			mu.Lock()
			events = append(events, obj{"seq": atomic.AddInt64(&seq, 1), "p": 0, "step": "reset"})
			for i := range srcs {
				fsets[i] = token.NewFileSet()
				asts[i], _ = parser.ParseFile(fsets[i], "", srcs[i], parser.ParseComments)
				files[asts[i]] = i + 1
			}
			mu.Unlock()
			for i := range srcs {
				wg.Add(1)
				go func(i int) {
					defer wg.Done()
					// exactly two resolver calls per goroutine, as in the model
					var sel []*ast.SelectorExpr
					ast.Inspect(asts[i], func(n ast.Node) bool {
						if s, ok := n.(*ast.SelectorExpr); ok {
							sel = append(sel, s)
						}
						return true
					})
					for k := 0; k < 2; k++ {
						shared.ResolveIdent(asts[i], sel[k], "Sel", sel[k].Sel)
					}
				}(i)
			}
			wg.Wait()
		}
		goast.VerifStep = nil
		sort.Slice(events, func(i, j int) bool { return events[i]["seq"].(int64) < events[j]["seq"].(int64) })
		enc := json.NewEncoder(os.Stdout)
		for _, e := range events {
			enc.Encode(e)
		}
		return 0
	case "gated":
		// replay TLC schedules: each goroutine blocks at every step until the scheduler releases it
		var scheds [][]struct {
			P    int    `json:"p"`
			Step string `json:"step"`
		}
		if err := json.NewDecoder(os.Stdin).Decode(&scheds); err != nil {
			fmt.Println("ERR", err)
			return 3
		}
		srcs := c16Sources(3)
		want := map[int][]string{}
		for si, sched := range scheds {
			nproc := 0
			for _, e := range sched {
				if e.P > nproc {
					nproc = e.P
				}
			}
			shared := goast.New()
			gates := make([]chan struct{}, nproc+1)
			arrived := make(chan [2]interface{}, 64)
			files := map[*ast.File]int{}
			asts := make([]*ast.File, nproc+1)
			for p := 1; p <= nproc; p++ {
				gates[p] = make(chan struct{})
				asts[p], _ = parser.ParseFile(token.NewFileSet(), "", srcs[p-1], parser.ParseComments)
				files[asts[p]] = p
			}
			goast.VerifStep = func(r *goast.DecoratorResolver, f *ast.File, step string) {
				p := files[f]
				arrived <- [2]interface{}{p, step}
				<-gates[p]
			}
			results := make([][]string, nproc+1)
			var wg sync.WaitGroup
			for p := 1; p <= nproc; p++ {
				wg.Add(1)
				go func(p int) {
					defer wg.Done()
					var sel []*ast.SelectorExpr
					ast.Inspect(asts[p], func(n ast.Node) bool {
						if s, ok := n.(*ast.SelectorExpr); ok {
							sel = append(sel, s)
						}
						return true
					})
					for k := 0; k < 2; k++ {
						path, err := shared.ResolveIdent(asts[p], sel[k], "Sel", sel[k].Sel)
						results[p] = append(results[p], fmt.Sprintf("%s/%v", path, err))
					}
				}(p)
			}
			// the scheduler: wait until the goroutine named by the schedule has arrived at the step, release it
			waiting := map[int]string{}
			ok := true
			waitFor := func(p int, step string) bool {
				deadline := time.After(5 * time.Second)
				for waiting[p] == "" {
					select {
					case a := <-arrived:
						waiting[a[0].(int)] = a[1].(string)
					case <-deadline:
						fmt.Printf("STUCK schedule %d: goroutine %d never reached step %s (waiting: %v)\n", si, p, step, waiting)
						return false
					}
				}
				if waiting[p] != step {
					fmt.Printf("DIVERGE schedule %d: goroutine %d is at step %s, the specification schedules %s\n", si, p, waiting[p], step)
					return false
				}
				return true
			}
			release := func(p int) {
				waiting[p] = ""
				gates[p] <- struct{}{}
			}
			for _, e := range sched {
				if e.Step == "default" {
					continue // the default is installed without a hook of its own
				}
				if e.Step == "lock" {
					// the goroutine waits in front of the mutex; let it take the lock now
					if ok = waitFor(e.P, "acquire"); !ok {
						break
					}
					release(e.P)
				}
				if ok = waitFor(e.P, e.Step); !ok {
					break
				}
				release(e.P)
			}
			if !ok {
				// release everything so the goroutines can finish
				goast.VerifStep = nil
				for p := 1; p <= nproc; p++ {
					close(gates[p])
				}
				go func() {
					for range arrived {
					}
				}()
				wg.Wait()
				continue
			}
			wg.Wait()
			goast.VerifStep = nil
			for p := 1; p <= nproc; p++ {
				if want[p] == nil {
					// sequential reference
					ref := goast.New()
					var sel []*ast.SelectorExpr
					ast.Inspect(asts[p], func(n ast.Node) bool {
						if s, ok := n.(*ast.SelectorExpr); ok {
							sel = append(sel, s)
						}
						return true
					})
					for k := 0; k < 2; k++ {
						path, err := ref.ResolveIdent(asts[p], sel[k], "Sel", sel[k].Sel)
						want[p] = append(want[p], fmt.Sprintf("%s/%v", path, err))
					}
				}
				if strings.Join(results[p], ",") != strings.Join(want[p], ",") {
					fmt.Printf("DIFF schedule %d goroutine %d: %v, alone %v\n", si, p, results[p], want[p])
				}
			}
		}
		fmt.Printf("GATED-DONE %d\n", len(scheds))
		return 0
	}
	return 2
}

func buildRaceWorker() (string, error) {
	dir, err := scratchDir("race")
	if err != nil {
		return "", err
	}
	bin := filepath.Join(dir, "dstv-race")
	args := []string{"build", "-race", "-tags", "verif", "-o", bin}
	if mf := os.Getenv("VERIF_MODFILE"); mf != "" {
		args = append(args, "-modfile="+mf)
	}
	cmd := exec.Command("go", append(args, ".")...)
	cmd.Dir = filepath.Join(verifRoot(), "harness")
	cmd.Env = append(os.Environ(), "GOFLAGS=-mod=mod", "GOPROXY=off", "GOSUMDB=off", "GOTOOLCHAIN=local", "CGO_ENABLED=1")
	if out, err := cmd.CombinedOutput(); err != nil {
		os.RemoveAll(dir)
		return "", fmt.Errorf("go build -race: %v\n%s", err, truncate(string(out), 800))
	}
	return bin, nil
}

func runWorker(bin string, stdin []byte, args ...string) (stdout, stderr string, code int, err error) {
	cmd := exec.Command(bin, append([]string{"c16worker"}, args...)...)
	cmd.Env = append(os.Environ(), "GORACE=halt_on_error=0 exitcode=66")
	var so, se bytes.Buffer
	cmd.Stdout, cmd.Stderr = &so, &se
	if stdin != nil {
		cmd.Stdin = bytes.NewReader(stdin)
	}
	done := make(chan error, 1)
	if err := cmd.Start(); err != nil {
		return "", "", -1, err
	}
	go func() { done <- cmd.Wait() }()
	select {
	case e := <-done:
		if ee, ok := e.(*exec.ExitError); ok {
			code = ee.ExitCode()
		} else if e != nil {
			return so.String(), se.String(), -1, e
		}
	case <-time.After(10 * time.Minute):
		cmd.Process.Kill()
		return so.String(), se.String(), -1, fmt.Errorf("worker timed out")
	}
	return so.String(), se.String(), code, nil
}

const concTraceCfg = `CONSTANTS Procs = {1,2,3} Calls = 2 InitNil = TRUE LazyUnderLock = TRUE EmitHist = FALSE
INIT TInit
NEXT TNext
VIEW TView
INVARIANTS TNoRace TMutex
POSTCONDITION Accepted
CHECK_DEADLOCK FALSE
`

func checkC16(c *Ctx) {
	c.Assume("the Go race detector reports only real races; forced schedules synchronise through the gate, so races are looked for in the free-running stress run and logical interference in the gated replays")
	procs := 3
	mc, err := RunTLC(TLCRun{Module: "Concurrency", Cfg: concCfg(procs, 2, true, false), Workers: 8, Timeout: 20 * time.Minute})
	if err != nil || !mc.OK() {
		c.Infra("TLC model check of Concurrency failed: " + errText(mc, err))
		return
	}
	c.TLC(mc)
	c.Set("mc_bounds", "3 goroutines x 2 resolver calls, resolver created with goast.New(), all interleavings, vector-clock race detection")
	c.Set("exhaustive", true)
	f5, err := RunTLC(TLCRun{Module: "Concurrency", Cfg: concCfg(procs, 2, false, false), Workers: 4, Timeout: 10 * time.Minute})
	if err != nil || f5.Violated != "NoRace" {
		c.Infra("TLC did not find the lazy-default race in the unsynchronised variant: " + errText(f5, err))
		return
	}
	c.Set("f5_model_counterexample", "NoRace violated when the default name resolver is installed before taking the lock")

	bin, err := buildRaceWorker()
	if err != nil {
		c.Infra(err.Error())
		return
	}
	defer os.RemoveAll(filepath.Dir(bin))

	// free-running stress under the race detector
	so, se, code, err := runWorker(bin, nil, "stress")
	if err != nil || !strings.Contains(so, "STRESS-DONE") {
		if strings.Contains(se, "DATA RACE") {
			// the detector may be configured to stop; still a finding
		} else {
			c.Infra(fmt.Sprintf("stress worker failed (exit %d): %v %s %s", code, err, truncate(so, 300), truncate(se, 600)))
			return
		}
	}
	c.Eval("stress: 40 rounds x 16 goroutines x 3 decorate+restore calls, shared goast resolver (New / WithResolver) and shared guess resolver", true)
	c.Eval("repeat: 60 identical import-managed restores", true)
	c.Eval("repeat: 6 parsed files (3 the resolver must refuse) decorated 4 times each through one shared goast resolver", true)
	c.Eval("repeat: 15 three-file directories x 12 identical ParseDir+Fprint runs, concurrently", true)
	if strings.Contains(se, "DATA RACE") {
		rep := se[strings.Index(se, "WARNING: DATA RACE"):]
		where := "other"
		if strings.Contains(rep, "goast.(*DecoratorResolver).ResolveIdent") {
			where = "goast.ResolveIdent"
		}
		c.Fail(Finding{Sig: "data-race", Input: where, What: "race detector: " + truncate(rep, 1500), Replay: obj{"kind": "c16", "mode": "stress"}})
	}
	for _, line := range strings.Split(so, "\n") {
		if strings.HasPrefix(line, "DIFF") {
			c.Fail(Finding{Sig: "concurrent-result-differs", Input: truncate(line, 80), What: line, Replay: obj{"kind": "c16", "mode": "stress"}})
		}
	}

	// gated replay of TLC schedules (all for 2 goroutines, a sample for 3)
	var scheds []json.RawMessage
	for _, np := range []int{2, 3} {
		run := TLCRun{Module: "Concurrency", Cfg: concCfg(np, 2, true, true), Workers: 4, Timeout: 20 * time.Minute}
		if np == 3 {
			// all interleavings of three goroutines are too many to write out: a seeded random sample
			run.Workers = 1
			run.Simulate = fmt.Sprintf("num=%d", map[bool]int{true: 300, false: 4000}[c.Quick()])
			run.Depth = 40
			run.Seed = c.Seed
		}
		gen, err := RunTLC(run)
		if err != nil || gen.TimedOut || gen.Violated != "" {
			c.Infra("TLC schedule generation failed: " + errText(gen, err))
			return
		}
		if np == 2 {
			c.TLC(gen)
		}
		bs := gen.Payloads("BEH ")
		max := 400
		if !c.Quick() {
			max = 5000
		}
		step := 1
		if len(bs) > max {
			step = len(bs) / max
		}
		for i := 0; i < len(bs); i += step {
			scheds = append(scheds, json.RawMessage(bs[i]))
		}
		c.Set(fmt.Sprintf("schedules_%d_goroutines", np), len(bs))
	}
	in, _ := json.Marshal(scheds)
	so, se, code, err = runWorker(bin, in, "gated")
	if err != nil || !strings.Contains(so, "GATED-DONE") {
		c.Infra(fmt.Sprintf("gated worker failed (exit %d): %v %s %s", code, err, truncate(so, 400), truncate(se, 400)))
		return
	}
	c.Traces(int64(len(scheds)))
	nDiverge := 0
	for _, line := range strings.Split(so, "\n") {
		switch {
		case strings.HasPrefix(line, "DIFF"):
			c.Fail(Finding{Sig: "scheduled-result-differs", Input: truncate(line, 60), What: line, Replay: obj{"kind": "c16", "mode": "gated"}})
		case strings.HasPrefix(line, "DIVERGE"), strings.HasPrefix(line, "STUCK"):
			nDiverge++
			if nDiverge == 1 {
				c.Note("schedule replay: " + line)
			}
		}
	}
	if nDiverge > 0 {
		c.Set("model_conformance", false)
		c.Set("schedules_not_followed", nDiverge)
	}
	for i := range scheds {
		c.Eval(fmt.Sprintf("schedule-%d-%s", i, shortHash(string(scheds[i]))), true)
		if i%97 == 0 {
			c.Sample(json.RawMessage(scheds[i]))
		}
	}
	// recorded protocol steps validated against the lock protocol of the specification
	so, se, code, err = runWorker(bin, nil, "trace")
	if err != nil || code != 0 && code != 66 {
		c.Infra(fmt.Sprintf("trace worker failed (exit %d): %v %s", code, err, truncate(se, 400)))
		return
	}
	if strings.Contains(se, "DATA RACE") {
		rep := se[strings.Index(se, "WARNING: DATA RACE"):]
		c.Fail(Finding{Sig: "data-race", Input: "trace-rounds", What: "race detector: " + truncate(rep, 1500), Replay: obj{"kind": "c16", "mode": "trace"}})
	}
	res, err := RunTLC(TLCRun{Module: "ConcurrencyTrace", Cfg: concTraceCfg, Workers: 1, Timeout: 10 * time.Minute, Files: map[string][]byte{"trace.ndjson": []byte(so)}})
	if err != nil || res.TimedOut || (res.ExitCode != 0 && res.Violated == "" && !res.Postcond) {
		c.Infra("TLC (ConcurrencyTrace) did not run: " + errText(res, err))
		return
	}
	c.TLC(res)
	c.Traces(20)
	if !res.OK() {
		lines := strings.Split(so, "\n")
		i := int(res.Distinct) - 1
		ev := ""
		if i >= 0 && i < len(lines) {
			ev = lines[i]
		}
		// The trace specification transcribes the present locking scheme (one resolver-wide mutex).
		// A resolver that synchronises differently (finer locks, lock-free reads) keeps the property
		// as long as the race detector stays silent and the results equal the solo results - both
		// judged above on the real code. A rejected trace is therefore a conformance deviation
		// (I-layer), recorded and not reported as a violation.
		c.Set("model_conformance", false)
		c.Set("lock_protocol_not_followed", truncate(rejectText(res)+" "+ev, 300))
		c.Note("recorded resolver steps are not a behaviour of Concurrency.tla (the resolver synchronises differently from the model): " + rejectText(res) + " " + ev)
	}
	c.Set("rule", "case = one free-running stress configuration under the race detector, or one TLC-generated schedule forced on the real resolver through the gate hooks; all non-trivial; distinct by schedule")
}
