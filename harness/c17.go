package main

import (
	"bytes"
	"encoding/json"
	"errors"
	"fmt"
	"go/ast"
	"go/parser"
	"go/token"
	"math/rand"
	"time"

	"github.com/dave/dst"
	"github.com/dave/dst/decorator"
	"github.com/dave/dst/decorator/resolver"
	"github.com/dave/dst/decorator/resolver/goast"
	"github.com/dave/dst/decorator/resolver/guess"
	"github.com/dave/dst/decorator/resolver/simple"
)

func init() { register("C17", "fault_enumeration", checkC17) }

const faultsTraceCfg = `INIT TInit
NEXT TNext
INVARIANTS ErrorReturned NoOutputOnError TreeUnchangedOnError RetryEqualsClean CallsAsSpecified
POSTCONDITION Accepted
CHECK_DEADLOCK FALSE
`

var errInjected = errors.New("injected resolver failure")

// failingRR wraps a RestorerResolver and fails its k-th call (k = 0: never).
type failingRR struct {
	inner resolver.RestorerResolver
	k     int
	calls int
	err   error
}

func (f *failingRR) ResolvePackage(path string) (string, error) {
	f.calls++
	if f.calls == f.k {
		return "", f.err
	}
	return f.inner.ResolvePackage(path)
}

// failingDR wraps a DecoratorResolver.
type failingDR struct {
	inner resolver.DecoratorResolver
	k     int
	calls int
	err   error
}

func (f *failingDR) ResolveIdent(file *ast.File, parent ast.Node, parentField string, id *ast.Ident) (string, error) {
	f.calls++
	if f.calls == f.k {
		return "", f.err
	}
	return f.inner.ResolveIdent(file, parent, parentField, id)
}

type faultObs struct {
	Op            string `json:"op"`
	Calls         int    `json:"calls"`
	FailAt        int    `json:"failAt"`
	Err           bool   `json:"err"`
	Wrapped       bool   `json:"wrapped"`
	Panic         bool   `json:"panic"`
	OutBytes      int    `json:"outBytes"`
	TreeSame      bool   `json:"treeSame"`
	RetrySame     bool   `json:"retrySame"`
	ExpectedCalls int    `json:"expectedCalls"`
	Msg           string `json:"-"`
}

func treeDigest(f *dst.File) string {
	t, _ := ExportDst(f)
	b, _ := json.Marshal(t)
	return string(b)
}

func astDigest(f *ast.File) string {
	t, _ := ExportAst(f)
	b, _ := json.Marshal(t)
	return string(b)
}

// faultsRestore enumerates every failure position of an import-managed restore of build().
func faultsRestore(build func() (*dst.File, map[string]string), names map[string]string, path string, expected int) []faultObs {
	return faultsRestoreX(build, names, path, expected, false)
}

// extras: the restorers also restore the object graph (Restorer.Extras)
func faultsRestoreX(build func() (*dst.File, map[string]string), names map[string]string, path string, expected int, extras bool) []faultObs {
	clean := func() ([]byte, int, error) {
		f, alias := build()
		rr := &failingRR{inner: simple.New(names)}
		rst := decorator.NewRestorerWithImports(path, rr)
		rst.Extras = extras
		fr := rst.FileRestorer()
		for k, v := range alias {
			fr.Alias[k] = v
		}
		var buf bytes.Buffer
		err := fr.Fprint(&buf, f)
		return buf.Bytes(), rr.calls, err
	}
	want, n, err := clean()
	if err != nil {
		return nil
	}
	out := []faultObs{{Op: "restore", Calls: n, FailAt: 0, ExpectedCalls: expected, TreeSame: true, RetrySame: true}}
	for k := 1; k <= n; k++ {
		o := faultObs{Op: "restore", Calls: n, FailAt: k, ExpectedCalls: -1}
		f, alias := build()
		before := treeDigest(f)
		sentinel := fmt.Errorf("sentinel %d: %w", k, errInjected)
		rr := &failingRR{inner: simple.New(names), k: k, err: sentinel}
		rst := decorator.NewRestorerWithImports(path, rr)
		rst.Extras = extras
		fr := rst.FileRestorer()
		for kk, v := range alias {
			fr.Alias[kk] = v
		}
		var buf bytes.Buffer
		var err error
		if msg := guard(func() { err = fr.Fprint(&buf, f) }); msg != "" {
			o.Panic, o.Msg = true, msg
		}
		o.Err = err != nil
		o.Wrapped = err != nil && errors.Is(err, sentinel)
		o.OutBytes = buf.Len()
		o.TreeSame = treeDigest(f) == before
		// retry on the same tree with a working resolver and a fresh restorer
		rst2 := decorator.NewRestorerWithImports(path, simple.New(names))
		rst2.Extras = extras
		fr2 := rst2.FileRestorer()
		for kk, v := range alias {
			fr2.Alias[kk] = v
		}
		var buf2 bytes.Buffer
		var err2 error
		if msg := guard(func() { err2 = fr2.Fprint(&buf2, f) }); msg != "" {
			o.Msg = "retry: " + msg
		}
		o.RetrySame = err2 == nil && bytes.Equal(buf2.Bytes(), want)
		out = append(out, o)
	}
	return out
}

// faultsDecorate enumerates every failure position of a decoration with import resolution.
func faultsDecorate(src []byte, mode string) []faultObs {
	mk := func(k int, sentinel error) (resolver.DecoratorResolver, func() int) {
		switch mode {
		case "ident":
			d := &failingDR{inner: goast.WithResolver(guess.New()), k: k, err: sentinel}
			return d, func() int { return d.calls }
		default: // the syntax-based resolver's own name resolver fails
			rr := &failingRR{inner: guess.New(), k: k, err: sentinel}
			return goast.WithResolver(rr), func() int { return rr.calls }
		}
	}
	var lastDR resolver.DecoratorResolver
	var lastFset *token.FileSet
	run := func(k int, sentinel error) (*dst.File, *ast.File, string, int, error, string) {
		fset := token.NewFileSet()
		af, err := parser.ParseFile(fset, "", src, parser.ParseComments)
		if err != nil {
			return nil, nil, "", 0, err, ""
		}
		before := astDigest(af)
		dr, calls := mk(k, sentinel)
		lastDR, lastFset = dr, fset
		d := decorator.NewDecoratorWithImports(fset, "example.com/local", dr)
		var df *dst.File
		var derr error
		msg := guard(func() { df, derr = d.DecorateFile(af) })
		same := ""
		if astDigest(af) == before {
			same = "same"
		}
		return df, af, same, calls(), derr, msg
	}
	df, _, _, n, err, msg := run(0, nil)
	if err != nil || msg != "" || n == 0 {
		return nil
	}
	want := treeDigest(df)
	out := []faultObs{{Op: "decorate-" + mode, Calls: n, FailAt: 0, ExpectedCalls: -1, TreeSame: true, RetrySame: true}}
	step := 1
	if n > 40 {
		step = n / 40
	}
	for k := 1; k <= n; k += step {
		sentinel := fmt.Errorf("sentinel %d: %w", k, errInjected)
		o := faultObs{Op: "decorate-" + mode, Calls: n, FailAt: k, ExpectedCalls: -1}
		df, afFailed, same, _, err, msg := run(k, sentinel)
		drFailed, fsetFailed := lastDR, lastFset
		if msg != "" {
			o.Panic, o.Msg = true, msg
		}
		o.Err = err != nil
		o.Wrapped = err != nil && errors.Is(err, sentinel)
		if df != nil {
			o.OutBytes = 1 // a tree was returned although the resolver failed
		}
		o.TreeSame = same == "same"
		// retry: fresh decorator, working resolver
		df2, _, _, _, err2, _ := run(0, nil)
		o.RetrySame = err2 == nil && df2 != nil && treeDigest(df2) == want
		// retry with the very same resolver objects (their failure was transient) and the same ast, through a
		// fresh decorator: nothing of the failed attempt may survive in the resolvers
		if afFailed != nil && !o.Panic {
			var df3 *dst.File
			var err3 error
			msg3 := guard(func() {
				df3, err3 = decorator.NewDecoratorWithImports(fsetFailed, "example.com/local", drFailed).DecorateFile(afFailed)
			})
			if msg3 != "" || err3 != nil || df3 == nil || treeDigest(df3) != want {
				o.RetrySame = false
				o.Msg = fmt.Sprintf("retry with the same resolver objects: %s %v", msg3, err3)
			}
		}
		out = append(out, o)
	}
	return out
}

// faultsParse: the parse entry point of a decorator with import resolution on a source with a
// recoverable syntax error (the parser returns a partial tree and an error, decoration of the partial
// tree runs): a resolver failure must still surface as an error wrapping it, and no tree is returned.
func faultsParse(src []byte, mode string) []faultObs {
	run := func(k int, sentinel error) (*dst.File, int, error, string) {
		var dr resolver.DecoratorResolver
		var calls func() int
		if mode == "ident" {
			d := &failingDR{inner: goast.WithResolver(guess.New()), k: k, err: sentinel}
			dr, calls = d, func() int { return d.calls }
		} else {
			rr := &failingRR{inner: guess.New(), k: k, err: sentinel}
			dr, calls = goast.WithResolver(rr), func() int { return rr.calls }
		}
		d := decorator.NewDecoratorWithImports(token.NewFileSet(), "example.com/local", dr)
		var df *dst.File
		var err error
		msg := guard(func() { df, err = d.Parse(src) })
		return df, calls(), err, msg
	}
	df, n, err, msg := run(0, nil)
	if err == nil || df == nil || msg != "" || n == 0 {
		return nil // not a source with a recoverable syntax error, or nothing to resolve
	}
	want := treeDigest(df)
	var out []faultObs
	step := 1
	if n > 12 {
		step = n / 12
	}
	for k := 1; k <= n; k += step {
		sentinel := fmt.Errorf("sentinel %d: %w", k, errInjected)
		o := faultObs{Op: "parse-" + mode, Calls: n, FailAt: k, ExpectedCalls: -1, TreeSame: true}
		df, _, err, msg := run(k, sentinel)
		if msg != "" {
			o.Panic, o.Msg = true, msg
		}
		o.Err = err != nil
		o.Wrapped = err != nil && errors.Is(err, sentinel)
		if df != nil {
			o.OutBytes = 1
		}
		df2, _, err2, _ := run(0, nil)
		o.RetrySame = err2 != nil && df2 != nil && treeDigest(df2) == want
		out = append(out, o)
	}
	return out
}

// faultsPackage: the file decorated as (part of) a package, the way Decorator.ParseDir does it:
// DecorateNode on an *ast.Package of two files, resolver failing at call k.
func faultsPackage(src []byte, mode string) []faultObs {
	return append(faultsPackageScoped(src, mode, false), faultsPackageScoped(src, mode, true)...)
}

// scoped: the package is built by ast.NewPackage, so it has a package scope whose objects point at the
// declarations of the files; decoration then reaches those declarations through the scope first
func faultsPackageScoped(src []byte, mode string, scoped bool) []faultObs {
	second := []byte("package " + packageNameOf(src) + "\n\nimport \"os\"\n\nvar secondFileVar = os.Args\n")
	run := func(k int, sentinel error) (*dst.Package, string, int, error, string) {
		var dr resolver.DecoratorResolver
		var calls func() int
		if mode == "ident" {
			d := &failingDR{inner: goast.WithResolver(guess.New()), k: k, err: sentinel}
			dr, calls = d, func() int { return d.calls }
		} else {
			rr := &failingRR{inner: guess.New(), k: k, err: sentinel}
			dr, calls = goast.WithResolver(rr), func() int { return rr.calls }
		}
		fset := token.NewFileSet()
		pkg := &ast.Package{Name: packageNameOf(src), Files: map[string]*ast.File{}}
		for name, b := range map[string][]byte{"a.go": src, "b.go": second} {
			af, err := parser.ParseFile(fset, name, b, parser.ParseComments)
			if err != nil {
				return nil, "", 0, err, ""
			}
			pkg.Files[name] = af
		}
		if scoped {
			if sp, _ := ast.NewPackage(fset, pkg.Files, nil, nil); sp != nil {
				pkg = sp
			}
		}
		before := astDigest(pkg.Files["a.go"]) + astDigest(pkg.Files["b.go"])
		d := decorator.NewDecoratorWithImports(fset, "example.com/local", dr)
		var out dst.Node
		var err error
		msg := guard(func() { out, err = d.DecorateNode(pkg) })
		same := ""
		if astDigest(pkg.Files["a.go"])+astDigest(pkg.Files["b.go"]) == before {
			same = "same"
		}
		dp, _ := out.(*dst.Package)
		return dp, same, calls(), err, msg
	}
	digest := func(p *dst.Package) string {
		if p == nil || p.Files["a.go"] == nil || p.Files["b.go"] == nil {
			return ""
		}
		return treeDigest(p.Files["a.go"]) + treeDigest(p.Files["b.go"])
	}
	dp, _, n, err, msg := run(0, nil)
	if err != nil || msg != "" || n == 0 || dp == nil {
		return nil
	}
	want := digest(dp)
	var out []faultObs
	step := 1
	if n > 12 {
		step = n / 12
	}
	for k := 1; k <= n; k += step {
		sentinel := fmt.Errorf("sentinel %d: %w", k, errInjected)
		op := "package-" + mode
		if scoped {
			op = "package-scoped-" + mode
		}
		o := faultObs{Op: op, Calls: n, FailAt: k, ExpectedCalls: -1}
		dp, same, _, err, msg := run(k, sentinel)
		if msg != "" {
			o.Panic, o.Msg = true, msg
		}
		o.Err = err != nil
		o.Wrapped = err != nil && errors.Is(err, sentinel)
		if dp != nil {
			o.OutBytes = 1
		}
		o.TreeSame = same == "same"
		dp2, _, _, err2, _ := run(0, nil)
		o.RetrySame = err2 == nil && digest(dp2) == want
		out = append(out, o)
	}
	return out
}

func packageNameOf(src []byte) string {
	f, err := parser.ParseFile(token.NewFileSet(), "", src, parser.PackageClauseOnly)
	if err != nil || f.Name == nil {
		return "p"
	}
	return f.Name.Name
}

// syntaxDamage: variants of a source with a recoverable syntax error behind valid code
func syntaxDamage(src []byte) [][]byte {
	return [][]byte{
		append(append([]byte{}, src...), []byte("\nfunc brokenTail( {\n")...),
		append(append([]byte{}, src...), []byte("\nvar brokenTail = (1 +\n")...),
		append(append([]byte{}, src...), []byte("\nfoo bar\n")...),
	}
}

func checkC17(c *Ctx) {
	c.Assume("failures are injected through wrappers around the public RestorerResolver / DecoratorResolver interfaces; each failing call returns a distinct sentinel error")
	for _, mf := range []bool{false, true} {
		r, err := RunTLC(TLCRun{Module: "Faults", Workers: 2, Timeout: 5 * time.Minute, Cfg: fmt.Sprintf("CONSTANTS NCalls = 4 MutateFirst = %s CacheOnFailure = FALSE\nINIT Init\nNEXT Next\nINVARIANTS ErrorReturned NoOutputOnError TreeUnchangedOnError RetrySucceeds RetryComplete\nCHECK_DEADLOCK FALSE\n", tlaBool(mf))})
		if err != nil || (!mf && !r.OK()) || (mf && r.Violated == "") {
			c.Infra("TLC (Faults) unexpected result: " + errText(r, err))
			return
		}
		if !mf {
			c.TLC(r)
		}
	}
	// a resolver that keeps the half-built table of a failed attempt: the retry is not the clean run
	if r, err := RunTLC(TLCRun{Module: "Faults", Workers: 2, Timeout: 5 * time.Minute, Cfg: "CONSTANTS NCalls = 4 MutateFirst = FALSE CacheOnFailure = TRUE\nINIT Init\nNEXT Next\nINVARIANTS RetryComplete\nCHECK_DEADLOCK FALSE\n"}); err != nil || r.Violated != "RetryComplete" {
		c.Infra("TLC did not reject the cache-on-failure variant of Faults: " + errText(r, err))
		return
	}
	c.Set("model", "Faults.tla: every call order x every failure position for 4 resolver calls, resolver objects that outlive the attempt; the mutate-before-resolve and cache-on-failure variants are rejected")

	r := rand.New(rand.NewSource(c.Seed))
	var all []faultObs
	var keys []string
	// import configurations: the expected number of resolver calls comes from Imports.tla (|Resolved|)
	nCfg := 250
	if !c.Quick() {
		nCfg = 5000
	}
	for len(keys) < nCfg {
		cf := impCfg{Src: map[string]string{}, Ov: map[string]string{}, Used: map[string]bool{}, Shape: r.Intn(3)}
		for _, p := range impPaths {
			if p == "C" {
				cf.Src[p], cf.Ov[p], cf.Used[p] = []string{"absent", ""}[r.Intn(2)], "unset", false
				continue
			}
			cf.Src[p], cf.Ov[p], cf.Used[p] = impSrcStates[r.Intn(len(impSrcStates))], impOvStates[r.Intn(len(impOvStates))], r.Intn(3) > 0
		}
		// |Resolved(c)|: used paths without an effective alias (transcribed from Imports!Eff)
		expected := 0
		for _, p := range impPaths {
			if !cf.Used[p] {
				continue
			}
			s, o := cf.Src[p], cf.Ov[p]
			fromSrc := s != "absent" && s != "" && o != "" && !(s == "_")
			fromOv := o != "unset" && o != "" && !(o == "_")
			if !fromSrc && !fromOv {
				expected++
			}
		}
		build := func() (*dst.File, map[string]string) {
			f, _ := decorator.Parse(cf.source())
			for i, p := range impPaths {
				if cf.Used[p] {
					f.Decls = append(f.Decls, &dst.GenDecl{Tok: token.VAR, Specs: []dst.Spec{&dst.ValueSpec{
						Names: []*dst.Ident{dst.NewIdent("_")}, Values: []dst.Expr{&dst.Ident{Name: fmt.Sprintf("V%d", i), Path: p}}}}})
				}
			}
			al := map[string]string{}
			for p, o := range cf.Ov {
				if o != "unset" {
					al[p] = o
				}
			}
			return f, al
		}
		obs := faultsRestore(build, impPkg, "main", expected)
		for _, o := range obs {
			all = append(all, o)
			keys = append(keys, fmt.Sprintf("restore|%s|fail@%d", cf.key(), o.FailAt))
		}
		if len(obs) == 0 {
			keys = append(keys, "")
			all = append(all, faultObs{Op: "skip", ExpectedCalls: -1, TreeSame: true, RetrySame: true})
		}
	}
	// hand-built files: no parser and no decorator made these trees, so nothing has normalised the paths
	// on their identifiers (a vendored path taken from go/types, a path with a version element, the same
	// package under two spellings) and the nodes carry the minimal fields only
	hbNames := map[string]string{"fmt": "fmt", "example.com/app/vendor/github.com/pkg/errors": "errors", "github.com/pkg/errors": "errors",
		"example.com/m/v2": "m", "vendor/golang.org/x/net/idna": "idna", "golang.org/x/net/idna": "idna",
		// characters that mean something to fmt, to a shell or to a URL parser mean nothing in an import path
		"example.com/caf%C3%A9/menu": "menu", "example.com/100%d/%w/v": "v", "example.com/a b/{c}": "c"}
	for hi, paths := range [][]string{
		{"fmt", "example.com/app/vendor/github.com/pkg/errors"},
		{"example.com/app/vendor/github.com/pkg/errors", "fmt"},
		{"vendor/golang.org/x/net/idna", "example.com/m/v2", "fmt"},
		{"example.com/app/vendor/github.com/pkg/errors", "example.com/m/v2", "vendor/golang.org/x/net/idna"},
		{"example.com/caf%C3%A9/menu", "fmt"},
		{"example.com/100%d/%w/v", "example.com/a b/{c}", "example.com/caf%C3%A9/menu"},
	} {
		paths := paths
		build := func() (*dst.File, map[string]string) {
			f := &dst.File{Name: dst.NewIdent("main")}
			var stmts []dst.Stmt
			for i, p := range paths {
				stmts = append(stmts, &dst.ExprStmt{X: &dst.CallExpr{Fun: &dst.Ident{Name: fmt.Sprintf("F%d", i), Path: p}}})
			}
			f.Decls = append(f.Decls, &dst.FuncDecl{Name: dst.NewIdent("main"), Type: &dst.FuncType{}, Body: &dst.BlockStmt{List: stmts}})
			return f, nil
		}
		obs := faultsRestore(build, hbNames, "main", len(paths))
		if len(obs) == 0 {
			c.Infra(fmt.Sprintf("hand-built file %d does not restore without failures", hi))
			return
		}
		for _, o := range obs {
			all = append(all, o)
			keys = append(keys, fmt.Sprintf("restore|hand-built-%d|fail@%d", hi, o.FailAt))
		}
	}
	// the object graph restored too (Extras), after a declaration was deleted that was the only user of an
	// import: the declaration is still reachable through the file scope and is restored behind the file
	for xi, xsrc := range []string{
		"package main\n\nimport (\n\t\"fmt\"\n\t\"os\"\n)\n\nfunc helper() { fmt.Println() }\n\nfunc main() {\n\thelper()\n\tos.Exit(0)\n}\n",
		"package main\n\nimport (\n\t\"bytes\"\n\t\"fmt\"\n\t\"os\"\n)\n\nvar gone = bytes.MinRead\n\nfunc main() {\n\tfmt.Println(gone, os.Args)\n}\n",
	} {
		xsrc := xsrc
		build := func() (*dst.File, map[string]string) {
			f, err := decorator.NewDecoratorWithImports(token.NewFileSet(), "main", goast.New()).Parse(xsrc)
			if err != nil {
				return nil, nil
			}
			// the first declaration behind the imports goes
			f.Decls = append(f.Decls[:1:1], f.Decls[2:]...)
			return f, nil
		}
		if f, _ := build(); f == nil {
			c.Infra("extras source does not decorate")
			return
		}
		obs := faultsRestoreX(build, map[string]string{"fmt": "fmt", "os": "os", "bytes": "bytes"}, "main", -1, true)
		if len(obs) == 0 {
			c.Infra(fmt.Sprintf("extras case %d does not restore without failures", xi))
			return
		}
		for _, o := range obs {
			all = append(all, o)
			keys = append(keys, fmt.Sprintf("restore|extras-after-delete-%d|fail@%d", xi, o.FailAt))
		}
	}
	// corpus files: decorate with goast, restore with failing name resolver; decorate with failing resolvers
	files := corpus(c, map[bool]int{true: 25, false: 300}[c.Quick()])
	for _, f := range files {
		if len(f.Src) > 25000 {
			continue
		}
		f := f
		build := func() (*dst.File, map[string]string) {
			fset := token.NewFileSet()
			af, err := parser.ParseFile(fset, "", f.Src, parser.ParseComments)
			if err != nil {
				return nil, nil
			}
			df, err := decorator.NewDecoratorWithImports(fset, "example.com/local", goast.WithResolver(guess.New())).DecorateFile(af)
			if err != nil {
				return nil, nil
			}
			return df, nil
		}
		if df, _ := build(); df != nil {
			names := map[string]string{}
			dst.Inspect(df, func(n dst.Node) bool {
				if id, ok := n.(*dst.Ident); ok && id.Path != "" {
					nm, _ := guess.New().ResolvePackage(id.Path)
					names[id.Path] = nm
				}
				return true
			})
			for _, o := range faultsRestore(build, names, "example.com/local", -1) {
				all = append(all, o)
				keys = append(keys, fmt.Sprintf("restore|%s|fail@%d", f.Path, o.FailAt))
			}
		}
		for _, mode := range []string{"ident", "names"} {
			for _, o := range faultsDecorate(f.Src, mode) {
				all = append(all, o)
				keys = append(keys, fmt.Sprintf("decorate-%s|%s|fail@%d", mode, f.Path, o.FailAt))
			}
			for _, o := range faultsPackage(f.Src, mode) {
				all = append(all, o)
				keys = append(keys, fmt.Sprintf("package-%s|%s|fail@%d", mode, f.Path, o.FailAt))
			}
			for di, dsrc := range syntaxDamage(f.Src) {
				for _, o := range faultsParse(dsrc, mode) {
					all = append(all, o)
					keys = append(keys, fmt.Sprintf("parse-%s|%s|damage%d|fail@%d", mode, f.Path, di, o.FailAt))
				}
			}
		}
	}
	tr := &ndjson{}
	var idx []int
	for i, o := range all {
		if o.Op == "skip" {
			continue
		}
		c.Eval(keys[i], o.FailAt > 0)
		tr.Add(o)
		idx = append(idx, i)
		if o.Panic {
			c.Fail(Finding{Sig: "resolver-failure-panics", Input: keys[i], What: o.Msg, Replay: obj{"kind": "c17", "key": keys[i]}})
		}
		if i%701 == 0 {
			c.Sample(obj{"case": keys[i], "observed": o})
		}
	}
	c.Traces(int64(tr.Len()))
	// validate in chunks, locating rejected records
	var items []traceItem
	lines := bytes.Split(bytes.TrimRight(tr.Bytes(), "\n"), []byte("\n"))
	for j, ln := range lines {
		items = append(items, traceItem{Key: keys[idx[j]], Trace: append(append([]byte{}, ln...), '\n'), Events: 1, Replay: obj{"kind": "c17", "key": keys[idx[j]]}})
	}
	validateTraces(c, "FaultsTrace", faultsTraceCfg, items, 4000, false, func(it traceItem, res *TLCResult) {
		c.Fail(Finding{Sig: "faults-" + res.Violated, Input: it.Key, What: fmt.Sprintf("predicate %s of FaultsTrace.tla fails: %s (%s)", res.Violated, truncate(string(it.Trace), 300), truncate(it.Key, 200)), Replay: it.Replay})
	})
	c.Set("rule", "case = one (scenario, failing call index k) pair: k ranges over every resolver call of the clean run (restore: all; decorate: up to 40 evenly spaced); scenarios = random import configurations and corpus files; non-trivial = k >= 1; distinct by scenario + k")
}
