package main

import (
	"bytes"
	"go/format"
	"math/rand"
	"os"
	"path/filepath"
	"runtime"
	"sort"
	"strings"
	"sync"
)

type srcFile struct {
	Path string
	Src  []byte
}

func goroot() string {
	for _, c := range []string{"/usr/share/go-1.23/src", filepath.Join(runtime.GOROOT(), "src")} {
		if st, err := os.Stat(c); err == nil && st.IsDir() {
			if r, err := filepath.EvalSymlinks(c); err == nil {
				return r
			}
			return c
		}
	}
	return ""
}

func listGo(dir string, skipTestdata bool) []string {
	var out []string
	filepath.Walk(dir, func(p string, info os.FileInfo, err error) error {
		if err != nil {
			return nil
		}
		if info.IsDir() {
			if skipTestdata && (info.Name() == "testdata" || info.Name() == "vendor") {
				return filepath.SkipDir
			}
			return nil
		}
		if strings.HasSuffix(p, ".go") {
			out = append(out, p)
		}
		return nil
	})
	sort.Strings(out)
	return out
}

// corpus returns the source files of the tier: the vendored sample and template for quick; the
// toolchain tree and /repo's own sources in addition for thorough. max > 0 takes a seeded sample.
func corpus(c *Ctx, max int) []srcFile {
	paths := listGo(filepath.Join(verifRoot(), "corpus"), false)
	if !c.Quick() {
		if g := goroot(); g != "" {
			paths = append(paths, listGo(g, true)...)
		}
		for _, p := range listGo(envOr("VERIF_REPO", "/repo"), true) {
			if !strings.Contains(p, "/gendst/data/positions.go") {
				paths = append(paths, p)
			}
		}
	}
	if max > 0 && len(paths) > max {
		r := rand.New(rand.NewSource(c.Seed))
		// always keep the template and the hand-written files, and a seeded sample of the rest
		var keep, extra, rest []string
		for _, p := range paths {
			switch {
			case strings.Contains(p, "/corpus/template/"):
				keep = append(keep, p)
			case strings.Contains(p, "/corpus/extra/"):
				extra = append(extra, p)
			default:
				rest = append(rest, p)
			}
		}
		// the hand-written files are always all there (they are small and hold the constructs the seed rounds
		// asked for: which seeded change a small sample catches must not depend on the seed); the rest of the
		// sample, at least a quarter of it, is drawn from the other files
		keep = append(keep, extra...)
		r.Shuffle(len(rest), func(i, j int) { rest[i], rest[j] = rest[j], rest[i] })
		n := max - len(keep)
		if n < max/4+1 {
			n = max/4 + 1
		}
		if n > len(rest) {
			n = len(rest)
		}
		keep = append(keep, rest[:n]...)
		paths = keep
		sort.Strings(paths)
	}
	var out []srcFile
	for _, p := range paths {
		b, err := os.ReadFile(p)
		if err != nil {
			continue
		}
		out = append(out, srcFile{p, b})
	}
	return out
}

// isCanonical reports whether src is a gofmt fixpoint (checked, never assumed).
func isCanonical(src []byte) bool {
	out, err := format.Source(src)
	return err == nil && bytes.Equal(out, src)
}

// parallel runs fn over 0..n-1 on all cores.
func parallel(n int, fn func(i int)) {
	w := runtime.NumCPU()
	if w > 16 {
		w = 16
	}
	var wg sync.WaitGroup
	ch := make(chan int, 256)
	for k := 0; k < w; k++ {
		wg.Add(1)
		go func() {
			defer wg.Done()
			for i := range ch {
				fn(i)
			}
		}()
	}
	for i := 0; i < n; i++ {
		ch <- i
	}
	close(ch)
	wg.Wait()
}

// guard runs fn and converts a panic into a message.
func guard(fn func()) (msg string) {
	defer func() {
		if r := recover(); r != nil {
			msg = "panic: " + truncate(strings.ReplaceAll(strings.TrimSpace(toString(r)), "\n", " "), 300)
		}
	}()
	fn()
	return ""
}

func toString(v interface{}) string {
	switch x := v.(type) {
	case string:
		return x
	case error:
		return x.Error()
	}
	return strings.TrimSpace(strings.ReplaceAll(sprint(v), "\n", " "))
}
