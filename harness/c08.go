package main

import (
	"bytes"
	"fmt"
	"go/ast"
	"go/parser"
	"go/token"
	"math/rand"
	"os"
	"path/filepath"
	"strings"
	"sync"

	"github.com/dave/dst"
	"github.com/dave/dst/decorator"
	"github.com/dave/dst/decorator/resolver"
	"github.com/dave/dst/decorator/resolver/goast"
	"github.com/dave/dst/decorator/resolver/gotypes"
	"github.com/dave/dst/decorator/resolver/guess"
	"github.com/dave/dst/decorator/resolver/simple"
)

func init() { register("C08", "model_checking", checkC08) }

const selectorTraceCfg = `INIT TInit
NEXT TNext
INVARIANTS MergeConforms MergeFaithful
POSTCONDITION Accepted
CHECK_DEADLOCK FALSE
`

func absDecs(ds []string) []string {
	out := []string{}
	for _, d := range ds {
		switch {
		case d == "\n":
			out = append(out, "N")
		case strings.HasPrefix(d, "//"):
			out = append(out, "L")
		default:
			out = append(out, "B")
		}
	}
	return out
}

// c08Imports: import-block shapes (all importing lib/a as a, other.io/q as q, lib/b under alias bb).
var c08Imports = []string{
	"import (\n\t\"example.com/lib/a\"\n\tbb \"example.com/lib/b\"\n\n\t\"other.io/q\"\n)\n",
	"import \"example.com/lib/a\"\nimport bb \"example.com/lib/b\"\nimport \"other.io/q\"\n",
	"import (\n\t// about a\n\t\"example.com/lib/a\" // trailing a\n\tbb \"example.com/lib/b\"\n\t_ \"example.com/lib/v\"\n\n\t// group two\n\t\"other.io/q\"\n)\n",
	"import (\n\t\"example.com/lib/a\"\n)\n\nimport (\n\tbb \"example.com/lib/b\"\n\t\"other.io/q\"\n)\n",
	// cgo: the pseudo-package in a declaration of its own in front of the others, and inside the group
	"// #include <stdlib.h>\nimport \"C\"\n\nimport (\n\t\"example.com/lib/a\"\n\tbb \"example.com/lib/b\"\n\n\t\"other.io/q\"\n)\n",
	"import (\n\t\"C\"\n\n\t\"example.com/lib/a\"\n\tbb \"example.com/lib/b\"\n\t\"other.io/q\"\n)\n",
	// an import declaration without specs (legal, and kept by gofmt) next to the others
	"import ()\n\nimport (\n\t\"example.com/lib/a\"\n\tbb \"example.com/lib/b\"\n\n\t\"other.io/q\"\n)\n",
	"import (\n\t\"example.com/lib/a\"\n\tbb \"example.com/lib/b\"\n\t\"other.io/q\"\n)\n\n// nothing here yet\nimport () // still nothing\n",
	// import paths with elements that end in "vendor" without being a vendor directory
	"import (\n\t\"example.com/govendor/ctx\"\n\t\"example.com/lib/a\"\n\tbb \"example.com/lib/b\"\n\tvcfg \"xvendor/cfg\" // aliased\n\n\t\"other.io/q\"\n)\n",
}

// c08Bodies: declarations with qualified identifiers and comments / line breaks around the dot.
func c08Bodies() []string {
	gapsBefore := []string{"", "/* b */ ", "// lead\n\t"}
	gapsDot := []string{"", " /* d */ ", "\n\t\t", "\n\t\t/* e */ ", " // x\n\t\t", " /* d */\n\t\t// y\n\t\t",
		// empty lines behind the dot: after a line break, a line comment, a block comment, between comments
		"\n\n\t\t", " // x\n\n\t\t", " /* d */\n\n\t\t", " // x\n\n\t\t// y\n\t\t", "\n\t\t// y\n\n\t\t"}
	gapsAfter := []string{"", " /* a */", " // t"}
	var out []string
	for _, gb := range gapsBefore {
		for _, gd := range gapsDot {
			for _, ga := range gapsAfter {
				call := "a." + gd + "Fn(1)"
				stmtTail := ga
				if strings.HasPrefix(ga, " /*") {
					call = "a." + gd + "Fn" + ga + "(1)"
					stmtTail = ""
				}
				out = append(out,
					// statement context
					"func f() {\n\t"+gb+call+stmtTail+"\n\tq.Default.Do()\n}\n",
					// argument on its own line / composite element
					"var v = a.Fn(\n\t"+strings.ReplaceAll(gb, "\n\t", "\n\t")+"a."+gd+"V,"+ga+"\n)\n\nvar w = []int{\n\t"+gb+"a."+gd+"C,"+ga+"\n\tbb.W,\n}\n",
					// type positions
					"var t "+strings.TrimSpace(strings.ReplaceAll(gb, "// lead\n\t", ""))+" a."+gd+"T"+ga+"\n\ntype s struct {\n\t"+gb+"a."+gd+"T"+ga+"\n\tF map[q.Q]*bb.U\n\tG func(x a.I) (r q.Q)\n}\n",
				)
			}
		}
	}
	// qualified identifiers as the last element of multi-line lists inside indented blocks, with
	// comments on their own lines before the closing bracket / before the next element
	for _, own := range []string{"", "\t\t// own line\n", "\t\t/* own block */\n", "\n\t\t// after blank\n"} {
		for _, last := range []string{"a.V", "q.Default", "bb.W"} {
			out = append(out,
				"func g() {\n\ta.Fn(\n\t\t"+last+",\n"+own+"\t)\n\t_ = []interface{}{\n\t\ta.C,\n"+own+"\t\t"+last+",\n"+own+"\t}\n}\n",
				"func h() {\n\tif a.V > 0 {\n\t\t_ = map[string]interface{}{\n\t\t\t\"k\": "+last+",\n"+strings.ReplaceAll(own, "\t\t", "\t\t\t")+"\t\t}\n\t}\n}\n",
				"func k(\n\tx a.T,\n"+strings.ReplaceAll(own, "\t\t", "\t")+"\ty q.Q,\n"+strings.ReplaceAll(own, "\t\t", "\t")+") {\n}\n",
			)
		}
	}
	return out
}

type c08Resolvers struct {
	name string
	dec  func(u *universe, info interface{}) resolver.DecoratorResolver
}

// c08Judge: decorate with an accurate identifier resolver, restore with an accurate name resolver.
func c08Judge(src []byte, mk func(fset *token.FileSet, af *ast.File) (resolver.DecoratorResolver, error), rr resolver.RestorerResolver, local string) (sig, what string, paths []string, df *dst.File) {
	fset := token.NewFileSet()
	af, err := parser.ParseFile(fset, "x.go", src, parser.ParseComments)
	if err != nil {
		return "", "", nil, nil
	}
	dr, err := mk(fset, af)
	if err != nil {
		return "", "", nil, nil
	}
	d := decorator.NewDecoratorWithImports(fset, local, dr)
	if msg := guard(func() { df, err = d.DecorateFile(af) }); msg != "" {
		return "transparent-panic", "decorate: " + msg, nil, nil
	}
	if err != nil {
		// refused by the resolver: a dot-import is C09's business; for the generated sources (no
		// dot-imports) an accurate resolver has nothing to refuse, and the caller reports it
		return "decorate-refused", err.Error(), nil, nil
	}
	dst.Inspect(df, func(n dst.Node) bool {
		if id, ok := n.(*dst.Ident); ok {
			paths = append(paths, id.Name+"@"+id.Path)
		}
		return true
	})
	var buf bytes.Buffer
	r := decorator.NewRestorerWithImports(local, rr)
	if msg := guard(func() { err = r.Fprint(&buf, df) }); msg != "" {
		return "transparent-panic", "restore: " + msg, paths, df
	}
	if err != nil {
		return "transparent-restore-error", err.Error(), paths, df
	}
	if !bytes.Equal(buf.Bytes(), src) {
		return "transparent-bytes-differ", diffAt(src, buf.Bytes()), paths, df
	}
	// a copy of the tree is still "nothing changed": dst.Clone is the one legal way to use a decorated
	// node a second time, and what the decorator stored on a collapsed pkg.Name has to come along
	var cl *dst.File
	var cbuf bytes.Buffer
	if msg := guard(func() {
		cl = dst.Clone(df).(*dst.File)
		err = decorator.NewRestorerWithImports(local, rr).Fprint(&cbuf, cl)
	}); msg != "" {
		return "transparent-panic", "restore of a clone: " + msg, paths, df
	}
	if err != nil {
		return "transparent-restore-error", "clone: " + err.Error(), paths, df
	}
	if !bytes.Equal(cbuf.Bytes(), src) {
		return "transparent-bytes-differ", "a dst.Clone of the decorated file: " + diffAt(src, cbuf.Bytes()), paths, df
	}
	return "", "", paths, df
}

func checkC08(c *Ctx) {
	c.Assume("accurate resolvers: goast with the exact import-path -> name map, gotypes with go/types Uses of an in-memory universe; restorer resolvers simple(map) and guess")
	libs := libPackages()
	u0 := newUniverse(libs...)
	names := u0.packageNames()
	var mu sync.Mutex
	tr := &ndjson{}
	var sources []string
	for _, imp := range c08Imports {
		for _, body := range c08Bodies() {
			// every imported package is used (an unused import is rightly removed by import management)
			trailer := "a.V, bb.W, q.Default"
			if strings.Contains(imp, "govendor") {
				trailer += ", ctx.Background(), vcfg.Default"
			}
			if strings.Contains(imp, "\"C\"") {
				trailer += ", C.int(1), C.free"
			}
			// ... and a reference to a package-level object of the file's own package (it carries the local
			// path when Decorator.ResolveLocalPath is set, and is never imported)
			src := canonical("package app\n\n" + imp + "\n" + body + "\nvar _ = []interface{}{" + trailer + "}\n\nfunc localFn() {}\n\nvar _ = localFn\n")
			if src != "" {
				sources = append(sources, src)
			}
		}
	}
	uniq := map[string]bool{}
	var srcs []string
	for _, s := range sources {
		if !uniq[s] {
			uniq[s] = true
			srcs = append(srcs, s)
		}
	}
	r0 := rand.New(rand.NewSource(c.Seed))
	if c.Quick() && len(srcs) > 3000 {
		r0.Shuffle(len(srcs), func(i, j int) { srcs[i], srcs[j] = srcs[j], srcs[i] })
		srcs = srcs[:300]
	}
	c.Set("generated_sources", len(srcs))
	parallel(len(srcs), func(i int) {
		src := []byte(srcs[i])
		key := "gen|" + shortHash(srcs[i])
		// (1) syntax-based resolver with the exact name map
		mkAst := func(*token.FileSet, *ast.File) (resolver.DecoratorResolver, error) {
			return goast.WithResolver(simple.New(names)), nil
		}
		for _, rrName := range []string{"simple", "simple-again"} {
			sig, what, paths, _ := c08Judge(src, mkAst, simple.New(names), "example.com/app")
			c.Eval(key+"|goast|"+rrName, strings.Contains(srcs[i], "/*") || strings.Contains(srcs[i], "//"))
			if sig != "" {
				c.Fail(Finding{Sig: sig, Input: key + "|goast", What: "goast: " + what + "\nsource:\n" + srcs[i], Replay: obj{"kind": "c08", "src": srcs[i]}})
				return
			}
			// re-decorating the printed output (= the source) gives the same annotations: decorate twice
			_, _, paths2, _ := c08Judge(src, mkAst, simple.New(names), "example.com/app")
			if strings.Join(paths, ",") != strings.Join(paths2, ",") {
				c.Fail(Finding{Sig: "path-annotations-unstable", Input: key, What: fmt.Sprintf("%v vs %v", paths, paths2), Replay: obj{"kind": "c08", "src": srcs[i]}})
			}
		}
		// (2) types-based resolver
		app := &memPkg{Import: "example.com/app", Path: "example.com/app", Files: map[string]string{"x.go": srcs[i]}}
		u := newUniverse(append(libPackages(), app)...)
		if _, info, files, err := u.Check("example.com/app"); err == nil {
			for _, rl := range []bool{false, true} {
				u2 := u
				files2, info2 := files, info
				if rl { // a tree can be decorated once per universe
					u2 = newUniverse(append(libPackages(), app)...)
					var err2 error
					if _, info2, files2, err2 = u2.Check("example.com/app"); err2 != nil {
						continue
					}
				}
				d := decorator.NewDecoratorWithImports(u2.fset, "example.com/app", gotypes.New(info2.Uses))
				d.ResolveLocalPath = rl
				df, err := d.DecorateFile(files2[0])
				if err == nil {
					mode := fmt.Sprintf("|gotypes local-paths=%v", rl)
					var buf bytes.Buffer
					// the restorer's name resolver knows the imported packages only: the local package is never asked for
					if err := decorator.NewRestorerWithImports("example.com/app", simple.New(names)).Fprint(&buf, df); err != nil {
						c.Fail(Finding{Sig: "transparent-restore-error", Input: key + mode, What: err.Error(), Replay: obj{"kind": "c08", "src": srcs[i]}})
					} else if buf.String() != srcs[i] {
						c.Fail(Finding{Sig: "transparent-bytes-differ", Input: key + mode, What: "gotypes: " + diffAt(src, buf.Bytes()) + "\nsource:\n" + srcs[i], Replay: obj{"kind": "c08", "src": srcs[i]}})
					}
					c.Eval(key+mode, true)
				}
			}
		} else {
			c.Add("sources_not_type_correct", 1)
		}
		if i%41 == 0 {
			c.Sample(obj{"source": srcs[i]})
		}
	})
	c08Retry(c, srcs, names)
	// (3) the 13 slots and the collapsed identifier, for the specification (hooks are process-wide:
	// recorded one file at a time, with no other decoration running)
	for _, s := range srcs {
		for _, rec := range c08Slots([]byte(s), names) {
			tr.Add(rec)
		}
	}
	// corpus files with imports
	files := corpus(c, map[bool]int{true: 120, false: 0}[c.Quick()])
	parallel(len(files), func(i int) {
		f := files[i]
		if !isCanonical(f.Src) || !bytes.Contains(f.Src, []byte("import")) {
			return
		}
		// an accurate name resolver: the package clause of every imported package, read from GOROOT
		names, ok := exactImportNames(f.Src)
		if !ok {
			c.Add("corpus_files_without_accurate_names", 1)
			return
		}
		mk := func(*token.FileSet, *ast.File) (resolver.DecoratorResolver, error) {
			return goast.WithResolver(simple.New(names)), nil
		}
		sig, what, _, _ := c08Judge(f.Src, mk, simple.New(names), "example.com/local")
		c.Eval("corpus|"+f.Path, true)
		if sig == "decorate-refused" {
			return // dot-imports, two packages of one name: the syntax-based resolver may refuse those
		}
		if sig != "" {
			in := "corpus|" + f.Path
			if dupImport(f.Src) {
				in = "duplicate-import|" + f.Path
			}
			c.Fail(Finding{Sig: sig, Input: in, What: what + " (" + f.Path + ")", Replay: obj{"kind": "c08file", "path": f.Path}})
		}
	})
	for _, f := range files {
		if isCanonical(f.Src) && bytes.Contains(f.Src, []byte("import")) && len(f.Src) < 30000 {
			for _, rec := range c08Slots(f.Src, nil) {
				tr.Add(rec)
			}
		}
	}
	_ = &mu
	c.Set("qualified_identifiers_checked_by_tlc", tr.Len())
	c.Traces(int64(tr.Len()))
	var items []traceItem
	for _, ln := range bytes.Split(bytes.TrimRight(tr.Bytes(), "\n"), []byte("\n")) {
		if len(ln) > 0 {
			items = append(items, traceItem{Key: string(ln), Trace: append(append([]byte{}, ln...), '\n'), Events: 1, Replay: obj{"kind": "c08slots", "rec": string(ln)}})
		}
	}
	validateTraces(c, "SelectorTrace", selectorTraceCfg, items, 3000, false, func(it traceItem, res *TLCResult) {
		if res.Violated == "MergeConforms" {
			c.Note("model_conformance:false: merged decorations differ from Selector.tla for " + truncate(it.Key, 300))
			c.Set("model_conformance", false)
			return
		}
		c.Fail(Finding{Sig: "selector-" + res.Violated, Input: it.Key, What: "predicate " + res.Violated + " of SelectorTrace.tla fails for slots " + truncate(it.Key, 500), Replay: it.Replay})
	})
	c.Set("rule", "case = one canonical source with qualified identifiers (comments / line breaks before X, behind the dot, behind Sel; statement, argument, element and type contexts; nine import-block shapes) through decorate(accurate resolver)+restore(accurate names), or one corpus file; non-trivial = comments present; distinct by source + resolver")
}

func dupImport(src []byte) bool {
	f, err := parser.ParseFile(token.NewFileSet(), "", src, parser.ImportsOnly)
	if err != nil {
		return false
	}
	seen := map[string]bool{}
	for _, is := range f.Imports {
		if seen[is.Path.Value] {
			return true
		}
		seen[is.Path.Value] = true
	}
	return false
}

// c08Slots decorates src with the hooks on (goast resolver) and extracts, for every collapsed
// qualified identifier, the 13 slots of the three ast nodes and the merged identifier's decorations.
func c08Slots(src []byte, names map[string]string) []obj {
	var df *dst.File
	var rr resolver.RestorerResolver = guess.New()
	if names != nil {
		rr = simple.New(names)
	}
	frags, linked, ok := captureLink(func() {
		fset := token.NewFileSet()
		af, err := parser.ParseFile(fset, "x.go", src, parser.ParseComments)
		if err != nil {
			return
		}
		df, _ = decorator.NewDecoratorWithImports(fset, "example.com/app", goast.WithResolver(rr)).DecorateFile(af)
	})
	if !ok || df == nil {
		return nil
	}
	decs := map[[2]interface{}][]string{}
	for _, d := range linked.Decs {
		decs[[2]interface{}{d.Node, d.Name}] = d.D
	}
	sp := map[int][2]int{}
	for _, s := range linked.Spaces {
		sp[s.Node] = [2]int{s.Before, s.After}
	}
	// collapsed identifiers in source order
	var merged []*dst.Ident
	dst.Inspect(df, func(n dst.Node) bool {
		if id, ok := n.(*dst.Ident); ok && id.Path != "" {
			merged = append(merged, id)
		}
		return true
	})
	// selector expressions X.Sel with plain identifier X, in fragment (= source) order
	type sel struct{ n, x, s int }
	var sels []sel
	// the structural fragments (comments and line breaks are interleaved by position)
	var st []decorator.VerifFragment
	for _, f := range frags {
		if f.K != "com" && f.K != "nl" {
			st = append(st, f)
		}
	}
	seen := map[int]bool{}
	for i, f := range st {
		if f.K == "dec" && f.Type == "SelectorExpr" && f.Name == "Start" && !seen[f.Node] {
			seen[f.Node] = true
			// dec(n,Start) dec(x,Start) dec(x,X) str(x) dec(x,End) tok(n,".") dec(n,X) dec(s,Start) dec(s,X) str(s) dec(s,End) dec(n,End)
			if i+10 < len(st) && st[i+1].K == "dec" && st[i+1].Type == "Ident" && st[i+1].Name == "Start" && st[i+2].K == "dec" && st[i+2].Name == "X" && st[i+3].K == "str" &&
				st[i+4].K == "dec" && st[i+4].Name == "End" && st[i+4].Node == st[i+1].Node &&
				st[i+5].K == "tok" && st[i+5].Text == "." && st[i+5].Node == f.Node &&
				st[i+6].K == "dec" && st[i+6].Name == "X" && st[i+7].K == "dec" && st[i+7].Type == "Ident" && st[i+7].Name == "Start" {
				sels = append(sels, sel{f.Node, st[i+1].Node, st[i+7].Node})
			}
		}
	}
	if os.Getenv("VERIF_DEBUG") != "" {
		fmt.Fprintf(os.Stderr, "debug c08Slots: frags=%d sels=%d merged=%d\n", len(frags), len(sels), len(merged))
		for i, f := range st {
			if i < 40 {
				fmt.Fprintf(os.Stderr, "  %s %s %s n=%d %q\n", f.K, f.Type, f.Name, f.Node, f.Text)
			}
		}
	}
	// only selectors whose X names an import were collapsed; match by order and name
	var out []obj
	mi := 0
	for _, s := range sels {
		if mi >= len(merged) {
			break
		}
		// find the Sel name
		selName := ""
		for _, f := range frags {
			if f.K == "str" && f.Node == s.s {
				selName = f.Text
			}
		}
		if merged[mi].Name != selName {
			continue
		}
		id := merged[mi]
		mi++
		slots := []interface{}{sp[s.n][0], absDecs(decs[[2]interface{}{s.n, "Start"}]), sp[s.x][0], absDecs(decs[[2]interface{}{s.x, "Start"}]),
			absDecs(decs[[2]interface{}{s.x, "End"}]), sp[s.x][1], absDecs(decs[[2]interface{}{s.n, "X"}]), sp[s.s][0], absDecs(decs[[2]interface{}{s.s, "Start"}]),
			absDecs(decs[[2]interface{}{s.s, "End"}]), sp[s.s][1], absDecs(decs[[2]interface{}{s.n, "End"}]), sp[s.n][1]}
		out = append(out, obj{"s": slots, "m": obj{"before": int(id.Decs.Before), "start": absDecs(id.Decs.Start), "x": absDecs(id.Decs.X), "end": absDecs(id.Decs.End), "after": int(id.Decs.After)}})
	}
	return out
}

func seenNode(frags []decorator.VerifFragment, node int) bool {
	for _, f := range frags {
		if f.K == "dec" && f.Node == node && f.Name == "Start" {
			return true
		}
	}
	return false
}

// exactImportNames reads the package name of every import of src from the toolchain tree; ok is
// false when a name cannot be established (the resolver would not be accurate).
func exactImportNames(src []byte) (map[string]string, bool) {
	f, err := parser.ParseFile(token.NewFileSet(), "", src, parser.ImportsOnly)
	if err != nil {
		return nil, false
	}
	names := map[string]string{}
	for _, is := range f.Imports {
		p := strings.Trim(is.Path.Value, "\"`")
		if p == "C" || p == "unsafe" {
			names[p] = p
			continue
		}
		found := ""
		for _, dir := range []string{filepath.Join(goroot(), p), filepath.Join(goroot(), "vendor", p), filepath.Join(goroot(), "cmd", "vendor", p)} {
			ents, err := os.ReadDir(dir)
			if err != nil {
				continue
			}
			for _, e := range ents {
				if !strings.HasSuffix(e.Name(), ".go") || strings.HasSuffix(e.Name(), "_test.go") {
					continue
				}
				b, err := os.ReadFile(filepath.Join(dir, e.Name()))
				if err != nil {
					continue
				}
				pf, err := parser.ParseFile(token.NewFileSet(), "", b, parser.PackageClauseOnly)
				if err != nil || bytes.Contains(b, []byte("//go:build ignore")) {
					continue
				}
				found = pf.Name.Name
				if found != "main" {
					break // generator programs (package main, build-ignored) live next to library files
				}
			}
			if found != "" {
				break
			}
		}
		if found == "" {
			return nil, false
		}
		names[p] = found
	}
	return names, true
}

// c08Retry: a first decoration fails because the name resolver behind the syntax-based resolver does not
// know one package yet; the package is added and the SAME parsed file is decorated again through the
// SAME resolver (fresh Decorator). The unedited restore is then the source, as after a clean first run.
func c08Retry(c *Ctx, srcs []string, names map[string]string) {
	n := 0
	for _, src := range srcs {
		if n >= 40 {
			break
		}
		for _, missing := range []string{"example.com/lib/a", "other.io/q"} {
			if !strings.Contains(src, "\""+missing+"\"") {
				continue
			}
			n++
			key := "retry-after-refusal|" + shortHash(src) + "|" + missing
			c.Eval(key, true)
			partial := map[string]string{}
			for k, v := range names {
				if k != missing {
					partial[k] = v
				}
			}
			dr := goast.WithResolver(simple.New(partial))
			fset := token.NewFileSet()
			af, err := parser.ParseFile(fset, "x.go", src, parser.ParseComments)
			if err != nil {
				continue
			}
			if _, err := decorator.NewDecoratorWithImports(fset, "example.com/app", dr).DecorateFile(af); err == nil {
				continue // the package is not asked about (aliased everywhere): no refusal to retry after
			}
			partial[missing] = names[missing]
			var df *dst.File
			var derr error
			if msg := guard(func() { df, derr = decorator.NewDecoratorWithImports(fset, "example.com/app", dr).DecorateFile(af) }); msg != "" || derr != nil {
				c.Fail(Finding{Sig: "retry-decorate-fails", Input: key, What: fmt.Sprintf("%s %v", msg, derr), Replay: obj{"kind": "none"}})
				continue
			}
			var buf bytes.Buffer
			if err := decorator.NewRestorerWithImports("example.com/app", simple.New(names)).Fprint(&buf, df); err != nil {
				c.Fail(Finding{Sig: "transparent-restore-error", Input: key, What: err.Error(), Replay: obj{"kind": "none"}})
			} else if buf.String() != src {
				c.Fail(Finding{Sig: "transparent-bytes-differ", Input: key, What: "decorated again after a refused first attempt: " + diffAt([]byte(src), buf.Bytes()), Replay: obj{"kind": "none"}})
			}
		}
	}
	c.Set("retried_decorations", n)
}
