package main

import (
	"fmt"
	"go/ast"
	"go/parser"
	"go/token"
	"math/rand"
	"strings"

	"github.com/dave/dst"
	"github.com/dave/dst/decorator"
	"github.com/dave/dst/dstutil"
	"golang.org/x/tools/go/ast/astutil"
)

const applyTraceCfg = `INIT TInit
NEXT TNext
VIEW View
INVARIANTS TraceVisitedExactly
POSTCONDITION Accepted
CHECK_DEADLOCK FALSE
`

// c14Traversal: whole-tree Apply runs without edits. The callback log (parent, name, index, node) is
// validated by TLC against the Walk machine with the CursorLocates predicate, and compared with
// astutil.Apply on the ast the tree was decorated from.
func c14Traversal(c *Ctx) {
	nFiles := 8
	if !c.Quick() {
		nFiles = 60
	}
	files := corpus(c, nFiles)
	r := rand.New(rand.NewSource(c.Seed + 14))
	seeds := make([]int64, len(files))
	for i := range seeds {
		seeds[i] = r.Int63()
	}
	items := make([]traceItem, len(files))
	parallel(len(files), func(i int) {
		items[i] = c14RecordTraversal(c, files[i], rand.New(rand.NewSource(seeds[i])))
	})
	var its []traceItem
	for _, it := range items {
		if it.Trace != nil {
			its = append(its, it)
		}
	}
	ev := validateTraces(c, "WalkTrace", applyTraceCfg, its, 25000, false, func(it traceItem, res *TLCResult) {
		c.Fail(Finding{Sig: "apply-trace-rejected", Input: it.Key, What: rejectText(res) + " " + offendingEvent(it, res) + " in " + it.Key, Replay: it.Replay})
	})
	c.Set("traversal_trace_events", ev)
}

func c14RecordTraversal(c *Ctx, f srcFile, r *rand.Rand) traceItem {
	fset := token.NewFileSet()
	af, err := parser.ParseFile(fset, f.Path, f.Src, parser.ParseComments)
	if err != nil {
		return traceItem{}
	}
	var df *dst.File
	d := decorator.NewDecorator(fset)
	if msg := guard(func() { df, err = d.DecorateFile(af) }); msg != "" || err != nil {
		return traceItem{}
	}
	tree, ids := ExportDst(df)
	if len(tree.Nodes) > 6000 {
		return traceItem{}
	}
	out := &ndjson{}
	out.Add(obj{"ev": "tree", "tree": obj{"root": tree.Root, "nodes": tree.Nodes, "astorder": []int{}}})
	rules := c13Rules(r, len(tree.Nodes))
	abortAt := 2 + r.Intn(len(tree.Nodes))
	runs := 0
	for ri, rule := range append(rules, pruneRule{Name: fmt.Sprintf("post-false-at-%d", abortAt), Keep: func(int, dst.Node, int) bool { return true }}) {
		if ri > 0 {
			out.Add(obj{"ev": "reset"})
		}
		isAbort := strings.HasPrefix(rule.Name, "post-false")
		// dstutil
		var dlog, dnil, anil []string
		// callbacks for empty child slots (Node() == nil) are made by astutil as well; the slots astutil
		// v0.1.12 does not know (TypeParams) and the comment fields dst does not have are left out
		slot := func(parent interface{}, name string) (string, bool) {
			if name == "TypeParams" || name == "Doc" || name == "Comment" || parent == nil {
				return "", false
			}
			t := fmt.Sprintf("%T", parent)
			return strings.NewReplacer("*ast.", "", "*dst.", "").Replace(t) + "." + name, true
		}
		k, posts, depth := 0, 0, 0
		var result dst.Node
		msg := guard(func() {
			result = dstutil.Apply(df, func(cu *dstutil.Cursor) bool {
				if cu.Node() == nil {
					if s, ok := slot(cu.Parent(), cu.Name()); ok {
						dnil = append(dnil, s)
					}
					return true
				}
				k++
				keep := rule.Keep(k, cu.Node(), depth)
				pid := 0
				if cu.Parent() != nil {
					pid = ids[cu.Parent()] // the synthetic root parent is not in the tree: 0
				}
				out.Add(obj{"ev": "cvisit", "n": ids[cu.Node()], "keep": keep, "parent": pid, "name": cu.Name(), "index": cu.Index()})
				dlog = append(dlog, fmt.Sprintf("pre %T %s %d %v", cu.Node(), cu.Name(), cu.Index(), keep))
				if keep {
					depth++
				}
				return keep
			}, func(cu *dstutil.Cursor) bool {
				if cu.Node() == nil {
					return true
				}
				depth--
				posts++
				dlog = append(dlog, fmt.Sprintf("post %T %s %d", cu.Node(), cu.Name(), cu.Index()))
				if isAbort && posts == abortAt {
					out.Add(obj{"ev": "abort"})
					return false
				}
				out.Add(obj{"ev": "nil", "vis": -1})
				return true
			})
		})
		out.Add(obj{"ev": "end"})
		runs++
		key := f.Path + "|apply|" + rule.Name
		c.Eval(key, rule.Name != "root")
		if msg != "" {
			c.Fail(Finding{Sig: "apply-panic", Input: key, What: msg, Replay: obj{"kind": "c14trav", "path": f.Path}})
			continue
		}
		if result != dst.Node(df) {
			c.Fail(Finding{Sig: "apply-result", Input: key, What: "Apply did not return the tree it was given", Replay: obj{"kind": "c14trav", "path": f.Path}})
		}
		// astutil on the original ast with the same decisions (decisions depend on type/depth/count only)
		var alog []string
		k, posts, depth = 0, 0, 0
		amsg := guard(func() {
			astutil.Apply(af, func(cu *astutil.Cursor) bool {
				if cu.Node() == nil {
					if s, ok := slot(cu.Parent(), cu.Name()); ok {
						anil = append(anil, s)
					}
					return true
				}
				switch cu.Node().(type) {
				case *ast.Comment, *ast.CommentGroup:
					return true
				}
				k++
				dn := d.Dst.Nodes[cu.Node()]
				keep := true
				if dn != nil {
					keep = rule.Keep(k, dn, depth)
				}
				alog = append(alog, fmt.Sprintf("pre %s %s %d %v", strings.Replace(fmt.Sprintf("%T", cu.Node()), "*ast.", "*dst.", 1), cu.Name(), cu.Index(), keep))
				if keep {
					depth++
				}
				return keep
			}, func(cu *astutil.Cursor) bool {
				switch cu.Node().(type) {
				case nil, *ast.Comment, *ast.CommentGroup:
					return true
				}
				depth--
				posts++
				alog = append(alog, fmt.Sprintf("post %s %s %d", strings.Replace(fmt.Sprintf("%T", cu.Node()), "*ast.", "*dst.", 1), cu.Name(), cu.Index()))
				return !(isAbort && posts == abortAt)
			})
		})
		if amsg != "" {
			c.Note("astutil panicked on " + f.Path + ": " + amsg)
			continue
		}
		if strings.Join(dlog, "\n") != strings.Join(alog, "\n") {
			i := 0
			for i < len(dlog) && i < len(alog) && dlog[i] == alog[i] {
				i++
			}
			dd, aa := "<end>", "<end>"
			if i < len(dlog) {
				dd = dlog[i]
			}
			if i < len(alog) {
				aa = alog[i]
			}
			c.Fail(Finding{Sig: "traversal-differs-from-astutil", Input: key, What: fmt.Sprintf("callback %d: dstutil %q, astutil %q (%s)", i+1, dd, aa, f.Path), Replay: obj{"kind": "c14trav", "path": f.Path}})
		} else if strings.Join(dnil, " ") != strings.Join(anil, " ") {
			i := 0
			for i < len(dnil) && i < len(anil) && dnil[i] == anil[i] {
				i++
			}
			dd, aa := "<end>", "<end>"
			if i < len(dnil) {
				dd = dnil[i]
			}
			if i < len(anil) {
				aa = anil[i]
			}
			c.Fail(Finding{Sig: "empty-slot-callbacks-differ-from-astutil", Input: key, What: fmt.Sprintf("callbacks for empty child slots: dstutil makes %d, astutil %d; the %d-th is %s for dstutil, %s for astutil (%s)", len(dnil), len(anil), i+1, dd, aa, f.Path), Replay: obj{"kind": "c14trav", "path": f.Path}})
		}
	}
	c.Traces(int64(runs))
	return traceItem{Key: f.Path, Trace: out.Bytes(), Events: out.Len(), Replay: obj{"kind": "c14trav", "path": f.Path}}
}

// c14RootReplace: Apply's return value. The root itself is replaced (in pre or in post) and the
// traversal is stopped by post returning false at every possible point; the node Apply returns and
// the callback log must be those of astutil.Apply on the same expression.
func c14RootReplace(c *Ctx) {
	exprs := []string{"a + b", "f(a, b)", "a", "x.y[i]", "func() { g() }"}
	for _, src := range exprs {
		for _, where := range []string{"none", "pre", "post"} {
			for abortAt := 0; abortAt <= 6; abortAt++ {
				key := fmt.Sprintf("root-replace|%s|%s|post-false-at-%d", src, where, abortAt)
				ae, err := parser.ParseExpr(src)
				if err != nil {
					c.Infra(err.Error())
					return
				}
				de, err := decorator.NewDecorator(nil).DecorateNode(ae)
				if err != nil {
					c.Infra(err.Error())
					return
				}
				var dlog, alog []string
				var dres dst.Node
				var ares ast.Node
				posts := 0
				dmsg := guard(func() {
					dres = dstutil.Apply(de, func(cu *dstutil.Cursor) bool {
						if cu.Node() == nil {
							return true // absent optional children: the astutil version at hand predates type parameters
						}
						dlog = append(dlog, fmt.Sprintf("pre %s", strings.TrimPrefix(fmt.Sprintf("%T", cu.Node()), "*dst.")))
						if where == "pre" && cu.Node() == de {
							cu.Replace(dst.NewIdent("r"))
						}
						return true
					}, func(cu *dstutil.Cursor) bool {
						if cu.Node() == nil {
							return true
						}
						posts++
						dlog = append(dlog, fmt.Sprintf("post %s", strings.TrimPrefix(fmt.Sprintf("%T", cu.Node()), "*dst.")))
						if where == "post" && cu.Node() == de {
							cu.Replace(dst.NewIdent("r"))
						}
						return posts != abortAt
					})
				})
				posts = 0
				amsg := guard(func() {
					ares = astutil.Apply(ae, func(cu *astutil.Cursor) bool {
						if cu.Node() == nil {
							return true
						}
						alog = append(alog, fmt.Sprintf("pre %s", strings.TrimPrefix(fmt.Sprintf("%T", cu.Node()), "*ast.")))
						if where == "pre" && cu.Node() == ae {
							cu.Replace(ast.NewIdent("r"))
						}
						return true
					}, func(cu *astutil.Cursor) bool {
						if cu.Node() == nil {
							return true
						}
						posts++
						alog = append(alog, fmt.Sprintf("post %s", strings.TrimPrefix(fmt.Sprintf("%T", cu.Node()), "*ast.")))
						if where == "post" && cu.Node() == ae {
							cu.Replace(ast.NewIdent("r"))
						}
						return posts != abortAt
					})
				})
				c.Eval(key, where != "none" || abortAt > 0)
				desc := func(n interface{}) string {
					switch x := n.(type) {
					case *dst.Ident:
						return "Ident " + x.Name
					case *ast.Ident:
						return "Ident " + x.Name
					}
					s := fmt.Sprintf("%T", n)
					return strings.TrimPrefix(strings.TrimPrefix(s, "*dst."), "*ast.")
				}
				got := fmt.Sprintf("returns %s; panic %q; log %s", desc(dres), dmsg, strings.Join(dlog, ","))
				want := fmt.Sprintf("returns %s; panic %q; log %s", desc(ares), amsg, strings.Join(alog, ","))
				if got != want {
					c.Fail(Finding{Sig: "apply-differs-from-astutil", Input: key, What: fmt.Sprintf("%s: dstutil.Apply %s, astutil.Apply %s", key, got, want), Replay: obj{"kind": "none"}})
				}
			}
		}
	}
}

// c14Positions: one cursor operation at every node position of every template fragment. The target is
// found through Apply itself; the effect is judged by reflection over struct fields: the operation
// changed exactly the addressed field or list slot and nothing else, whatever the node type.
func c14Positions(c *Ctx) {
	src, err := templateSrc()
	if err != nil {
		c.Infra(err.Error())
		return
	}
	minis, err := miniFiles(src)
	if err != nil {
		c.Infra(err.Error())
		return
	}
	type job struct {
		mi, pi int
		op     string
	}
	var jobs []job
	for mi, m := range minis {
		var ps []nodePos
		positionsOf(m, &ps, map[dst.Node]bool{})
		for pi, p := range ps {
			jobs = append(jobs, job{mi, pi, "replace"})
			if p.li >= 0 {
				jobs = append(jobs, job{mi, pi, "delete"}, job{mi, pi, "insert-before"}, job{mi, pi, "insert-after"})
			}
		}
	}
	snapshot := func(f *dst.File) map[string]dst.Node {
		var ps []nodePos
		positionsOf(f, &ps, map[dst.Node]bool{})
		out := map[string]dst.Node{}
		for _, p := range ps {
			out[fmt.Sprintf("%p.%s[%d]", p.holder.Addr().Interface(), p.holder.Type().Field(p.fi).Name, p.li)] = p.get().Interface().(dst.Node)
		}
		return out
	}
	parallel(len(jobs), func(i int) {
		j := jobs[i]
		ms, _ := miniFiles(src)
		f := ms[j.mi]
		var ps []nodePos
		positionsOf(f, &ps, map[dst.Node]bool{})
		if j.pi >= len(ps) {
			return
		}
		p := ps[j.pi]
		target := p.get().Interface().(dst.Node)
		holder := p.holder.Addr().Interface().(dst.Node)
		field := p.holder.Type().Field(p.fi).Name
		key := fmt.Sprintf("position|fragment-%d|%s.%s[%d]|%s", j.mi, p.holder.Type().Name(), field, p.li, j.op)
		c.Eval(key, true)
		var before []dst.Node
		if p.li >= 0 {
			lv := p.holder.Field(p.fi)
			for k := 0; k < lv.Len(); k++ {
				before = append(before, lv.Index(k).Interface().(dst.Node))
			}
		}
		snapBefore := snapshot(f)
		fresh := dst.Clone(target)
		located := ""
		done := false
		msg := guard(func() {
			dstutil.Apply(f, func(cu *dstutil.Cursor) bool {
				if done || cu.Node() != target {
					return true
				}
				done = true
				if cu.Parent() != holder || cu.Name() != field || cu.Index() != p.li {
					located = fmt.Sprintf("cursor says parent %T name %s index %d", cu.Parent(), cu.Name(), cu.Index())
				}
				switch j.op {
				case "replace":
					cu.Replace(fresh)
				case "delete":
					cu.Delete()
				case "insert-before":
					cu.InsertBefore(fresh)
				case "insert-after":
					cu.InsertAfter(fresh)
				}
				return false
			}, nil)
		})
		fail := func(what string) {
			c.Fail(Finding{Sig: "apply-position-effect", Input: key, What: key + ": " + what, Replay: obj{"kind": "none"}})
		}
		if msg != "" {
			fail(msg)
			return
		}
		if !done {
			fail("Apply never reached the node at this position")
			return
		}
		if located != "" {
			fail(located + fmt.Sprintf(", reflection says parent %T name %s index %d", holder, field, p.li))
			return
		}
		// expected contents of the addressed field
		if p.li < 0 {
			if got := p.holder.Field(p.fi).Interface(); got != interface{}(fresh) {
				fail(fmt.Sprintf("after Replace the field holds %T %p, not the replacement", got, got))
				return
			}
		} else {
			var want []dst.Node
			for k, n := range before {
				switch {
				case k != p.li:
					want = append(want, n)
				case j.op == "replace":
					want = append(want, fresh)
				case j.op == "delete":
				case j.op == "insert-before":
					want = append(want, fresh, n)
				case j.op == "insert-after":
					want = append(want, n, fresh)
				}
			}
			lv := p.holder.Field(p.fi)
			if lv.Len() != len(want) {
				fail(fmt.Sprintf("the list has %d elements, expected %d", lv.Len(), len(want)))
				return
			}
			for k := range want {
				if lv.Index(k).Interface().(dst.Node) != want[k] {
					fail(fmt.Sprintf("element %d of the list is not the expected node", k))
					return
				}
			}
		}
		// nothing else changed: every other position still holds the node it held
		snapAfter := snapshot(f)
		skipPrefix := fmt.Sprintf("%p.%s[", holder, field)
		for k, n := range snapBefore {
			if strings.HasPrefix(k, skipPrefix) {
				continue
			}
			// positions below the removed / replaced node are gone with it
			if m, ok := snapAfter[k]; ok && m != n {
				fail("another position changed: " + k)
				return
			}
		}
	})
	c.Set("apply_position_operations", len(jobs))
}
