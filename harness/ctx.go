package main

import (
	"crypto/sha1"
	"encoding/hex"
	"encoding/json"
	"fmt"
	"os"
	"path/filepath"
	"sort"
	"strings"
	"sync"
	"time"
)

// Evidence mirrors EVIDENCE.schema.json.
type Evidence struct {
	PropertyID  string                 `json:"property_id"`
	Tier        string                 `json:"tier"`
	Seed        int64                  `json:"seed"`
	Level       string                 `json:"level"`
	Coverage    map[string]interface{} `json:"coverage"`
	Assumptions []string               `json:"assumptions"`
	WallS       float64                `json:"wall_s"`
	Violations  int                    `json:"violations"`
}

// Finding is one failure of a P-layer oracle on an execution of the real code.
type Finding struct {
	Sig    string      // failure signature, e.g. "roundtrip-bytes-differ"
	Input  string      // identifies the failing input / history (path, hash, behaviour id)
	What   string      // human readable
	Replay interface{} // everything needed to re-execute
}

type knownFinding struct {
	Property string `json:"property"`
	ID       string `json:"id"`
	Sig      string `json:"sig"`
	Input    string `json:"input"` // exact input id, or prefix match when it ends in '*'
	What     string `json:"what"`
}

type knownFile struct {
	Known []knownFinding `json:"known"`
	Fixed []string       `json:"fixed"`
}

// Ctx carries the state of one check run.
type Ctx struct {
	ID    string
	Tier  string
	Seed  int64
	Level string
	start time.Time

	mu        sync.Mutex
	cov       map[string]interface{}
	assume    []string
	samples   []interface{}
	findings  []Finding
	known     []knownFinding
	knownHit  map[string]bool
	infra     []string
	notes     []string
	nontriv   map[string]bool
	evals     int64
	tlcStates int64
	tlcTrans  int64
	traces    int64
	failCount int
}

func newCtx(id, tier string, seed int64, level string) *Ctx {
	c := &Ctx{ID: id, Tier: tier, Seed: seed, Level: level, start: time.Now(), cov: map[string]interface{}{}, knownHit: map[string]bool{}, nontriv: map[string]bool{}}
	b, err := os.ReadFile(filepath.Join(verifRoot(), "KNOWN_FINDINGS.json"))
	if err == nil {
		var kf knownFile
		if err := json.Unmarshal(b, &kf); err != nil {
			c.Infra("KNOWN_FINDINGS.json: " + err.Error())
		}
		for _, k := range kf.Known {
			if k.Property == id {
				c.known = append(c.known, k)
			}
		}
	}
	return c
}

func (c *Ctx) Quick() bool { return c.Tier != "thorough" }

func (c *Ctx) Set(key string, v interface{}) {
	c.mu.Lock()
	c.cov[key] = v
	c.mu.Unlock()
}

func (c *Ctx) Add(key string, n int64) {
	c.mu.Lock()
	cur, _ := c.cov[key].(int64)
	c.cov[key] = cur + n
	c.mu.Unlock()
}

func (c *Ctx) Assume(s string) { c.mu.Lock(); c.assume = append(c.assume, s); c.mu.Unlock() }
func (c *Ctx) Note(s string)   { c.mu.Lock(); c.notes = append(c.notes, s); c.mu.Unlock() }

// Eval counts one evaluated case; key identifies it for the distinct count; nontrivial by the check's rule.
func (c *Ctx) Eval(key string, nontrivial bool) {
	c.mu.Lock()
	c.evals++
	if nontrivial {
		c.nontriv[shortHash(key)] = true
	}
	c.mu.Unlock()
}

func (c *Ctx) Sample(v interface{}) {
	c.mu.Lock()
	if len(c.samples) < 6 {
		c.samples = append(c.samples, v)
	}
	c.mu.Unlock()
}

func (c *Ctx) TLC(r *TLCResult) {
	c.mu.Lock()
	c.tlcStates += r.Distinct
	c.tlcTrans += r.Generated
	c.mu.Unlock()
}

func (c *Ctx) Traces(n int64) { c.mu.Lock(); c.traces += n; c.mu.Unlock() }

// Infra records an infrastructure problem: the run ends with exit 2, never with a violation.
func (c *Ctx) Infra(s string) {
	c.mu.Lock()
	c.infra = append(c.infra, s)
	c.mu.Unlock()
	fmt.Fprintln(os.Stderr, "INFRA:", s)
}

// Fail records a P-layer failure observed on the real code.
func (c *Ctx) Fail(f Finding) {
	c.mu.Lock()
	defer c.mu.Unlock()
	for _, k := range c.known {
		if k.Sig == f.Sig && matchInput(k.Input, f.Input) {
			c.knownHit[k.ID] = true
			return
		}
	}
	c.failCount++
	if os.Getenv("VERIF_DEBUG_FAILS") != "" { // development aid: every failing input, not only the reported ones
		fmt.Fprintln(os.Stderr, "FAIL", f.Sig, f.Input)
	}
	same := 0
	for _, g := range c.findings {
		if g.Sig == f.Sig {
			same++
		}
	}
	if same < 3 && len(c.findings) < 9 {
		c.findings = append(c.findings, f)
	}
}

func matchInput(pat, in string) bool {
	if strings.HasSuffix(pat, "*") {
		return strings.HasPrefix(in, strings.TrimSuffix(pat, "*"))
	}
	return pat == in
}

func shortHash(s string) string {
	h := sha1.Sum([]byte(s))
	return hex.EncodeToString(h[:8])
}

// Finish writes the evidence file, prints KNOWN-FINDING / VIOLATION lines and returns the exit code.
func (c *Ctx) Finish() int {
	c.mu.Lock()
	defer c.mu.Unlock()
	root := verifRoot()
	// replays
	var vioLines []string
	if old, _ := filepath.Glob(filepath.Join(root, "replays", c.ID+"-*.json")); len(old) > 0 {
		for _, o := range old {
			os.Remove(o)
		}
	}
	if c.failCount > len(c.findings) {
		fmt.Printf("  (%d failing cases in total; the first %d are reported)\n", c.failCount, len(c.findings))
	}
	if len(c.findings) > 0 {
		os.MkdirAll(filepath.Join(root, "replays"), 0755)
		seen := map[string]bool{}
		for i, f := range c.findings {
			key := f.Sig + "|" + f.Input
			if seen[key] {
				continue
			}
			seen[key] = true
			name := fmt.Sprintf("%s-%s-%s-%d.json", c.ID, sanitize(f.Sig), shortHash(f.Input), i)
			p := filepath.Join(root, "replays", name)
			b, _ := json.MarshalIndent(map[string]interface{}{"property": c.ID, "tier": c.Tier, "seed": c.Seed, "sig": f.Sig, "input": f.Input, "what": f.What, "replay": f.Replay}, "", " ")
			os.WriteFile(p, b, 0644)
			vioLines = append(vioLines, fmt.Sprintf("VIOLATION property=%s replay=%s", c.ID, p))
			fmt.Printf("  %s: %s [%s]\n", f.Sig, truncate(f.What, 600), truncate(f.Input, 120))
		}
	}
	var ids []string
	for id := range c.knownHit {
		ids = append(ids, id)
	}
	sort.Strings(ids)
	// one line for every finding listed for this property (the file is read, never written); whether the
	// sampled inputs of this run reproduced it is recorded in the evidence
	var listed []string
	for _, k := range c.known {
		listed = append(listed, k.ID)
		how := "reproduced in this run"
		if !c.knownHit[k.ID] {
			how = "listed; not among the inputs sampled by this run"
		}
		fmt.Printf("KNOWN-FINDING: property=%s %s (%s; %s)\n", c.ID, k.What, k.ID, how)
	}
	sort.Strings(listed)
	cov := c.cov
	cov["evaluations"] = c.evals
	cov["distinct_nontrivial"] = int64(len(c.nontriv))
	if len(c.samples) > 0 {
		cov["samples"] = c.samples
	}
	if c.tlcStates > 0 {
		cov["states"] = c.tlcStates
		cov["transitions"] = c.tlcTrans
		cov["traces_validated_against_impl"] = c.traces
	}
	if len(c.notes) > 0 {
		cov["notes"] = c.notes
	}
	if len(listed) > 0 {
		cov["known_findings_listed"] = listed
	}
	if len(c.knownHit) > 0 {
		cov["known_findings_reproduced"] = ids
	}
	if len(c.infra) > 0 {
		cov["infra_problems"] = c.infra
	}
	ev := Evidence{PropertyID: c.ID, Tier: c.Tier, Seed: c.Seed, Level: c.Level, Coverage: cov, Assumptions: c.assume, WallS: time.Since(c.start).Seconds(), Violations: c.failCount}
	if ev.Assumptions == nil {
		ev.Assumptions = []string{}
	}
	evDir := filepath.Join(root, "evidence")
	if d := os.Getenv("VERIF_EVIDENCE_DIR"); d != "" {
		evDir = d // trying seeded changes: keep the committed evidence as it is
	}
	os.MkdirAll(evDir, 0755)
	b, _ := json.MarshalIndent(ev, "", " ")
	if err := os.WriteFile(filepath.Join(evDir, c.ID+".json"), append(b, '\n'), 0644); err != nil {
		fmt.Fprintln(os.Stderr, "INFRA: cannot write evidence:", err)
		return 2
	}
	for _, l := range vioLines {
		fmt.Println(l)
	}
	fmt.Printf("%s tier=%s seed=%d evaluations=%d distinct_nontrivial=%d tlc_states=%d traces=%d wall=%.1fs violations=%d\n", c.ID, c.Tier, c.Seed, c.evals, len(c.nontriv), c.tlcStates, c.traces, ev.WallS, len(vioLines))
	if len(vioLines) > 0 {
		return 1
	}
	if len(c.infra) > 0 {
		return 2
	}
	return 0
}

func sanitize(s string) string {
	var b strings.Builder
	for _, r := range s {
		if r >= 'a' && r <= 'z' || r >= 'A' && r <= 'Z' || r >= '0' && r <= '9' || r == '-' {
			b.WriteRune(r)
		} else {
			b.WriteByte('_')
		}
	}
	return b.String()
}

func truncate(s string, n int) string {
	if len(s) <= n {
		return s
	}
	return s[:n] + "…"
}
