package main

import (
	"flag"
	"fmt"
	"os"
	"sort"
	"strconv"
)

type checkFn func(c *Ctx)

type checkDef struct {
	level string
	fn    checkFn
}

var checks = map[string]checkDef{}

func register(id, level string, fn checkFn) { checks[id] = checkDef{level, fn} }

func main() {
	if len(os.Args) < 2 {
		usage()
	}
	switch os.Args[1] {
	case "check":
		fs := flag.NewFlagSet("check", flag.ExitOnError)
		tier := fs.String("tier", envOr("VERIF_TIER", "quick"), "quick|thorough")
		if len(os.Args) < 3 {
			usage()
		}
		id := os.Args[2]
		fs.Parse(os.Args[3:])
		def, ok := checks[id]
		if !ok {
			fmt.Fprintln(os.Stderr, "unknown property", id)
			os.Exit(2)
		}
		seed := int64(1)
		if s := os.Getenv("VERIF_SEED"); s != "" {
			if v, err := strconv.ParseInt(s, 10, 64); err == nil {
				seed = v
			}
		}
		c := newCtx(id, *tier, seed, def.level)
		func() {
			defer func() {
				if r := recover(); r != nil {
					c.Infra(fmt.Sprintf("harness panic: %v", r))
					if os.Getenv("VERIF_DEBUG") != "" {
						panic(r)
					}
				}
			}()
			def.fn(c)
		}()
		os.Exit(c.Finish())
	case "replay":
		if len(os.Args) < 3 {
			usage()
		}
		os.Exit(replayFile(os.Args[2]))
	case "c16worker":
		os.Exit(c16Worker(os.Args[2:]))
	case "selftest":
		os.Exit(selftest(os.Args[2:]))
	case "list":
		var ids []string
		for id := range checks {
			ids = append(ids, id)
		}
		sort.Strings(ids)
		for _, id := range ids {
			fmt.Println(id, checks[id].level)
		}
	default:
		usage()
	}
}

func envOr(k, d string) string {
	if v := os.Getenv(k); v != "" {
		return v
	}
	return d
}

func usage() {
	fmt.Fprintln(os.Stderr, "usage: dstv check <Cxx> [--tier quick|thorough] | replay <file> | selftest | list")
	os.Exit(2)
}
