package main

import (
	"bytes"
	"encoding/json"
	"fmt"
	"go/ast"
	"go/format"
	"go/parser"
	"go/scanner"
	"go/token"
	"math/rand"
	"os"
	"reflect"
	"sort"
	"strings"

	"github.com/dave/dst"
	"github.com/dave/dst/decorator"
	"github.com/dave/dst/decorator/resolver/goast"
	"github.com/dave/dst/decorator/resolver/guess"
)

func init() { register("C12", "model_checking", checkC12) }

const posTraceCfg = `INIT TInit
NEXT TNext
INVARIANTS InFile NoOverlap LinesStrict CommentsSorted RankEqual NoPhantom SpansCounted Reprintable
POSTCONDITION Accepted
CHECK_DEADLOCK FALSE
`

type posFile struct {
	Base      int      `json:"base"`
	Size      int      `json:"size"`
	Lines     []int    `json:"lines"`
	Positions []int    `json:"positions"`
	Comments  []int    `json:"comments"`
	RankR     []string `json:"rankR"`
	RankF     []string `json:"rankF"`
	Reprint   bool     `json:"reprint"`
	Phantom   []string `json:"phantom"` // token positions the restored ast has and a fresh parse of its print has not
	Spans     []string `json:"spans"`   // literals and comments whose text holds another number of line breaks than the line table counts between their ends
	name      string
	note      string
	rankKey   string
}

func nodesInOrder(f *ast.File) []ast.Node {
	var out []ast.Node
	ast.Inspect(f, func(n ast.Node) bool {
		switch n.(type) {
		case nil:
			return false
		case *ast.Comment, *ast.CommentGroup:
			return false
		}
		out = append(out, n)
		return true
	})
	return out
}

func posFields(n ast.Node) map[string]token.Pos {
	out := map[string]token.Pos{}
	v := reflect.ValueOf(n).Elem()
	t := v.Type()
	for i := 0; i < t.NumField(); i++ {
		if t.Field(i).Type == posType {
			name := t.Field(i).Name
			// fields added to go/ast after dst's schema was fixed are outside its contract
			if name == "FileStart" || name == "FileEnd" || name == "EndPos" {
				continue
			}
			if _, ok := n.(*ast.RangeStmt); ok && name == "Range" {
				continue
			}
			out[name] = token.Pos(v.Field(i).Int())
		}
	}
	return out
}

// posObserve restores the files into one FileSet and projects the position space.
func posObserve(files []*dst.File, names []string) ([]posFile, string) {
	return posObserveMode(files, names, false)
}

// posObserveMode restores ALL files first (with one Restorer, or with one re-used FileRestorer) and
// only then projects each of them: an earlier file must still be coherent after later restores.
func posObserveMode(files []*dst.File, names []string, reuseFileRestorer bool) ([]posFile, string) {
	return posObserveExtras(files, names, reuseFileRestorer, false)
}

// extras: the files are restored with Restorer.Extras; the positions of the nodes that are reachable
// only through an Object (the AssignStmt the parser invents for range variables, declarations removed
// from the tree) are positions the restorer assigns as well
func posObserveExtras(files []*dst.File, names []string, reuseFileRestorer, extras bool) ([]posFile, string) {
	return posObserveWith(files, names, reuseFileRestorer, extras, false)
}

// imports: the restorer manages imports (unused imports of the decorated files are removed)
func posObserveWith(files []*dst.File, names []string, reuseFileRestorer, extras, imports bool) ([]posFile, string) {
	r := decorator.NewRestorer()
	if imports {
		r = decorator.NewRestorerWithImports("example.com/p", guess.New())
	}
	r.Extras = extras
	fr := r.FileRestorer()
	var out []posFile
	asts := make([]*ast.File, len(files))
	for fi, df := range files {
		var err error
		if msg := guard(func() {
			if reuseFileRestorer {
				asts[fi], err = fr.RestoreFile(df)
			} else {
				asts[fi], err = r.RestoreFile(df)
			}
		}); msg != "" {
			return nil, names[fi] + ": " + msg
		}
		if err != nil {
			return nil, names[fi] + ": " + err.Error()
		}
	}
	for fi := range files {
		af := asts[fi]
		pf := posFile{name: names[fi], Positions: []int{}, Comments: []int{}, RankR: []string{}, RankF: []string{}, Lines: []int{}, Phantom: []string{}, Spans: []string{}}
		tf := r.Fset.File(af.Pos())
		if tf == nil {
			// no registered file contains the ast's position: report with an impossible range
			pf.Base, pf.Size = -1, 0
			pf.Positions = []int{int(af.Pos())}
			pf.Lines = []int{0}
			out = append(out, pf)
			continue
		}
		pf.Base, pf.Size = tf.Base(), tf.Size()
		// line table through the public API
		for ln := 1; ln <= tf.LineCount(); ln++ {
			pf.Lines = append(pf.Lines, int(tf.LineStart(ln))-tf.Base())
		}
		nodesR := nodesInOrder(af)
		for _, n := range nodesR {
			for _, p := range posFields(n) {
				if p.IsValid() {
					pf.Positions = append(pf.Positions, int(p))
				}
			}
		}
		for _, cg := range af.Comments {
			for _, cm := range cg.List {
				pf.Positions = append(pf.Positions, int(cm.Slash), int(cm.End()))
				pf.Comments = append(pf.Comments, int(cm.Slash))
			}
		}
		if extras {
			inFile := map[ast.Node]bool{}
			for _, n := range nodesR {
				inFile[n] = true
			}
			seenObj := map[*ast.Object]bool{}
			var fromObj func(o *ast.Object)
			visit := func(x interface{}) {
				root, ok := x.(ast.Node)
				if !ok || root == nil || inFile[root] {
					return
				}
				ast.Inspect(root, func(n ast.Node) bool {
					if n == nil || inFile[n] {
						return n != nil && !inFile[n]
					}
					inFile[n] = true
					for _, p := range posFields(n) {
						if p.IsValid() {
							pf.Positions = append(pf.Positions, int(p))
						}
					}
					if id, ok := n.(*ast.Ident); ok && id.Obj != nil {
						fromObj(id.Obj)
					}
					return true
				})
			}
			fromObj = func(o *ast.Object) {
				if o == nil || seenObj[o] {
					return
				}
				seenObj[o] = true
				visit(o.Decl)
				visit(o.Data)
			}
			for _, n := range nodesR {
				if id, ok := n.(*ast.Ident); ok && id.Obj != nil {
					fromObj(id.Obj)
				}
			}
		}
		// a literal or a comment that spans lines spans them in the line table too (position reporting behind
		// it would otherwise be off by its height)
		span := func(what, text string, from, to token.Pos) {
			if !from.IsValid() || int(to) > tf.Base()+tf.Size() {
				return
			}
			if got, want := tf.Line(to-1)-tf.Line(from), strings.Count(text, "\n"); got != want { // to-1: the last character of the text
				pf.note = fmt.Sprintf("%s %q: %d line breaks in the text, %d in the line table", what, truncate(text, 40), want, got)
				pf.Spans = append(pf.Spans, fmt.Sprintf("%s %q: %d line breaks in the text, %d in the line table", what, truncate(text, 40), want, got))
			}
		}
		for _, n := range nodesR {
			if bl, ok := n.(*ast.BasicLit); ok {
				span("literal", bl.Value, bl.Pos(), bl.End())
			}
		}
		for _, cg := range af.Comments {
			for _, cm := range cg.List {
				span("comment", cm.Text, cm.Pos(), cm.End())
			}
		}
		sort.Ints(pf.Positions)
		// print twice, parse afresh
		var b1, b2 bytes.Buffer
		e1 := format.Node(&b1, r.Fset, af)
		e2 := format.Node(&b2, r.Fset, af)
		pf.Reprint = e1 == nil && e2 == nil && bytes.Equal(b1.Bytes(), b2.Bytes())
		if e1 != nil {
			pf.Reprint = true // go/format refuses the tree: nothing to compare (inapplicable)
			pf.note = "format.Node: " + e1.Error()
			out = append(out, pf)
			continue
		}
		ffset := token.NewFileSet()
		fresh, err := parser.ParseFile(ffset, "", b1.Bytes(), parser.ParseComments)
		if err != nil {
			pf.note = "printed text does not parse"
			out = append(out, pf)
			continue
		}
		nodesF := nodesInOrder(fresh)
		same := len(nodesR) == len(nodesF)
		if same {
			for i := range nodesR {
				if reflect.TypeOf(nodesR[i]) != reflect.TypeOf(nodesF[i]) {
					same = false
					break
				}
			}
		}
		var cr, cf []*ast.Comment
		for _, cg := range af.Comments {
			cr = append(cr, cg.List...)
		}
		for _, cg := range fresh.Comments {
			cf = append(cf, cg.List...)
		}
		if !same || len(cr) != len(cf) {
			pf.note = "fresh parse has a different shape (markers changed the parse); rank not compared"
			out = append(out, pf)
			continue
		}
		type lab struct {
			l      string
			pr, pf token.Pos
			seq    int
		}
		var labs []lab
		for i := range nodesR {
			fr, ff := posFields(nodesR[i]), posFields(nodesF[i])
			var keys []string
			for k := range fr {
				keys = append(keys, k)
			}
			sort.Strings(keys)
			for _, k := range keys {
				if fr[k].IsValid() && ff[k].IsValid() {
					labs = append(labs, lab{fmt.Sprintf("%d.%s", i, k), fr[k], ff[k], len(labs)})
				}
				if fr[k].IsValid() && !ff[k].IsValid() {
					pf.Phantom = append(pf.Phantom, strings.TrimPrefix(fmt.Sprintf("%T", nodesR[i]), "*ast.")+"."+k)
				}
			}
		}
		for i := range cr {
			labs = append(labs, lab{fmt.Sprintf("c%d", i), cr[i].Slash, cf[i].Slash, len(labs)})
		}
		a := append([]lab{}, labs...)
		b := append([]lab{}, labs...)
		sort.SliceStable(a, func(i, j int) bool { return a[i].pr < a[j].pr })
		sort.SliceStable(b, func(i, j int) bool { return b[i].pf < b[j].pf })
		// keep the trace small: only the labels around the first disagreement are written out in full
		firstDiff := -1
		for i := range a {
			if a[i].l != b[i].l {
				firstDiff = i
				break
			}
		}
		// two tokens that a fresh parse keeps apart may not share a position in the restored ast
		tie := -1
		if firstDiff < 0 {
			for i := 0; i+1 < len(a); i++ {
				if a[i].pr == a[i+1].pr && a[i].pf != a[i+1].pf {
					tie = i
					break
				}
			}
		}
		if tie >= 0 {
			pf.RankR = []string{a[tie].l + " = " + a[tie+1].l}
			pf.RankF = []string{a[tie].l + " < " + a[tie+1].l}
			idx := 0
			fmt.Sscanf(a[tie].l, "%d.", &idx)
			if idx < len(nodesR) {
				field := a[tie].l
				if j := strings.Index(field, "."); j >= 0 {
					field = field[j+1:]
				}
				pf.rankKey = strings.TrimPrefix(fmt.Sprintf("%T", nodesR[idx]), "*ast.") + "." + field
			}
			pf.note = fmt.Sprintf("restored ast gives %s and %s one position (%d); the fresh parse keeps them apart", a[tie].l, a[tie+1].l, a[tie].pr)
		} else if firstDiff < 0 {
			pf.RankR = []string{fmt.Sprintf("%d labels in equal order", len(a))}
			pf.RankF = pf.RankR
		} else {
			lo, hi := firstDiff-2, firstDiff+4
			if lo < 0 {
				lo = 0
			}
			if hi > len(a) {
				hi = len(a)
			}
			for i := lo; i < hi; i++ {
				n := nodesR[0]
				_ = n
				pf.RankR = append(pf.RankR, a[i].l)
				pf.RankF = append(pf.RankF, b[i].l)
			}
			// name the node types involved for the report
			idx := 0
			fmt.Sscanf(a[firstDiff].l, "%d.", &idx)
			if idx < len(nodesR) {
				field := a[firstDiff].l
				if j := strings.Index(field, "."); j >= 0 {
					field = field[j+1:]
				}
				pf.rankKey = strings.TrimPrefix(fmt.Sprintf("%T", nodesR[idx]), "*ast.") + "." + field
				pf.note = fmt.Sprintf("restored ast orders %s (%T) where the fresh parse orders %s", a[firstDiff].l, nodesR[idx], b[firstDiff].l)
			}
		}
		out = append(out, pf)
	}
	return out, ""
}

func checkC12(c *Ctx) {
	c.Assume("position fields go/ast gained after dst's schema (File.FileStart/FileEnd, RangeStmt.Range, ImportSpec.EndPos) are outside the contract; only fields valid in both the restored ast and the fresh parse are ranked")
	nFiles := 90
	if !c.Quick() {
		nFiles = 0
	}
	files := corpus(c, nFiles)
	r0 := rand.New(rand.NewSource(c.Seed))
	type group struct {
		idx  []int
		mode string
	}
	var groups []group
	// single files plain, single files with markers, sequences of 2-4 files, edited files
	for i := range files {
		groups = append(groups, group{[]int{i}, "plain"})
		if i%3 == 0 {
			groups = append(groups, group{[]int{i}, "markers"})
		}
		if i%5 == 0 {
			groups = append(groups, group{[]int{i}, "edited"})
		}
		if i%4 == 1 {
			groups = append(groups, group{[]int{i}, "signatures-rebuilt"})
		}
		if i%4 == 2 {
			groups = append(groups, group{[]int{i}, "extras"})
		}
		if i%8 == 3 {
			groups = append(groups, group{[]int{i}, "extras-removed"})
		}
		if bytes.Contains(files[i].Src, []byte("`")) {
			groups = append(groups, group{[]int{i}, "hand-literals"})
		}
	}
	// import blocks that lose specs under import management (unused imports are removed): 2 -> 1, 3 -> 1, 3 -> 2, 2 -> 0
	for i, src := range []string{
		"package p\n\nimport (\n\t\"fmt\"\n\t\"os\"\n)\n\n// c\nfunc f() { fmt.Println() }\n",
		"package p\n\nimport (\n\t\"bytes\"\n\t\"fmt\" // trailing\n\t\"os\"\n)\n\nfunc f() { fmt.Println() }\n",
		"package p\n\nimport (\n\t\"bytes\"\n\n\t\"fmt\"\n\t\"os\"\n)\n\nfunc f() { fmt.Println(os.Args) }\n",
		"package p\n\nimport (\n\t\"fmt\"\n\t\"os\"\n)\n\nvar x = 1\n",
		"package p\n\nimport \"fmt\"\n\nimport (\n\tb \"bytes\"\n\t\"os\"\n)\n\nfunc f() { fmt.Println(b.MinRead) }\n",
	} {
		files = append(files, srcFile{fmt.Sprintf("imports-pruned-%d", i), []byte(src)})
		groups = append(groups, group{[]int{len(files) - 1}, "imports-pruned"})
	}
	// literals replaced by hand-made ones (&dst.BasicLit{Value: ...}: the text only, Kind unset) - go/printer
	// never looks at the Kind of a literal
	for i, src := range []string{
		"package p\n\nvar a = `x\ny\n\nz`\n\n// doc of b\nvar b = 1 // trailing\n\nfunc f() {\n\ts := `one\ntwo` // t\n\n\t_ = s\n}\n",
		"package p\n\nconst (\n\tq = `\n`\n\n\t// r\n\tr = \"s\"\n)\n\nvar v = []string{\n\t`a\nb`,\n\t`c`, // c\n\n\t`d\n\ne`,\n}\n",
		// comments in front of raw strings that span lines (Start decorations of the literal itself)
		"package p\n\nvar v = []string{\n\t// first\n\t`a\nb`,\n\t/* block */ `c\nd`,\n\n\t/* two\n\tlines */\n\t`e\n\nf`, // t\n}\n\nfunc f() {\n\tg( /* arg */ `x\ny`, 1)\n}\n",
	} {
		files = append(files, srcFile{fmt.Sprintf("hand-literals-%d", i), []byte(src)})
		groups = append(groups, group{[]int{len(files) - 1}, "hand-literals"}, group{[]int{len(files) - 1}, "plain"}, group{[]int{len(files) - 1, len(files) - 1}, "plain"})
	}
	// two files with range statements, restored with Extras into one file set
	files = append(files, srcFile{"extras-range-a", []byte("package p\n\nfunc a(m map[string]int) (s string) {\n\tfor k, e := range m {\n\t\tif e > 0 {\n\t\t\ts = k\n\t\t}\n\t}\n\treturn\n}\n")},
		srcFile{"extras-range-b", []byte("package p\n\nfunc b(xs []int) (n int) {\n\tfor i, x := range xs {\n\t\tn += i * x\n\t}\n\treturn\n}\n")})
	groups = append(groups, group{[]int{len(files) - 2, len(files) - 1}, "extras"}, group{[]int{len(files) - 1, len(files) - 2}, "extras"}, group{[]int{len(files) - 2}, "extras"})
	for k := 0; k < len(files)/3; k++ {
		n := 2 + r0.Intn(3)
		g := group{mode: "plain"}
		for j := 0; j < n; j++ {
			g.idx = append(g.idx, r0.Intn(len(files)))
		}
		groups = append(groups, g)
	}
	// template fragments with a block comment in every third token gap: comments at every decoration
	// point the decorator can attach them to, inline (the printer keeps inline block comments in place)
	if tsrc, err := templateSrc(); err == nil {
		if ms, err := miniFiles(tsrc); err == nil {
			for mi, m := range ms {
				// go/printer itself moves a comment that stands inside an import spec behind the spec
				if gd, ok := m.Decls[0].(*dst.GenDecl); ok && gd.Tok == token.IMPORT {
					continue
				}
				var buf bytes.Buffer
				if decorator.Fprint(&buf, m) != nil {
					continue
				}
				for off := 0; off < 6; off++ {
					src := denseComments(buf.Bytes(), off, 3)
					switch off {
					case 3:
						src = denseComments(buf.Bytes(), 0, 1) // a comment behind every token
					case 4, 5:
						// two comments behind every second token (comment groups of two, e.g. two trailing comments)
						src = bytes.ReplaceAll(denseComments(buf.Bytes(), off-4, 2), []byte(" /* g */"), []byte(" /* g */ /* h */"))
					}
					// reference pipeline without dst: where go/printer itself moves a comment across a token
					// (tokens it prints without consulting a position, e.g. the '=' of an alias), the order of a
					// fresh parse differs from any faithful position assignment; such inputs say nothing about dst
					if !printerKeepsOrder(src) {
						c.Add("dense_inputs_where_go_printer_moves_a_comment", 1)
						continue
					}
					files = append(files, srcFile{fmt.Sprintf("template-fragment-%d/dense-%d", mi, off), src})
					groups = append(groups, group{[]int{len(files) - 1}, "dense"})
					if _, isFunc := m.Decls[0].(*dst.FuncDecl); isFunc && bytes.Contains(src, []byte("func (")) {
						groups = append(groups, group{[]int{len(files) - 1}, "dense+signatures-rebuilt"})
					}
				}
			}
		}
	}
	recs := make([][]byte, len(groups))
	keys := make([]string, len(groups))
	seeds := make([]int64, len(groups))
	for i := range seeds {
		seeds[i] = r0.Int63()
	}
	parallel(len(groups), func(gi int) {
		g := groups[gi]
		r := rand.New(rand.NewSource(seeds[gi]))
		var dfs []*dst.File
		var names []string
		for _, i := range g.idx {
			df, err := decorator.Parse(files[i].Src)
			if g.mode == "imports-pruned" {
				df, err = decorator.NewDecoratorWithImports(token.NewFileSet(), "example.com/p", goast.New()).Parse(files[i].Src)
			}
			if err != nil {
				return
			}
			switch g.mode {
			case "markers":
				c12Markers(df, r)
			case "signatures-rebuilt", "dense+signatures-rebuilt":
				// hand-built signatures: a fresh FuncType around the old parameter lists (no Func flag, no decorations)
				for _, dcl := range df.Decls {
					if fd, ok := dcl.(*dst.FuncDecl); ok {
						fd.Type = &dst.FuncType{TypeParams: fd.Type.TypeParams, Params: fd.Type.Params, Results: fd.Type.Results}
					}
				}
			case "hand-literals":
				dst.Inspect(df, func(n dst.Node) bool {
					if bl, ok := n.(*dst.BasicLit); ok {
						kept := bl.Decs
						*bl = dst.BasicLit{Value: bl.Value}
						bl.Decs = kept
					}
					return true
				})
			case "extras-removed":
				// the first half of the declarations leaves the tree; objects of the rest still point there
				if len(df.Decls) > 1 {
					if _, isImport := df.Decls[0].(*dst.GenDecl); !(isImport && len(df.Imports) > 0) {
						df.Decls = df.Decls[len(df.Decls)/2:]
					}
				}
			case "edited":
				r.Shuffle(len(df.Decls), func(a, b int) {
					if _, ok := df.Decls[a].(*dst.GenDecl); ok && df.Decls[a].(*dst.GenDecl).Tok == token.IMPORT {
						return
					}
					if _, ok := df.Decls[b].(*dst.GenDecl); ok && df.Decls[b].(*dst.GenDecl).Tok == token.IMPORT {
						return
					}
					df.Decls[a], df.Decls[b] = df.Decls[b], df.Decls[a]
				})
			}
			dfs = append(dfs, df)
			names = append(names, files[i].Path)
		}
		reuse := len(g.idx) > 1 && gi%2 == 0
		key := fmt.Sprintf("%s|%v", g.mode, names)
		if reuse {
			key = "reused-FileRestorer|" + key
		}
		keys[gi] = key
		c.Eval(key, g.mode != "plain" || len(g.idx) > 1)
		obs, msg := posObserveWith(dfs, names, reuse, strings.HasPrefix(g.mode, "extras"), g.mode == "imports-pruned")
		if msg != "" && g.mode == "extras-removed" {
			c.Add("extras_removed_inapplicable", 1) // Extras asks the user to manage objects of removed nodes
			return
		}
		if msg != "" {
			c.Fail(Finding{Sig: "restore-fails", Input: key, What: msg, Replay: obj{"kind": "c12", "paths": names, "mode": g.mode, "seed": seeds[gi]}})
			return
		}
		for _, o := range obs {
			if o.note != "" && len(o.RankR) > 0 && o.RankR[0] != o.RankF[0] {
				// carried into the finding text when TLC rejects the record
			}
		}
		b, _ := json.Marshal(obj{"files": obs, "key": key, "rankKeys": func() []string {
			s := []string{}
			for _, o := range obs {
				if o.rankKey != "" {
					s = append(s, o.rankKey)
				}
			}
			return s
		}(), "notes": func() []string {
			s := []string{}
			for _, o := range obs {
				s = append(s, o.note)
			}
			return s
		}()})
		recs[gi] = append(b, '\n')
		if gi%37 == 0 {
			c.Sample(obj{"mode": g.mode, "files": names, "base": obs[0].Base, "size": obs[0].Size, "lines": len(obs[0].Lines), "positions": len(obs[0].Positions)})
		}
	})
	var items []traceItem
	for gi, b := range recs {
		if b != nil {
			items = append(items, traceItem{Key: keys[gi], Trace: b, Events: 1, Replay: obj{"kind": "c12", "paths": func() []string {
				var s []string
				for _, i := range groups[gi].idx {
					s = append(s, files[i].Path)
				}
				return s
			}(), "mode": groups[gi].mode, "seed": seeds[gi]}})
		}
	}
	c.Traces(int64(len(items)))
	validateTraces(c, "PosTrace", posTraceCfg, items, 40, false, func(it traceItem, res *TLCResult) {
		var rec struct {
			Notes    []string `json:"notes"`
			RankKeys []string `json:"rankKeys"`
		}
		json.Unmarshal(it.Trace, &rec)
		sig := "position-space-" + res.Violated
		in := it.Key
		if res.Violated == "RankEqual" && len(rec.RankKeys) > 0 {
			in = "rank|" + rec.RankKeys[0] + "|" + it.Key
		}
		c.Fail(Finding{Sig: sig, Input: in, What: fmt.Sprintf("invariant %s of PosTrace.tla fails: %v (%s)", res.Violated, rec.Notes, truncate(it.Key, 200)), Replay: it.Replay})
	})
	// the cursor machine itself: hook events of whole restorations validated step by step (Render.tla)
	var citems []traceItem
	nCur := 12
	if !c.Quick() {
		nCur = 400
	}
	rc := rand.New(rand.NewSource(c.Seed + 12))
	for i, f := range files {
		if len(citems) >= nCur || len(f.Src) > map[bool]int{true: 12000, false: 60000}[c.Quick()] {
			continue
		}
		df, err := decorator.Parse(f.Src)
		if err != nil {
			continue
		}
		mode := "plain"
		if i%3 == 1 {
			c12Markers(df, rc)
			mode = "markers"
		}
		tr, msg := cursorTrace(df)
		if msg != "" || tr.Len() == 0 {
			continue
		}
		c.Eval("cursor|"+mode+"|"+f.Path, true)
		citems = append(citems, traceItem{Key: "cursor|" + mode + "|" + f.Path, Trace: tr.Bytes(), Events: tr.Len(), Replay: obj{"kind": "c12", "paths": []string{f.Path}, "mode": mode, "seed": c.Seed}})
	}
	c.Traces(int64(len(citems)))
	cev := validateTraces(c, "RenderCursorTrace", renderCursorCfg, citems, 30000, false, func(it traceItem, res *TLCResult) {
		what := rejectText(res) + " " + offendingEvent(it, res)
		if res.Violated == "" && !strings.Contains(res.Output, "is violated") {
			// the real cursor arithmetic deviates from Render.tla; the position-space predicates above decide the property
			c.Note("model_conformance:false (cursor machine) " + it.Key + ": " + truncate(what, 300))
			c.Set("model_conformance", false)
			return
		}
		c.Fail(Finding{Sig: "cursor-machine", Input: it.Key, What: what, Replay: it.Replay})
	})
	c.Set("cursor_events_validated", cev)
	c.Set("rule", "case = one restorer restoring 1-4 files (plain, densely decorated with markers, or with shuffled declarations) into one FileSet; non-trivial = markers, edits or more than one file; distinct by mode + file list")
}

// c12Markers decorates a tree densely with block comments and newlines.
func c12Markers(f *dst.File, r *rand.Rand) {
	k := 0
	dst.Inspect(f, func(n dst.Node) bool {
		if n == nil {
			return false
		}
		k++
		// markers go where go/printer keeps comments in place: around nodes that occupy their own lines
		switch n.(type) {
		case *dst.ExprStmt, *dst.AssignStmt, *dst.ReturnStmt, *dst.IncDecStmt, *dst.GoStmt, *dst.DeferStmt, *dst.DeclStmt, *dst.ValueSpec, *dst.TypeSpec, *dst.Field:
		default:
			return true
		}
		if r.Intn(2) != 0 {
			return true
		}
		nd := n.Decorations()
		switch r.Intn(3) {
		case 0:
			nd.Start.Append(fmt.Sprintf("/*s%d*/", k))
		case 1:
			nd.End.Append(fmt.Sprintf("/*e%d*/", k))
		case 2:
			if _, ok := n.(dst.Stmt); ok {
				nd.Before = dst.EmptyLine
				nd.Start.Append(fmt.Sprintf("// l%d", k))
			}
		}
		return true
	})
}

func init() {
	replayers["c12"] = func(raw json.RawMessage) string {
		var r struct {
			Paths []string `json:"paths"`
			Mode  string   `json:"mode"`
			Seed  int64    `json:"seed"`
		}
		json.Unmarshal(raw, &r)
		var dfs []*dst.File
		rr := rand.New(rand.NewSource(r.Seed))
		for _, p := range r.Paths {
			src, err := os.ReadFile(p)
			if err != nil {
				if r.Mode == "extras" || r.Mode == "extras-removed" {
					return "" // generated source: not replayable from a path
				}
				return "harness: " + err.Error()
			}
			df, err := decorator.Parse(src)
			if err != nil {
				return "harness: " + err.Error()
			}
			if r.Mode == "markers" {
				c12Markers(df, rr)
			}
			if r.Mode == "extras-removed" && len(df.Decls) > 1 {
				df.Decls = df.Decls[len(df.Decls)/2:]
			}
			dfs = append(dfs, df)
		}
		obs, msg := posObserveExtras(dfs, r.Paths, false, strings.HasPrefix(r.Mode, "extras"))
		if msg != "" {
			return msg
		}
		b, _ := json.Marshal(obj{"files": obs})
		c := newCtx("C12", "quick", 1, "model_checking")
		out := ""
		validateTraces(c, "PosTrace", posTraceCfg, []traceItem{{Key: "replay", Trace: append(b, '\n'), Events: 1}}, 10, false, func(it traceItem, res *TLCResult) {
			out = "invariant " + res.Violated + " of PosTrace.tla fails"
			for _, o := range obs {
				if o.note != "" {
					out += ": " + o.note
				}
			}
		})
		return out
	}
}

// denseComments inserts "/* g */" behind every step-th token of src.
func denseComments(src []byte, off, step int) []byte {
	var ends []int
	fset := token.NewFileSet()
	file := fset.AddFile("", -1, len(src))
	var sc scanner.Scanner
	sc.Init(file, src, nil, scanner.ScanComments)
	for {
		pos, tok, lit := sc.Scan()
		if tok == token.EOF {
			break
		}
		if tok == token.SEMICOLON && lit == "\n" || tok == token.COMMENT {
			continue
		}
		n := len(lit)
		if n == 0 {
			n = len(tok.String())
		}
		ends = append(ends, file.Offset(pos)+n)
	}
	var out []byte
	last := 0
	for i, e := range ends {
		if i%step != off || i == len(ends)-1 {
			continue
		}
		out = append(out, src[last:e]...)
		out = append(out, " /* g */"...)
		last = e
	}
	return append(out, src[last:]...)
}

// rankLabels lists the valid position fields and comments of a file as (label, position).
func rankLabels(f *ast.File) ([]string, []token.Pos) {
	var ls []string
	var ps []token.Pos
	for i, n := range nodesInOrder(f) {
		pf := posFields(n)
		var keys []string
		for k := range pf {
			keys = append(keys, k)
		}
		sort.Strings(keys)
		for _, k := range keys {
			if pf[k].IsValid() {
				ls = append(ls, fmt.Sprintf("%d.%T.%s", i, n, k))
				ps = append(ps, pf[k])
			}
		}
	}
	i := 0
	for _, cg := range f.Comments {
		for _, cm := range cg.List {
			ls = append(ls, fmt.Sprintf("c%d", i))
			ps = append(ps, cm.Slash)
			i++
		}
	}
	return ls, ps
}

// printerKeepsOrder: go/parser -> go/format -> go/parser alone keeps the relative order of all token
// and comment positions of src.
func printerKeepsOrder(src []byte) bool {
	fset := token.NewFileSet()
	f, err := parser.ParseFile(fset, "", src, parser.ParseComments)
	if err != nil {
		return false
	}
	var buf bytes.Buffer
	if format.Node(&buf, fset, f) != nil {
		return false
	}
	g, err := parser.ParseFile(token.NewFileSet(), "", buf.Bytes(), parser.ParseComments)
	if err != nil {
		return false
	}
	la, pa := rankLabels(f)
	lb, pb := rankLabels(g)
	if len(la) != len(lb) {
		return false
	}
	order := func(ls []string, ps []token.Pos) []string {
		idx := make([]int, len(ls))
		for i := range idx {
			idx[i] = i
		}
		sort.SliceStable(idx, func(i, j int) bool { return ps[idx[i]] < ps[idx[j]] })
		out := make([]string, len(ls))
		for i, k := range idx {
			out[i] = ls[k]
		}
		return out
	}
	oa, ob := order(la, pa), order(lb, pb)
	for i := range oa {
		if oa[i] != ob[i] {
			return false
		}
	}
	return true
}
