package main

import (
	"go/ast"
	"go/token"
	"reflect"
	"sort"

	"github.com/dave/dst"
	"github.com/dave/dst/decorator"
)

type posItem struct {
	K    string `json:"k"`
	Text string `json:"text"`
	N    int    `json:"n"`
	pos  token.Pos
	seq  int
}

// notTokenPos lists token.Pos fields of go/ast nodes that are not positions of a token the dst
// schema knows: spans of Bad nodes, fields added to go/ast after dst's schema was written.
var notTokenPos = map[string]bool{"From": true, "To": true, "FileStart": true, "FileEnd": true, "EndPos": true, "NamePos": true, "ValuePos": true, "Slash": true}

// restoredPosItems lists, in position order, the tokens that carry a position field, the leaf
// strings and the comments of a restored ast. Tokens are named <field>@<dst node id>.
func restoredPosItems(r *decorator.Restorer, af *ast.File, ids map[dst.Node]int) []posItem {
	var out []posItem
	add := func(k, text string, n int, pos token.Pos) {
		out = append(out, posItem{K: k, Text: text, N: n, pos: pos, seq: len(out)})
	}
	inline := map[ast.Node]bool{}
	ast.Inspect(af, func(n ast.Node) bool {
		switch x := n.(type) {
		case nil:
			return false
		case *ast.Comment, *ast.CommentGroup:
			return false
		case *ast.FuncDecl:
			if x.Type != nil {
				inline[x.Type] = true
				if x.Type.Func.IsValid() {
					add("tok", "Type.Func", ids[r.Dst.Nodes[n]], x.Type.Func)
				}
			}
		case *ast.Ident:
			add("str", x.Name, ids[r.Dst.Nodes[n]], x.NamePos)
			return true
		case *ast.BasicLit:
			add("str", x.Value, ids[r.Dst.Nodes[n]], x.ValuePos)
			return true
		}
		if inline[n] {
			return true
		}
		id := ids[r.Dst.Nodes[n]]
		v := reflect.ValueOf(n).Elem()
		t := v.Type()
		for i := 0; i < t.NumField(); i++ {
			if t.Field(i).Type != posType || notTokenPos[t.Field(i).Name] {
				continue
			}
			if _, isRange := n.(*ast.RangeStmt); isRange && t.Field(i).Name == "Range" {
				continue // added to go/ast in Go 1.20; outside dst's contract
			}
			p := token.Pos(v.Field(i).Int())
			if p.IsValid() {
				add("tok", t.Field(i).Name, id, p)
			}
		}
		return true
	})
	for _, cg := range af.Comments {
		for _, cm := range cg.List {
			add("com", cm.Text, 0, cm.Slash)
		}
	}
	sort.SliceStable(out, func(i, j int) bool { return out[i].pos < out[j].pos })
	return out
}
