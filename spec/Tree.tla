-------------------------------- MODULE Tree --------------------------------
(***************************************************************************)
(* Operators over an abstract tree T = [root, nodes] as exported by the     *)
(* harness by reflection over struct fields (harness/tree.go):              *)
(*   T.nodes[id] = [id, type, truthy, s, t, kids, decs, before, after, path]*)
(*   kids  : sequence of [f, list, ids] in struct-declaration order         *)
(*   decs  : sequence of [p, d] (decoration point name, list of strings)    *)
(* Everything here is derived from NodeSchema!Schema: child order, render   *)
(* order, decoration points, position-carrying tokens.                      *)
(***************************************************************************)
EXTENDS NodeSchema, SequencesExt, TLC

Has(n, fact) == \E i \in DOMAIN n.truthy : n.truthy[i] = fact
Holds(p, n) == p.fact = "" \/ (Has(n, p.fact) # p.neg)

Abs(x) == IF x < 0 THEN -x ELSE x

KidIds(n, f) ==
  LET ix == {i \in DOMAIN n.kids : n.kids[i].f = f}
  IN IF ix = {} THEN <<>> ELSE n.kids[CHOOSE i \in ix : TRUE].ids

\* children a part refers to; "via" reaches through FuncDecl.Type
PartKids(T, n, p) ==
  IF p.via = "" THEN KidIds(n, p.field)
  ELSE LET v == KidIds(n, p.via)
       IN IF v = <<>> THEN <<>> ELSE KidIds(T.nodes[Abs(v[1])], p.field)

IsChildPart(p) == p.k \in {"node", "list"} /\ ~p.nr

Parts(n) == Schema[n.type]

\* syntactic children in render (= source) order
RenderKids(T, n) ==
  FlattenSeq([i \in DOMAIN Parts(n) |-> IF IsChildPart(Parts(n)[i]) THEN PartKids(T, n, Parts(n)[i]) ELSE <<>>])

\* children in traversal order: FuncDecl keeps its FuncType as one child (Recv, Name, Type, Body),
\* exactly as go/ast does; a Package's files come in file-name order.
WalkKids(T, n) ==
  CASE n.type = "FuncDecl" -> KidIds(n, "Recv") \o KidIds(n, "Name") \o KidIds(n, "Type") \o KidIds(n, "Body")
    [] n.type = "Package"  -> KidIds(n, "Files")
    [] OTHER               -> RenderKids(T, n)

\* every child-valued struct field, struct order (what reflection sees)
AllKids(n) == FlattenSeq([i \in DOMAIN n.kids |-> n.kids[i].ids])

\* decoration points in render order, as the per-node listing helper must expose them
Points(n) == LET ps == Parts(n) IN
  SelectSeq([i \in DOMAIN ps |-> IF ps[i].k \in {"dec", "decoff"} THEN ps[i].name ELSE ""], LAMBDA x : x # "")

DecsAt(n, name) ==
  LET ix == {i \in DOMAIN n.decs : n.decs[i].p = name}
  IN IF ix = {} THEN <<>> ELSE n.decs[CHOOSE i \in ix : TRUE].d

TokText(p, n) ==
  CASE p.tk = "lit" -> p.text
    [] p.tk = "dyn" -> n.t
    [] p.tk = "ifnil" -> IF Has(n, p.alt) THEN "case" ELSE "default"
    [] p.tk = "ifrecv" -> IF Has(n, p.alt) THEN "<-" ELSE "chan"
    [] OTHER -> "?"

IsComment(d) == d # "\n"
ComItems(ds) == [i \in DOMAIN SelectSeq(ds, IsComment) |-> [k |-> "com", text |-> SelectSeq(ds, IsComment)[i]]]

(* The item sequence printing must produce for the subtree at id: tokens,   *)
(* leaf strings and comments, in the order the schema documents.  Newline   *)
(* decorations and Before/After spacing add no item.  Tokens for which the  *)
(* ast has no position field are marked "tokn": the Go printer does not     *)
(* emit them separately, so comments cannot be told apart from either side. *)
RECURSIVE RenderItems(_, _)
RenderItems(T, id) ==
  LET n == T.nodes[Abs(id)]
      ps == Parts(n)
      item(p) ==
        CASE p.k \in {"dec", "decoff"} -> ComItems(DecsAt(n, p.name))
          [] p.k = "special" ->
               LET v == KidIds(n, "Type") IN IF v = <<>> THEN <<>> ELSE ComItems(DecsAt(T.nodes[Abs(v[1])], p.name))
          [] p.k = "tok" -> IF Holds(p, n) THEN << [k |-> IF p.pos = "" THEN "tokn" ELSE "tok", text |-> TokText(p, n)] >> ELSE <<>>
          [] p.k = "str" -> << [k |-> "str", text |-> n.s] >>
          [] p.k = "bad" -> << [k |-> "bad", text |-> ""] >>
          [] IsChildPart(p) ->
               LET ks == PartKids(T, n, p) IN FlattenSeq([j \in DOMAIN ks |-> RenderItems(T, ks[j])])
          [] OTHER -> <<>>
  IN FlattenSeq([i \in DOMAIN ps |-> item(ps[i])])

(* The same walk, keeping only what carries a position in the restored ast:  *)
(* tokens with a position field (named pos@node), leaf strings and comments. *)
RECURSIVE PosItems(_, _)
PosItems(T, id) ==
  LET n == T.nodes[Abs(id)]
      ps == Parts(n)
      item(p) ==
        CASE p.k \in {"dec", "decoff"} -> [i \in DOMAIN ComItems(DecsAt(n, p.name)) |-> [k |-> "com", text |-> ComItems(DecsAt(n, p.name))[i].text, n |-> 0]]
          [] p.k = "special" ->
               LET v == KidIds(n, "Type")
                   cs == IF v = <<>> THEN <<>> ELSE ComItems(DecsAt(T.nodes[Abs(v[1])], p.name))
               IN [i \in DOMAIN cs |-> [k |-> "com", text |-> cs[i].text, n |-> 0]]
          [] p.k = "tok" -> IF Holds(p, n) /\ p.pos # "" THEN << [k |-> "tok", text |-> p.pos, n |-> n.id] >> ELSE <<>>
          [] p.k = "str" -> << [k |-> "str", text |-> n.s, n |-> n.id] >>
          [] IsChildPart(p) ->
               LET ks == PartKids(T, n, p) IN FlattenSeq([j \in DOMAIN ks |-> PosItems(T, ks[j])])
          [] OTHER -> <<>>
  IN FlattenSeq([i \in DOMAIN ps |-> item(ps[i])])

\* reachable ids
RECURSIVE Reach(_, _, _)
Reach(T, id, pruned) ==
  IF id = 0 THEN {} ELSE
  IF Abs(id) \in pruned THEN {Abs(id)}
  ELSE {Abs(id)} \cup UNION {Reach(T, WalkKids(T, T.nodes[Abs(id)])[j], pruned) : j \in DOMAIN WalkKids(T, T.nodes[Abs(id)])}
=============================================================================
