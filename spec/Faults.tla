-------------------------------- MODULE Faults --------------------------------
(***************************************************************************)
(* C17 -- resolver failures during an import-managed restore (and, with the  *)
(* same shape, during decoration).  The operation first asks the resolver    *)
(* about every path that needs a name (in an order the Go map iteration      *)
(* picks), then mutates the import declarations, then renders.  A call may   *)
(* fail.  MutateFirst = TRUE is the mistake of touching the tree before all  *)
(* names are known.                                                          *)
(***************************************************************************)
EXTENDS Integers, Sequences, FiniteSets, TLC

CONSTANTS NCalls,        \* how many resolver calls the clean run makes
          MutateFirst
VARIABLES pending, failAt, made, mutated, output, result, attempt
vars == <<pending, failAt, made, mutated, output, result, attempt>>

Init == /\ pending = 1..NCalls /\ failAt \in 0..NCalls      \* 0 = no fault
        /\ made = 0 /\ mutated = FALSE /\ output = FALSE /\ result = "running" /\ attempt = 1

Mutate == /\ result = "running" /\ ~mutated
          /\ (MutateFirst \/ pending = {})
          /\ mutated' = TRUE /\ UNCHANGED <<pending, failAt, made, output, result, attempt>>

\* the k-th call overall fails if k = failAt (first attempt only)
Call(p) == /\ result = "running" /\ p \in pending
           /\ made' = made + 1
           /\ IF attempt = 1 /\ made + 1 = failAt
              THEN result' = "error" /\ UNCHANGED <<pending, mutated, output>>
              ELSE pending' = pending \ {p} /\ UNCHANGED <<result, mutated, output>>
           /\ UNCHANGED <<failAt, attempt>>

Render == /\ result = "running" /\ pending = {} /\ mutated
          /\ output' = TRUE /\ result' = "ok" /\ UNCHANGED <<pending, failAt, made, mutated, attempt>>

\* after a failure: a fresh restorer and a working resolver on the same tree
Retry == /\ result = "error" /\ attempt = 1
         /\ attempt' = 2 /\ pending' = 1..NCalls /\ made' = 0 /\ result' = "running"
         /\ UNCHANGED <<failAt, mutated, output>>

Next == Mutate \/ (\E p \in pending : Call(p)) \/ Render \/ Retry
Spec == Init /\ [][Next]_vars

\* P-layer
ErrorReturned == (attempt = 1 /\ failAt # 0 /\ made >= failAt) => result = "error"
NoOutputOnError == result = "error" => ~output
TreeUnchangedOnError == result = "error" => ~mutated
RetrySucceeds == (attempt = 2 /\ result = "ok") => (output /\ mutated)
=============================================================================
