-------------------------------- MODULE Faults --------------------------------
(***************************************************************************)
(* C17 -- resolver failures during an import-managed restore (and, with the  *)
(* same shape, during decoration).  The operation first asks the resolver    *)
(* about every path that needs a name (in an order the Go map iteration      *)
(* picks), then mutates the import declarations, then renders.  A call may   *)
(* fail.  MutateFirst = TRUE is the mistake of touching the tree before all  *)
(* names are known.  A resolver object may outlive the attempt (the          *)
(* syntax-based identifier resolver memoises a table per file): named is     *)
(* what it knows, cached that it considers its table complete.               *)
(* CacheOnFailure = TRUE is the mistake of keeping the half-built table of   *)
(* a failed attempt.                                                         *)
(***************************************************************************)
EXTENDS Integers, Sequences, FiniteSets, TLC

CONSTANTS NCalls,        \* how many resolver calls the clean run makes
          MutateFirst, CacheOnFailure
VARIABLES pending, failAt, made, mutated, output, result, attempt, named, cached
vars == <<pending, failAt, made, mutated, output, result, attempt, named, cached>>

Init == /\ pending = 1..NCalls /\ failAt \in 0..NCalls      \* 0 = no fault
        /\ made = 0 /\ mutated = FALSE /\ output = FALSE /\ result = "running" /\ attempt = 1
        /\ named = {} /\ cached = FALSE

Mutate == /\ result = "running" /\ ~mutated
          /\ (MutateFirst \/ pending = {})
          /\ mutated' = TRUE /\ UNCHANGED <<pending, failAt, made, output, result, attempt, named, cached>>

\* the k-th call overall fails if k = failAt (first attempt only)
Call(p) == /\ result = "running" /\ p \in pending
           /\ made' = made + 1
           /\ IF attempt = 1 /\ made + 1 = failAt
              THEN result' = "error" /\ cached' = CacheOnFailure /\ UNCHANGED <<pending, mutated, output, named>>
              ELSE pending' = pending \ {p} /\ named' = named \cup {p} /\ UNCHANGED <<result, mutated, output, cached>>
           /\ UNCHANGED <<failAt, attempt>>

Render == /\ result = "running" /\ pending = {} /\ mutated
          /\ output' = TRUE /\ result' = "ok" /\ UNCHANGED <<pending, failAt, made, mutated, attempt, named, cached>>

\* after a failure: a fresh restorer / decorator on the same tree, the resolver objects working again;
\* a resolver that believes its table complete is not asked again
Retry == /\ result = "error" /\ attempt = 1
         /\ attempt' = 2 /\ made' = 0 /\ result' = "running"
         /\ pending' = IF cached THEN {} ELSE 1..NCalls
         /\ named' = IF cached THEN named ELSE {}
         /\ UNCHANGED <<failAt, mutated, output, cached>>

Next == Mutate \/ (\E p \in pending : Call(p)) \/ Render \/ Retry
Spec == Init /\ [][Next]_vars

\* P-layer
ErrorReturned == (attempt = 1 /\ failAt # 0 /\ made >= failAt) => result = "error"
NoOutputOnError == result = "error" => ~output
TreeUnchangedOnError == result = "error" => ~mutated
RetrySucceeds == (attempt = 2 /\ result = "ok") => (output /\ mutated)
\* the retry is the failure-free run: every name is known when it renders
RetryComplete == result = "ok" => named = 1..NCalls
=============================================================================
