-------------------------------- MODULE Render --------------------------------
(***************************************************************************)
(* C12 (and the byte level of C04 / C05) -- the restorer's cursor machine:   *)
(* FileRestorer.{cursor, cursorAtNewLine, lines, base} as applySpace and     *)
(* applyDecorations move them (decorator/restorer.go).  Between two of these *)
(* calls the generated code advances the cursor over tokens and strings; in  *)
(* a trace that is a silent step Advance(d), d >= 0.                         *)
(*   cursor  next free position (token.Pos), atNL = cursorAtNewLine          *)
(*   nlines  number of entries of the line table, last = its last offset     *)
(* Decorations are records [k |-> "L"|"B"|"N", len, inner] (inner = number   *)
(* of line breaks inside a multi-line block comment).                        *)
(***************************************************************************)
EXTENDS Integers, Sequences, FiniteSets, TLC

VARIABLES cursor, atNL, nlines, last, base
rvars == <<cursor, atNL, nlines, last, base>>

Begin(b) == cursor' = b /\ base' = b /\ atNL' = 0 /\ nlines' = 1 /\ last' = 0

\* state after `n` newlines of applySpace from cursor c: each steps over one byte, records, steps again
SpaceEffect(c, n) == [cursor |-> c + 2 * n, atNL |-> c + 2 * n, nlines |-> n, last |-> c + 2 * n - 1]

\* applySpace(space) after a silent advance of d bytes
ApplySpace(space, d) ==
  LET c == cursor + d
      n0 == space
      n == IF c = atNL THEN n0 - 1 ELSE n0
  IN /\ d >= 0
     /\ IF n > 0
        THEN /\ cursor' = c + 2 * n /\ atNL' = c + 2 * n
             /\ nlines' = nlines + n /\ last' = (c + 2 * n - 1) - base
        ELSE /\ cursor' = c /\ UNCHANGED <<atNL, nlines, last>>
     /\ UNCHANGED base

\* one decoration: st = [c, a, n, l]
DecStep(st, dec, end) ==
  LET c1 == IF end /\ st.a = st.c THEN st.c + 1 ELSE st.c           \* End decorations are indented
      n1 == st.n + dec.inner                                         \* line breaks inside a block comment
      l1 == IF dec.inner > 0 THEN (c1 - base) + dec.lastInner ELSE st.l
      c2 == IF dec.k \in {"L", "B"} THEN c1 + dec.len ELSE c1
      \* a line break that would repeat the last line offset (a newline at the very start of the file)
      \* first steps over one byte
      c3 == IF (c2 - base) <= l1 THEN c2 + 1 ELSE c2
  IN IF dec.k \in {"L", "N"}
     THEN [c |-> c3 + 1, a |-> c3 + 1, n |-> n1 + 1, l |-> c3 - base]
     ELSE [c |-> c2, a |-> st.a, n |-> n1, l |-> l1]

RECURSIVE DecsFrom(_, _, _)
DecsFrom(st, ds, end) == IF ds = <<>> THEN st ELSE DecsFrom(DecStep(st, Head(ds), end), Tail(ds), end)

\* applyDecorations(decs, end) after a silent advance of d bytes; pkg: File.Start (one more byte)
ApplyDecs(ds, end, pkg, d) ==
  LET st == DecsFrom([c |-> cursor + d, a |-> atNL, n |-> nlines, l |-> last], ds, end)
  IN /\ d >= 0
     /\ cursor' = st.c + (IF pkg THEN 1 ELSE 0) /\ atNL' = st.a /\ nlines' = st.n /\ last' = st.l
     /\ UNCHANGED base

-----------------------------------------------------------------------------
(* P-layer (C12): positions only move forward, every new line offset is beyond the previous one *)
Monotone == [][cursor' >= cursor \/ base' # base]_rvars
LinesGrow == [][(nlines' > nlines /\ base' = base) => last' > last]_rvars
=============================================================================
