------------------------------ MODULE EntryTrace ------------------------------
(* observations {"entry","cls","parse","print"} of the real entry points on damaged inputs *)
EXTENDS Entry, Json
VARIABLE l
Trace == ndJsonDeserialize("trace.ndjson")
TInit == l = 1 /\ cls = "ok" /\ entry = "Parse" /\ pc = "parse" /\ result = "none" /\ badimport = FALSE /\ hasRef = FALSE
TNext == l <= Len(Trace) /\ l' = l + 1 /\ UNCHANGED vars
Rec == Trace[l]
Conforms == l <= Len(Trace) =>
   /\ Rec.parse \in AllowedParse(Rec.entry, Rec.cls)
   /\ Rec.print \in AllowedPrint(Rec.cls, Rec.parse)
NeverPanics == l <= Len(Trace) => (Rec.parse # "panic" /\ Rec.print # "panic")
Accepted == TLCGet("stats").diameter = Len(Trace) + 1
=============================================================================
