------------------------------- MODULE Spacing -------------------------------
(***************************************************************************)
(* C05 -- how Before/After spacing and Start/End decorations of the         *)
(* elements of an own-line sibling list turn into lines.                    *)
(*                                                                          *)
(* I-layer: the restorer's cursor machine reduced to lines: `fresh` is      *)
(* cursorAtNewLine = cursor (the output is directly behind a line break),   *)
(* applySpace adds `space` breaks minus one when fresh, applyDecorations    *)
(* emits comments and breaks ("\n" and line comments end the line).         *)
(* P-layer: the rule as the property states it.                             *)
(*                                                                          *)
(* A case is a sequence of elements [b, a, s, e]: Before, After in 0..2     *)
(* (None, NewLine, EmptyLine), s = Start decorations, e = End decorations,  *)
(* decorations being sequences over "L" (line comment), "B" (block          *)
(* comment), "M" (block comment that spans two lines), "N" (newline).  The opening delimiter precedes the first       *)
(* element, the closing delimiter follows the last one.                     *)
(***************************************************************************)
EXTENDS Integers, Sequences, FiniteSets, TLC, Json

CONSTANTS MaxN,         \* elements per list
          StartSet,     \* allowed Start decoration lists
          EndSet,       \* allowed End decoration lists
          Additive      \* FALSE = the code; TRUE = the classic mistake (spacing always adds), for the selftest

VARIABLES elems, done
vars == <<elems, done>>

Spaces == 0..2

-----------------------------------------------------------------------------
(* I-layer: line machine.  st = [lines, cur, fresh]                         *)
(*  lines : finished lines (sequences of labels), cur : labels on the       *)
(*  current line, fresh : nothing was emitted since the last break          *)
Emit(st, lbl) == [st EXCEPT !.cur = Append(@, lbl), !.fresh = FALSE]
Break(st) == [lines |-> Append(st.lines, st.cur), cur |-> <<>>, fresh |-> TRUE]

RECURSIVE Breaks(_, _)
Breaks(st, k) == IF k <= 0 THEN st ELSE Breaks(Break(st), k - 1)

\* applySpace: `space` newlines, one fewer directly behind a break
ApplySpace(st, space) == Breaks(st, IF st.fresh /\ space > 0 /\ ~Additive THEN space - 1 ELSE space)

\* applyDecorations: comments are emitted, "\n" and line comments break the line
RECURSIVE ApplyDecs(_, _, _, _)
ApplyDecs(st, ds, who, k) ==
  IF ds = <<>> THEN st
  ELSE LET d == Head(ds)
           lbl == who \o ToString(k)
           s1 == IF d \in {"L", "B", "M"} THEN Emit(st, lbl) ELSE st
           s2 == IF d \in {"L", "N"} THEN Break(s1)
                 ELSE IF d = "M" THEN Emit(Break(s1), "u" \o lbl)     \* the comment's own line break; its second line goes on
                 ELSE s1
       IN ApplyDecs(s2, Tail(ds), who, k + 1)

RenderElem(st, el, i) ==
  LET id == ToString(i)
      s1 == ApplySpace(st, el.b)
      s2 == ApplyDecs(s1, el.s, "s" \o id \o ".", 1)
      s3 == Emit(s2, "e" \o id)
      s4 == ApplyDecs(s3, el.e, "t" \o id \o ".", 1)
  IN ApplySpace(s4, el.a)

RECURSIVE RenderFrom(_, _, _)
RenderFrom(st, es, i) == IF i > Len(es) THEN st ELSE RenderFrom(RenderElem(st, es[i], i), es, i + 1)

\* lines of the whole list: "{" ... "}"
RenderLines(es) ==
  LET st0 == [lines |-> <<>>, cur |-> <<"{">>, fresh |-> FALSE]
      st1 == RenderFrom(st0, es, 1)
      st2 == Emit(st1, "}")
  IN Append(st2.lines, st2.cur)

\* what the Go printer shows of it: consecutive blank lines collapse into one
RECURSIVE Collapse(_)
Collapse(ls) ==
  IF Len(ls) <= 1 THEN ls
  ELSE IF ls[1] = <<>> /\ ls[2] = <<>> THEN Collapse(Tail(ls))
  ELSE <<ls[1]>> \o Collapse(Tail(ls))

Printed(es) == Collapse(RenderLines(es))

\* every element occupies its own line (with its trailing comments), the delimiters too
ElemLabel(l) == \E i \in 1..MaxN : l = "e" \o ToString(i)
OwnLines(es) ==
  LET ls == RenderLines(es) IN
  \A k \in DOMAIN ls :
     Cardinality({j \in DOMAIN ls[k] : ElemLabel(ls[k][j]) \/ ls[k][j] \in {"{", "}"}}) <= 1

-----------------------------------------------------------------------------
(* P-layer: the rule of the property, stated on gaps.                        *)
LineOf(ls, lbl) == CHOOSE k \in DOMAIN ls : \E j \in DOMAIN ls[k] : ls[k][j] = lbl
BlankBetween(ls, x, y) == \E k \in (LineOf(ls, x) + 1)..(LineOf(ls, y) - 1) : ls[k] = <<>>
OwnBreaks(ds) == Cardinality({k \in DOMAIN ds : ds[k] \in {"L", "N"}})
\* (the rule is stated for comments that stay on one line; two-line comments are judged by conformance)
NoM(ds) == \A k \in DOMAIN ds : ds[k] # "M"
El(i) == "e" \o ToString(i)

\* between two adjacent siblings: one blank line iff After / Before is EmptyLine, when the
\* decorations in the gap contribute at most the one line break that ends the first element's line
NonAdditive(es) ==
  OwnLines(es) =>
  \A i \in 1..(Len(es) - 1) :
     (OwnBreaks(es[i].e) <= 1 /\ NoM(es[i].e) /\ ~(\E k \in DOMAIN es[i].e : es[i].e[k] = "N" /\ k < Len(es[i].e)) /\ es[i + 1].s = <<>>) =>
        (BlankBetween(Printed(es), El(i), El(i + 1)) <=> (es[i].a = 2 \/ es[i + 1].b = 2))

\* Before of the first and After of the last decide the blank line at the delimiters
Delimiters(es) ==
  (OwnLines(es) /\ Len(es) > 0) =>
     /\ es[1].s = <<>> => (BlankBetween(Printed(es), "{", El(1)) <=> es[1].b = 2)
     /\ OwnBreaks(es[Len(es)].e) <= 1 /\ NoM(es[Len(es)].e) /\ ~(\E k \in DOMAIN es[Len(es)].e : es[Len(es)].e[k] = "N" /\ k < Len(es[Len(es)].e))
          => (BlankBetween(Printed(es), El(Len(es)), "}") <=> es[Len(es)].a = 2)

\* a line comment or newline decoration never removes a blank line that spacing asks for, and
\* at most one blank line is ever shown between two items
NeverTwoBlanks(es) == LET ls == Printed(es) IN \A k \in 1..(Len(ls) - 1) : ~(ls[k] = <<>> /\ ls[k + 1] = <<>>)

-----------------------------------------------------------------------------
(* exhaustive exploration: build the list element by element *)
ElemSet == [b : Spaces, a : Spaces, s : StartSet, e : EndSet]

Init == elems = <<>> /\ done = FALSE
AddElem == /\ ~done /\ Len(elems) < MaxN /\ \E el \in ElemSet : elems' = Append(elems, el) /\ UNCHANGED done
Finish == /\ ~done /\ Len(elems) > 0 /\ done' = TRUE /\ UNCHANGED elems
Next == AddElem \/ Finish

InvNonAdditive == done => NonAdditive(elems)
InvDelimiters == done => Delimiters(elems)
InvNeverTwoBlanks == done => NeverTwoBlanks(elems)
=============================================================================
