------------------------------- MODULE LinkMC -------------------------------
(***************************************************************************)
(* C01 C02 -- the layout space inside TLC.                                  *)
(*                                                                          *)
(* Link.tla transcribes link() and the restorer's line machine as pure      *)
(* operators; LinkTrace runs them on fragment lists recorded from the real  *)
(* decorator.  Here TLC builds the fragment lists itself: every layout of a *)
(* switch statement                                                         *)
(*                                                                          *)
(*     switch {                 <- gap                                      *)
(*     case x:                  <- gap (if the clause has a statement)      *)
(*         break                                                            *)
(*                              <- gap                                      *)
(*     case x: ...                                                          *)
(*     }                                                                    *)
(*                                                                          *)
(* with up to MaxClauses clauses (with or without a statement) and up to    *)
(* MaxComs comments distributed over the gaps.  A gap is a sequence of      *)
(* entries [e, c]: e = an empty line stands in front of this line, c = what *)
(* the line holds: a comment on its own line (line or block comment, at the *)
(* indentation of the clauses or of their bodies), or "end" = the next code *)
(* line; a first entry "TL"/"TB" is a trailing comment on the previous code *)
(* line.  This is the area where link() has its special cases: hanging      *)
(* indents, empty clauses, comments that belong to the next clause.         *)
(*                                                                          *)
(* Checked on every layout: no panic state, every comment attached exactly  *)
(* once, and the restorer's line machine reproduces the source skeleton.    *)
(* Every layout is also printed (Emit) so that the harness can write it out *)
(* as source text, run the real decorator and compare the real fragment     *)
(* list with Build(shape, gaps) and the real attachment with Link(F).       *)
(***************************************************************************)
EXTENDS Link, Json

CONSTANTS MaxClauses, MaxComs, EmitHist
VARIABLES shape, gaps, gi, ncom, phase
mvars == <<shape, gaps, gi, ncom, phase>>

OwnKinds == {"L2", "L3", "B2", "B3"}
TrailKinds == {"TL", "TB"}

RECURSIVE NumGapsFrom(_)
NumGapsFrom(s) == IF s = <<>> THEN 0 ELSE (IF Head(s) THEN 2 ELSE 1) + NumGapsFrom(Tail(s))
NumGaps == 1 + NumGapsFrom(shape)

Init == shape = <<>> /\ gaps = <<>> /\ gi = 0 /\ ncom = 0 /\ phase = "shape"
AddClause == phase = "shape" /\ Len(shape) < MaxClauses /\ \E b \in BOOLEAN : shape' = Append(shape, b) /\ UNCHANGED <<gaps, gi, ncom, phase>>
StartGaps == phase = "shape" /\ Len(shape) >= 1 /\ phase' = "gaps" /\ gaps' = [i \in 1..NumGaps |-> <<>>] /\ gi' = 1 /\ UNCHANGED <<shape, ncom>>
Put == /\ phase = "gaps"
       /\ \E e \in BOOLEAN, c \in OwnKinds \cup TrailKinds \cup {"end"} :
            /\ c \in TrailKinds => (gaps[gi] = <<>> /\ ~e)
            /\ c # "end" => ncom < MaxComs
            /\ gaps' = [gaps EXCEPT ![gi] = Append(@, [e |-> e, c |-> c])]
            /\ ncom' = IF c = "end" THEN ncom ELSE ncom + 1
            /\ gi' = IF c = "end" THEN gi + 1 ELSE gi
            /\ phase' = IF c = "end" /\ gi = NumGaps THEN "done" ELSE "gaps"
       /\ UNCHANGED shape
Next == AddClause \/ StartGaps \/ Put

-----------------------------------------------------------------------------
Frag(k, n, name) == [k |-> k, node |-> n, name |-> name, line |-> FALSE, empty |-> FALSE, indent |-> 0,
                     sd |-> FALSE, lab |-> FALSE, clause |-> FALSE, si |-> 0, ei |-> 0, dup |-> FALSE]
Dec(n, name, sd, cl, si, ei) == [Frag("dec", n, name) EXCEPT !.sd = sd, !.clause = cl, !.si = si, !.ei = ei]
Tok(n) == Frag("tok", n, "")
Str(n) == Frag("str", n, "")
Com(line, ind) == [Frag("com", 0, "") EXCEPT !.line = line, !.indent = ind]
Nl(e) == [Frag("nl", 0, "") EXCEPT !.empty = e]

\* the fragments of one gap; li = indentation of the code line in front of it
RECURSIVE GapFrags(_, _)
GapFrags(g, li) ==
  IF g = <<>> THEN <<>>
  ELSE LET x == Head(g) IN
    (CASE x.c = "TL" -> << Com(TRUE, li) >>
       [] x.c = "TB" -> << Com(FALSE, li) >>
       [] x.c = "end" -> << Nl(x.e) >>
       [] x.c = "L2" -> << Nl(x.e), Com(TRUE, 2) >>
       [] x.c = "L3" -> << Nl(x.e), Com(TRUE, 3) >>
       [] x.c = "B2" -> << Nl(x.e), Com(FALSE, 2) >>
       [] x.c = "B3" -> << Nl(x.e), Com(FALSE, 3) >>) \o GapFrags(Tail(g), li)

\* clause number ci with first node number n and first gap index g; has = it holds a statement
\* nodes: n = CaseClause, n+1 = the case expression (Ident), n+2 = the statement (BranchStmt)
ClauseFrags(has, n, g, gs) ==
  LET ei == IF has THEN 3 ELSE 2
      head == << Dec(n, "Start", TRUE, TRUE, 2, ei), Tok(n), Dec(n, "Case", TRUE, TRUE, 2, ei),
                 Dec(n + 1, "Start", FALSE, FALSE, 2, 2), Dec(n + 1, "X", FALSE, FALSE, 2, 2), Str(n + 1), Dec(n + 1, "End", FALSE, FALSE, 2, 2),
                 Tok(n), Dec(n, "Colon", TRUE, TRUE, 2, ei) >>
  IN IF has
     THEN head \o GapFrags(gs[g], 2)
               \o << Dec(n + 2, "Start", TRUE, FALSE, 3, 3), Tok(n + 2), Dec(n + 2, "End", TRUE, FALSE, 3, 3),
                     Dec(n, "End", TRUE, TRUE, 2, ei) >>
               \o GapFrags(gs[g + 1], 3)
     ELSE head \o << Dec(n, "End", TRUE, TRUE, 2, ei) >> \o GapFrags(gs[g], 2)

RECURSIVE ClausesFrags(_, _, _, _)
ClausesFrags(s, n, g, gs) ==
  IF s = <<>> THEN <<>>
  ELSE ClauseFrags(Head(s), n, g, gs) \o ClausesFrags(Tail(s), n + (IF Head(s) THEN 3 ELSE 2), g + (IF Head(s) THEN 2 ELSE 1), gs)

\* SwitchStmt = node 1, its BlockStmt = node 2
Build(s, gs) ==
  << Dec(1, "Start", TRUE, FALSE, 2, 2), Tok(1), Dec(1, "Switch", TRUE, FALSE, 2, 2),
     Dec(2, "Start", TRUE, FALSE, 2, 2), Tok(2), Dec(2, "Lbrace", TRUE, FALSE, 2, 2) >>
  \o GapFrags(gs[1], 2)
  \o ClausesFrags(s, 3, 2, gs)
  \o << Tok(2), Dec(2, "End", TRUE, FALSE, 2, 2), Dec(1, "End", TRUE, FALSE, 2, 2) >>

Done == phase = "done"
NoPanic == Done => NoPanicF(Build(shape, gaps))
AllAttached == Done => AllAttachedF(Build(shape, gaps))
RoundTrip == Done => RoundTripF(Build(shape, gaps))
\* EmitHist = "layouts": the layout only; "frags": the layout and the fragment list built for it
FragRow(f) == <<f.k, f.node, f.name, f.line, f.empty, f.indent, f.sd, f.clause, f.si, f.ei>>
Emit == Done =>
  CASE EmitHist = "layouts" -> PrintT("BEH " \o ToJson([shape |-> shape, gaps |-> gaps]))
    [] EmitHist = "frags" -> LET F == Build(shape, gaps) IN
         PrintT("BEH " \o ToJson([shape |-> shape, gaps |-> gaps, frags |-> [i \in 1..Len(F) |-> FragRow(F[i])]]))
    [] OTHER -> TRUE
=============================================================================
