----------------------------- MODULE SelectorTrace -----------------------------
(* C08, code -> specification: for every qualified identifier of a decorated file the 13 slots   *)
(* the decorator's link() produced for the three ast nodes (verif hooks) and the decorations of  *)
(* the collapsed dst.Ident:                                                                       *)
(*  {"s":[s1..s13],"m":{"before","start","x","end","after"}}  decorations abstracted to L/B/N     *)
EXTENDS Selector, Json
VARIABLE l
Trace == ndJsonDeserialize("trace.ndjson")
TInit == l = 1
TNext == l <= Len(Trace) /\ l' = l + 1
Rec == Trace[l]
Live == l <= Len(Trace)
\* the real merge is mergeDecorations as specified
MergeConforms == Live => LET m == Merged(Rec.s) IN
   /\ m.before = Rec.m.before /\ m.after = Rec.m.after
   /\ m.start = Rec.m.start /\ m.x = Rec.m.x /\ m.end = Rec.m.end
\* and rendering the collapsed identifier gives the lines the three nodes gave, from either cursor state
MergeFaithful == Live => (FaithfulTo(Rec.s, Rec.m, TRUE) /\ FaithfulTo(Rec.s, Rec.m, FALSE))
Accepted == TLCGet("stats").diameter = Len(Trace) + 1
=============================================================================
