------------------------------- MODULE Imports -------------------------------
(***************************************************************************)
(* C07 C08 C10 C17 -- the import manager of the restorer (updateImports and *)
(* restoreIdent in decorator/restorer.go).                                  *)
(*                                                                          *)
(* A configuration:                                                         *)
(*   src[p]  how path p is imported in the file: "absent", "" (plain), an   *)
(*           alias name, "_" or "."                                         *)
(*   ov[p]   FileRestorer.Alias[p]: "unset", "" (force no alias), a name,   *)
(*           "_" or "."                                                     *)
(*   used    paths that identifiers of the file carry                       *)
(*   pkg[p]  the package name the resolver reports for p                    *)
(* Order(S) is packagePathOrderLess: paths without a dot first, then        *)
(* lexically; Ord is the lexical rank given as a constant.                  *)
(* The result: names[p] the qualifier used in the code ("" = bare),         *)
(* alias[p] what the import spec says ("" = no alias), req the set of       *)
(* imported paths.                                                          *)
(***************************************************************************)
EXTENDS Integers, Sequences, FiniteSets, TLC

CONSTANTS Paths,       \* set of import paths (strings)
          Pkg,         \* [Paths -> package name]
          Dotted,      \* subset of Paths whose path contains a "."
          Ord,         \* [Paths -> Nat] lexical rank
          CPath,       \* the path "C" (a member of Paths) or "none"
          SrcStates, OvStates,
          CFix         \* TRUE: no name is chosen for "C" (the repaired code); FALSE: pinned code

VARIABLES src, ov, used, todo, done
vars == <<src, ov, used, todo, done>>

Less(p, q) == IF (p \in Dotted) # (q \in Dotted) THEN q \in Dotted ELSE Ord[p] < Ord[q]
RECURSIVE Sorted(_)
Sorted(S) == IF S = {} THEN <<>>
             ELSE LET m == CHOOSE x \in S : \A y \in S \ {x} : Less(x, y) IN <<m>> \o Sorted(S \ {m})

Found(c) == {p \in Paths : c.src[p] # "absent"}

\* effectiveAlias: source alias unless overridden; "_" is dropped when the package is used
Eff(c) ==
  LET fromSrc == {p \in Found(c) : c.src[p] # "" /\ c.ov[p] # "" /\ ~(c.src[p] = "_" /\ p \in c.used)}
      fromOv == {p \in Paths : c.ov[p] \notin {"unset", ""} /\ ~(c.ov[p] = "_" /\ p \in c.used)}
  IN [p \in fromSrc \cup fromOv |-> IF p \in fromOv THEN c.ov[p] ELSE c.src[p]]

Required(c) ==
  c.used \cup {p \in DOMAIN Eff(c) : Eff(c)[p] = "_"} \cup (IF CPath \in Found(c) THEN {CPath} ELSE {})

\* paths the resolver is asked about
Resolved(c) == c.used \ DOMAIN Eff(c)

Digits == <<"1", "2", "3", "4", "5">>
RECURSIVE FirstFree(_, _, _)
FirstFree(pref, taken, k) ==
  IF k > Len(Digits) THEN pref \o "?"
  ELSE IF (pref \o Digits[k]) \notin taken THEN pref \o Digits[k] ELSE FirstFree(pref, taken, k + 1)

\* findAlias(path, preferred) given the names taken so far
FindAlias(c, p, pref0, taken) ==
  LET aliased == pref0 # ""
      res == IF p \in Resolved(c) THEN Pkg[p] ELSE ""
      pref == IF aliased THEN pref0 ELSE res
      cur == IF pref \in taken THEN FirstFree(pref, taken, 1) ELSE pref
  IN [name |-> cur, alias |-> IF ~aliased /\ cur = res THEN "" ELSE cur]

RECURSIVE Assign(_, _, _)
Assign(c, order, acc) ==
  IF order = <<>> THEN acc
  ELSE LET p == Head(order)
           a == IF p \in DOMAIN Eff(c) THEN Eff(c)[p] ELSE ""
           taken == {acc.names[q] : q \in DOMAIN acc.names}
           r == IF a \in {".", "_"} THEN [name |-> "", alias |-> a]
                ELSE IF CFix /\ p = CPath THEN [name |-> "C", alias |-> ""]
                ELSE FindAlias(c, p, a, taken)
       IN Assign(c, Tail(order), [names |-> (p :> r.name) @@ acc.names, alias |-> (p :> r.alias) @@ acc.alias])

Result(c) == LET r == Assign(c, Sorted(Required(c)), [names |-> <<>>, alias |-> <<>>])
             IN [names |-> r.names, alias |-> r.alias, req |-> Required(c)]

-----------------------------------------------------------------------------
(* P-layer, over a result r for configuration c *)
Ordinary(r) == {p \in r.req : r.alias[p] \notin {"_", "."}}
BoundName(r, p) == IF r.alias[p] # "" THEN r.alias[p] ELSE Pkg[p]

\* every used path is imported; ordinary ones bind the qualifier the code uses, dot-imports leave it bare
BoundCorrectly(c, r) ==
  \A p \in c.used : /\ p \in r.req
                    /\ r.alias[p] # "_"
                    /\ IF r.alias[p] = "." THEN r.names[p] = "" ELSE r.names[p] = BoundName(r, p)
\* exactly the referenced paths plus blank and cgo imports
ImportsExact(c, r) ==
  r.req = c.used \cup {p \in Paths : p \in DOMAIN r.alias /\ r.alias[p] = "_"} \cup (IF CPath \in Found(c) THEN {CPath} ELSE {})
\* names bound by ordinary imports are pairwise distinct (and are names)
NamesDistinct(c, r) ==
  \A p, q \in Ordinary(r) : p # q => BoundName(r, p) # BoundName(r, q)
NamesValid(c, r) == \A p \in Ordinary(r) : BoundName(r, p) \notin {"", "1", "2"}
\* override beats source alias beats resolved name; a conflict only appends a digit
Preferred(c, p) == IF c.ov[p] \notin {"unset", "", "_", "."} THEN c.ov[p]
                   ELSE IF c.ov[p] \in {"unset", "_"} /\ c.src[p] \notin {"absent", "", "_", "."} THEN c.src[p]   \* "_" for a used package is ignored
                   ELSE Pkg[p]
AliasPrecedence(c, r) ==
  \A p \in Ordinary(r) \cap c.used : p # CPath =>
      \/ BoundName(r, p) = Preferred(c, p)
      \/ \E k \in DOMAIN Digits : BoundName(r, p) = Preferred(c, p) \o Digits[k]

-----------------------------------------------------------------------------
(* exhaustive exploration: the configuration is built path by path *)
Cfg == [src |-> src, ov |-> ov, used |-> used]
Init == /\ src = [p \in Paths |-> "absent"] /\ ov = [p \in Paths |-> "unset"] /\ used = {}
        /\ todo = Paths /\ done = FALSE
Choose == /\ todo # {} /\ ~done
          /\ LET p == CHOOSE x \in todo : \A y \in todo : Ord[x] <= Ord[y] IN
               /\ \E s \in SrcStates, o \in OvStates, u \in BOOLEAN :
                    /\ (p = CPath => s \in {"absent", ""} /\ o = "unset" /\ ~u)
                    /\ src' = [src EXCEPT ![p] = s] /\ ov' = [ov EXCEPT ![p] = o]
                    /\ used' = IF u THEN used \cup {p} ELSE used
               /\ todo' = todo \ {p}
          /\ UNCHANGED done
Finish == todo = {} /\ ~done /\ done' = TRUE /\ UNCHANGED <<src, ov, used, todo>>
Next == Choose \/ Finish

\* configurations in which the package name is needed but the file says "_" cannot occur (Eff drops them)
InvBound == done => BoundCorrectly(Cfg, Result(Cfg))
InvExact == done => ImportsExact(Cfg, Result(Cfg))
InvDistinct == done => NamesDistinct(Cfg, Result(Cfg))
InvValid == done => NamesValid(Cfg, Result(Cfg))
InvPrecedence == done => AliasPrecedence(Cfg, Result(Cfg))
=============================================================================
