----------------------------- MODULE RenderTrace -----------------------------
(***************************************************************************)
(* C04 -- every decoration is rendered exactly once at its documented       *)
(* attachment point.  Code -> specification:                                *)
(*   {"ev":"tree","tree":T}                 a dst tree (reflection export)  *)
(*   {"ev":"case","ov":[{"n":id,"p":point,"d":[strings]}...],               *)
(*    "items":[{"k":"tok|str|com","text":...}...]}                          *)
(*        the tree was printed by the real restorer with the decorations    *)
(*        `ov` put on top of T; items = go/scanner's view of the output     *)
(*   {"ev":"points","type":t,"names":[...]}  what the per-node listing      *)
(*        helper exposes for a node of type t                               *)
(*    "pitems":[{"k","text","n"}...]  position-sorted items of the restored ast,*)
(*    "strict": bool                                                        *)
(* Separators the printer inserts itself (, and ;) and the bracket shape of *)
(* field lists are normalised away.                                         *)
(***************************************************************************)
EXTENDS Tree, Json, Integers, Sequences, FiniteSets

VARIABLES l, T
Trace == ndJsonDeserialize("trace.ndjson")
Ev == Trace[l]

TInit == l = 1 /\ T = [root |-> 0, nodes |-> <<>>]
TTree == l <= Len(Trace) /\ Ev.ev = "tree" /\ T' = Ev.tree /\ l' = l + 1
TOther == l <= Len(Trace) /\ Ev.ev # "tree" /\ UNCHANGED T /\ l' = l + 1
TNext == TTree \/ TOther

Overlay(ov) ==
  [T EXCEPT !.nodes = [i \in DOMAIN T.nodes |->
     LET mine == {j \in DOMAIN ov : ov[j].n = i}
     IN IF mine = {} THEN T.nodes[i]
        ELSE [T.nodes[i] EXCEPT !.decs = [q \in DOMAIN T.nodes[i].decs |->
                LET hit == {j \in mine : ov[j].p = T.nodes[i].decs[q].p}
                IN IF hit = {} THEN T.nodes[i].decs[q]
                   ELSE [p |-> T.nodes[i].decs[q].p, d |-> ov[CHOOSE j \in hit : TRUE].d]]]]]

Open == {"(", "[", "{"}
Close == {")", "]", "}"}
NormItem(it) ==
  IF it.k = "tok" /\ it.text \in Open THEN [k |-> "tok", text |-> "("]
  ELSE IF it.k = "tok" /\ it.text \in Close THEN [k |-> "tok", text |-> ")"]
  ELSE it
Sep(it) == it.k = "tok" /\ it.text \in {",", ";"}
Norm(items) == LET kept == SelectSeq(items, LAMBDA it : ~Sep(it))
               IN [i \in DOMAIN kept |-> NormItem(kept[i])]

(* go/printer flushes pending comments in front of the next token that has a position; *)
(* a token without one (the "]" of "[]T", the "." of a selector, "=" ...) is written    *)
(* together with its predecessor.  Slide moves comments behind such tokens.             *)
RECURSIVE Slide(_, _)
Slide(items, pending) ==
  IF items = <<>> THEN pending
  ELSE LET it == Head(items) IN
    CASE it.k = "com"  -> Slide(Tail(items), Append(pending, it))
      [] it.k = "tokn" -> <<[k |-> "tok", text |-> it.text]>> \o Slide(Tail(items), pending)
      [] OTHER         -> pending \o <<it>> \o Slide(Tail(items), <<>>)
Expected(ov) == Norm(Slide(RenderItems(Overlay(ov), T.root), <<>>))
NoCom(items) == SelectSeq(items, LAMBDA it : it.k # "com")
ComBag(items) == LET cs == SelectSeq(items, LAMBDA it : it.k = "com")
                 IN [t \in {cs[i].text : i \in DOMAIN cs} |-> Cardinality({i \in DOMAIN cs : cs[i].text = t})]

IsCase == l <= Len(Trace) /\ Ev.ev = "case"

(* the restorer puts every comment at the documented place: in the restored ast the   *)
(* position-sorted sequence of tokens that have a position field, leaf strings and     *)
(* comments is the schema's sequence                                                   *)
PlacedByPosition == IsCase =>
   (Ev.pitems = PosItems(Overlay(Ev.ov), T.root)
      \/ (PrintT("EXPECTED " \o ToJson(PosItems(Overlay(Ev.ov), T.root))) /\ FALSE))

(* the printed text has the schema's token stream and every comment exactly once.  Where *)
(* exactly go/printer puts a comment it cannot keep in place (a line comment in front of *)
(* a token that must stay on the line, a comment inside an import spec) is its business. *)
PrintedOnce == (IsCase /\ Ev.printed) =>
   ((NoCom(Norm(Ev.items)) = NoCom(Expected(Ev.ov)) /\ ComBag(Ev.items) = ComBag(Expected(Ev.ov)))
      \/ (PrintT("EXPECTED " \o ToJson(Expected(Ev.ov))) /\ FALSE))

PointsListed == (l <= Len(Trace) /\ Ev.ev = "points") => Ev.names = Points([type |-> Ev.type])

View == l
Accepted == TLCGet("stats").diameter = Len(Trace) + 1
=============================================================================
