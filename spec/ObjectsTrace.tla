----------------------------- MODULE ObjectsTrace -----------------------------
(***************************************************************************)
(* C18 -- the parser's identifier-resolution graph (identifier -> object ->  *)
(* declaration / data, scopes) before and after conversion.  One record per  *)
(* conversion, both sides exported through the public fields and maps:       *)
(*  {"side":"decorate"|"restore",                                            *)
(*   "a":G, "b":G,   the graph on the input side and on the output side      *)
(*   "omap":[[oa,ob]..] the public Objects map, "smap":[[sa,sb]..] Scopes}   *)
(*  G = {"idents":[obj id or 0, indexed by tree id of the identifier],        *)
(*       "objs":[{"kind","name","decl":tree id | 0 | -2 scope,"declScope",    *)
(*                "data":"nil|int:n|scope|node","dataNode":tree id}..],        *)
(*       "scopes":[{"outer":scope id|0,"names":[..],"members":[obj ids]}..],  *)
(*       "fileScope": scope id | 0}                                           *)
(* Tree ids coincide on both sides (same shape, same traversal).              *)
(*  {"side":"package","scopeA":[names],"scopeB":[names],"errsA":[..],"errsB"} *)
(*  {"side":"reach","a":[..],"b":[..]}  restore with Extras of a tree from    *)
(*   which declarations were removed: every object reachable from the file,   *)
(*   also through declarations that are no longer part of it (Deferred.tla),  *)
(*   in first-visit order, as "kind name declType [objects of the idents of   *)
(*   the declaration]"; a = dst side, b = restored ast side                   *)
(***************************************************************************)
EXTENDS Integers, Sequences, FiniteSets, TLC, Json

VARIABLE l
Trace == ndJsonDeserialize("trace.ndjson")
TInit == l = 1
TNext == l <= Len(Trace) /\ l' = l + 1
Rec == Trace[l]
IsGraph == l <= Len(Trace) /\ Rec.side \in {"decorate", "restore"}
IsPkg == l <= Len(Trace) /\ Rec.side = "package"

OMap(r) == {<<r.omap[i][1], r.omap[i][2]>> : i \in DOMAIN r.omap}
SMap(r) == {<<r.smap[i][1], r.smap[i][2]>> : i \in DOMAIN r.smap}
OImg(r, o) == {p[2] : p \in {q \in OMap(r) : q[1] = o}}
SImg(r, s) == {p[2] : p \in {q \in SMap(r) : q[1] = s}}

\* two identifiers share an object exactly when their counterparts do, and the public map says which
SharingIso == IsGraph =>
  /\ Len(Rec.a.idents) = Len(Rec.b.idents)
  /\ \A i \in DOMAIN Rec.a.idents : (Rec.a.idents[i] = 0) <=> (Rec.b.idents[i] = 0)
  /\ \A i \in DOMAIN Rec.a.idents : Rec.a.idents[i] # 0 => OImg(Rec, Rec.a.idents[i]) = {Rec.b.idents[i]}
  /\ \A i, j \in DOMAIN Rec.a.idents : (Rec.a.idents[i] # 0 /\ Rec.a.idents[j] # 0) =>
        ((Rec.a.idents[i] = Rec.a.idents[j]) <=> (Rec.b.idents[i] = Rec.b.idents[j]))

\* each object keeps kind, name and data; its declaration link points to the counterpart of the declaring node
ObjectsCarried == IsGraph =>
  \A p \in OMap(Rec) :
     LET oa == Rec.a.objs[p[1]] ob == Rec.b.objs[p[2]] IN
       /\ oa.kind = ob.kind /\ oa.name = ob.name /\ oa.data = ob.data
       /\ oa.decl = ob.decl
       /\ oa.dataNode = ob.dataNode
       /\ (oa.declScope # 0 => SImg(Rec, oa.declScope) = {ob.declScope})

\* scope nesting and membership are preserved
ScopesCarried == IsGraph =>
  /\ (Rec.a.fileScope = 0) <=> (Rec.b.fileScope = 0)
  /\ Rec.a.fileScope # 0 => SImg(Rec, Rec.a.fileScope) = {Rec.b.fileScope}
  /\ \A p \in SMap(Rec) :
       LET sa == Rec.a.scopes[p[1]] sb == Rec.b.scopes[p[2]] IN
         /\ sa.names = sb.names
         /\ (sa.outer = 0) <=> (sb.outer = 0)
         /\ sa.outer # 0 => SImg(Rec, sa.outer) = {sb.outer}
         /\ \A k \in DOMAIN sa.members : OImg(Rec, sa.members[k]) = {sb.members[k]}

\* building a package from decorated files: same package scope, same reports (positions aside)
PackageSame == IsPkg => (Rec.scopeA = Rec.scopeB /\ Rec.errsA = Rec.errsB)

\* the graph reachable through declarations outside the file is rebuilt as well
IsReach == l <= Len(Trace) /\ Rec.side = "reach"
ReachCarried == IsReach => Rec.a = Rec.b

Accepted == TLCGet("stats").diameter = Len(Trace) + 1
=============================================================================
