-------------------------------- MODULE Objects --------------------------------
(***************************************************************************)
(* C18 -- converting the parser's cyclic identifier / object / declaration   *)
(* graph with memo maps (decorateNode / decorateObject in decorator.go, and  *)
(* the same shape in the restorer).                                          *)
(*   par[n]    parent of node n (0 for the root, node 1)                     *)
(*   objOf[n]  object the identifier n denotes (0: n is no identifier / none) *)
(*   declOf[o] node that declares object o (any node: cycles are allowed)    *)
(* The machine is the call stack: frames [k |-> "node"|"obj", id, rest]      *)
(* with rest = children still to convert.  memoN / memoO are Dst.Nodes and   *)
(* Dst.Objects; an entry is made BEFORE descending (Variant = "code") or     *)
(* after returning (Variant = "memo-late", which never terminates on a       *)
(* cycle).                                                                   *)
(***************************************************************************)
EXTENDS Integers, Sequences, FiniteSets, TLC

CONSTANTS N, M, Variant
VARIABLES par, objOf, declOf, stack, memoN, memoO, convN, convO, done
vars == <<par, objOf, declOf, stack, memoN, memoO, convN, convO, done>>

Nodes == 1..N
Objs == 1..M
Kids(n) == LET cs == {c \in Nodes : par[c] = n}
           IN [k \in 1..Cardinality(cs) |-> CHOOSE c \in cs : Cardinality({d \in cs : d < c}) = k - 1]

Init == /\ par \in {p \in [Nodes -> 0..(N - 1)] : p[1] = 0 /\ \A i \in 2..N : p[i] >= 1 /\ p[i] < i}
        /\ objOf \in [Nodes -> 0..M]
        /\ declOf \in [Objs -> Nodes]
        /\ stack = <<[k |-> "node", id |-> 1, rest |-> <<>>, fresh |-> TRUE]>>
        /\ memoN = {} /\ memoO = {} /\ convN = [n \in Nodes |-> 0] /\ convO = [o \in Objs |-> 0] /\ done = FALSE

Top == stack[Len(stack)]
Pop == SubSeq(stack, 1, Len(stack) - 1)
Push(f) == Append(stack, f)
SetTop(f) == [stack EXCEPT ![Len(stack)] = f]

\* entering decorateNode(n)
EnterNode ==
  /\ ~done /\ stack # <<>> /\ Top.k = "node" /\ Top.fresh
  /\ LET n == Top.id IN
     IF n \in memoN
     THEN /\ stack' = Pop /\ UNCHANGED <<memoN, convN>>                     \* memo hit
     ELSE /\ convN' = [convN EXCEPT ![n] = @ + 1]
          /\ memoN' = IF Variant = "code" THEN memoN \cup {n} ELSE memoN
          /\ stack' = SetTop([k |-> "node", id |-> n, fresh |-> FALSE,
                              rest |-> (IF objOf[n] # 0 THEN <<[k |-> "obj", id |-> objOf[n]]>> ELSE <<>>)
                                       \o [j \in 1..Len(Kids(n)) |-> [k |-> "node", id |-> Kids(n)[j]]]])
  /\ UNCHANGED <<par, objOf, declOf, memoO, convO, done>>

\* entering decorateObject(o)
EnterObj ==
  /\ ~done /\ stack # <<>> /\ Top.k = "obj" /\ Top.fresh
  /\ LET o == Top.id IN
     IF o \in memoO
     THEN /\ stack' = Pop /\ UNCHANGED <<memoO, convO>>
     ELSE /\ convO' = [convO EXCEPT ![o] = @ + 1]
          /\ memoO' = IF Variant = "code" THEN memoO \cup {o} ELSE memoO
          /\ stack' = SetTop([k |-> "obj", id |-> o, fresh |-> FALSE, rest |-> <<[k |-> "node", id |-> declOf[o]]>>])
  /\ UNCHANGED <<par, objOf, declOf, memoN, convN, done>>

\* the next callee of the frame on top, or return
Step ==
  /\ ~done /\ stack # <<>> /\ ~Top.fresh
  /\ IF Top.rest = <<>>
     THEN /\ stack' = Pop
          /\ memoN' = IF Top.k = "node" THEN memoN \cup {Top.id} ELSE memoN
          /\ memoO' = IF Top.k = "obj" THEN memoO \cup {Top.id} ELSE memoO
     ELSE /\ stack' = Append(SetTop([Top EXCEPT !.rest = Tail(@)]), [k |-> Head(Top.rest).k, id |-> Head(Top.rest).id, rest |-> <<>>, fresh |-> TRUE])
          /\ UNCHANGED <<memoN, memoO>>
  /\ UNCHANGED <<par, objOf, declOf, convN, convO, done>>

Finish == ~done /\ stack = <<>> /\ done' = TRUE /\ UNCHANGED <<par, objOf, declOf, stack, memoN, memoO, convN, convO>>
Next == EnterNode \/ EnterObj \/ Step \/ Finish
Spec == Init /\ [][Next]_vars

\* the conversion terminates: the call stack never grows beyond one frame per node and object
Bounded == Len(stack) <= N + M + 1
\* every node and object is converted at most once, whatever the cycles
ConvertedOnce == (\A n \in Nodes : convN[n] <= 1) /\ (\A o \in Objs : convO[o] <= 1)
\* at the end every node of the tree and every object reachable from it has a counterpart
Complete == done => /\ \A n \in Nodes : convN[n] = 1
                    /\ \A n \in Nodes : objOf[n] # 0 => convO[objOf[n]] = 1
=============================================================================
