----------------------------- MODULE WalkSchema -----------------------------
(***************************************************************************)
(* C13 -- the traversal order of ONE node of every type, for every          *)
(* combination of present and absent children, derived from the node        *)
(* description table (NodeSchema.tla) and from nothing else.                 *)
(*                                                                          *)
(* Walk.tla is the stack machine over an arbitrary ordered tree; what it     *)
(* takes as given is kidsOf[i], the ordered children of a node.  This        *)
(* module states where that order comes from: the child parts of the node's  *)
(* schema row, in row order (= source order), a part reached through         *)
(* FuncDecl.Type standing for the one child Type, parts that are not         *)
(* rendered (File.Imports) and non-node parts (objects, scopes, maps) left   *)
(* out.  A child that is absent (nil pointer, nil interface, empty list) is  *)
(* simply not in the sequence: presence of one child never decides whether   *)
(* another one is visited (a range statement with a value and no key still   *)
(* visits the value; a field without a type still visits its names and tag). *)
(*                                                                          *)
(* The model has no behaviour beyond choosing (type, present children); the  *)
(* invariant Emit prints, for every choice, the sequence the real Walk and   *)
(* Inspect have to produce on a hand-built node of that shape.  The harness  *)
(* builds each node from zero values, runs the real traversals and compares  *)
(* (c13HandBuilt); combinations go/ast itself cannot walk (a required child  *)
(* is nil) are skipped there.                                               *)
(***************************************************************************)
EXTENDS NodeSchema, Json, TLC

CONSTANT Variant          \* "schema" | "value-needs-key" | "type-required" (wrong transcriptions, shown rejected)
VARIABLES typ, present
vars == <<typ, present>>

Walked == NodeTypes \ {"Package"}      \* a Package's files are a map: Walk.tla's ordered children do not apply

IsChild(p) == p.k \in {"node", "list"} /\ ~p.nr
Top(p) == IF p.via = "" THEN p.field ELSE p.via

\* the ordered, duplicate-free sequence of child field names of a node type
RECURSIVE Dedup(_, _)
Dedup(s, seen) == IF s = <<>> THEN <<>>
                  ELSE IF Head(s) \in seen THEN Dedup(Tail(s), seen)
                  ELSE <<Head(s)>> \o Dedup(Tail(s), seen \cup {Head(s)})
RECURSIVE ChildFields(_)
ChildFields(row) == IF row = <<>> THEN <<>>
                    ELSE (IF IsChild(Head(row)) THEN <<Top(Head(row))>> ELSE <<>>) \o ChildFields(Tail(row))
Children(t) == Dedup(ChildFields(Schema[t]), {})
IsList(t, f) == \E i \in DOMAIN Schema[t] : Schema[t][i].k = "list" /\ Schema[t][i].via = "" /\ Schema[t][i].field = f

ChildSet(t) == {Children(t)[i] : i \in DOMAIN Children(t)}

Init == typ \in Walked /\ present \in SUBSET ChildSet(typ)
Next == UNCHANGED vars

\* is child f of a node of type t with the children pr visited?
Visited(t, pr, f) ==
  /\ f \in pr
  /\ (Variant = "value-needs-key" /\ t = "RangeStmt" /\ f = "Value") => "Key" \in pr
Order(t, pr) == LET RECURSIVE Sel(_)
                    Sel(s) == IF s = <<>> THEN <<>>
                              ELSE (IF Visited(t, pr, Head(s)) THEN <<[f |-> Head(s), list |-> IsList(t, Head(s))]>> ELSE <<>>) \o Sel(Tail(s))
                IN Sel(Children(t))

\* every present child is visited, exactly once, in schema order -- and nothing else
Complete == {Order(typ, present)[i].f : i \in DOMAIN Order(typ, present)} = present
Once == \A i, j \in DOMAIN Order(typ, present) : Order(typ, present)[i].f = Order(typ, present)[j].f => i = j
\* a node whose required child is absent is no tree ("type-required": the transcription of the code before
\* the repair 94c91bb, where a Field had to have a Type)
Walkable == ~(Variant = "type-required" /\ typ = "Field" /\ "Type" \notin present)
OptionalAreOptional == (typ = "Field") => Walkable

Emit == PrintT("BEH " \o ToJson([type |-> typ, present |-> present, order |-> Order(typ, present)]))
=============================================================================
