-------------------------------- MODULE Resolve --------------------------------
(***************************************************************************)
(* C09 -- which identifiers get a package path.                              *)
(*                                                                           *)
(* (a) The syntax-based resolver (decorator/resolver/goast) builds a table   *)
(* name -> path from the import specs in front of the first other            *)
(* declaration: a spec is skipped ("C", "_"), refused (".") or entered       *)
(* under its alias or resolved package name; a second entry for a name is    *)
(* refused.  An identifier Sel in X.Sel gets table[X] when X is a plain      *)
(* identifier the parser did not bind to a declaration of the file.          *)
(*                                                                           *)
(* (b) The types-based rule, by the role go/types gives the identifier:      *)
(*   qualified   Sel of a selector whose X denotes an imported package       *)
(*   dotuse      a use of a package-level object of another package with no  *)
(*               qualifier (dot-import)                                      *)
(*   local       a use of a package-level object of the file's own package   *)
(*               (a path only with ResolveLocalPath)                          *)
(*   anything else (function-local, universe, field, method, label,          *)
(*   declaring, package name itself) gets no path.                           *)
(***************************************************************************)
EXTENDS Integers, Sequences, FiniteSets, TLC

CONSTANTS Names, ImpPaths, MaxSpecs
VARIABLES specs, done
vars == <<specs, done>>

\* one import spec: alias "" (use the resolved name), a name, "_" or "."; path; resolved package name
SpecSet == [alias : Names \cup {"", "_", "."}, path : ImpPaths, name : Names]

RECURSIVE Table(_, _)
Table(ss, acc) ==
  IF ss = <<>> THEN acc
  ELSE LET s == Head(ss) IN
    IF acc.err THEN acc
    ELSE IF s.path = "C" \/ s.alias = "_" THEN Table(Tail(ss), acc)
    ELSE IF s.alias = "." THEN [acc EXCEPT !.err = TRUE]
    ELSE LET n == IF s.alias = "" THEN s.name ELSE s.alias IN
         IF n = "" THEN [acc EXCEPT !.err = TRUE]          \* the package name of the path cannot be resolved
         ELSE IF n \in DOMAIN acc.t THEN [acc EXCEPT !.err = TRUE]
         ELSE Table(Tail(ss), [acc EXCEPT !.t = (n :> s.path) @@ acc.t])

GoastTable(ss) == Table(ss, [t |-> <<>>, err |-> FALSE])

\* the resolver cannot decide when a dot-import is present or two entered specs share a name
Entered(s) == s.path # "C" /\ s.alias \notin {"_", "."}
EffName(s) == IF s.alias = "" THEN s.name ELSE s.alias
Undecidable(ss) ==
  \/ \E i \in DOMAIN ss : ss[i].path # "C" /\ ss[i].alias = "."
  \/ \E i \in DOMAIN ss : Entered(ss[i]) /\ EffName(ss[i]) = ""
  \/ \E i, j \in DOMAIN ss : i < j /\ Entered(ss[i]) /\ Entered(ss[j]) /\ EffName(ss[i]) = EffName(ss[j])

Init == specs = <<>> /\ done = FALSE
Add == ~done /\ Len(specs) < MaxSpecs /\ \E s \in SpecSet : specs' = Append(specs, s) /\ UNCHANGED done
Finish == ~done /\ done' = TRUE /\ UNCHANGED specs
Next == Add \/ Finish

\* never a guess: an error exactly when it cannot decide
RefusesExactly == done => (GoastTable(specs).err <=> Undecidable(specs))
TableSound == done => LET r == GoastTable(specs) IN ~r.err =>
   \A n \in DOMAIN r.t : \E i \in DOMAIN specs : specs[i].path = r.t[n] /\ (IF specs[i].alias = "" THEN specs[i].name ELSE specs[i].alias) = n

\* (b) the classification
\* resolveLocal is Decorator.ResolveLocalPath: package-level objects of the local package keep their path
ExpectedPath(role, objPath, localPath, resolveLocal) ==
  IF role \in {"qualified", "dotuse"} /\ objPath # localPath THEN objPath
  ELSE IF role = "local" /\ resolveLocal THEN localPath
  ELSE ""
=============================================================================
