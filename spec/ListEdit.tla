------------------------------- MODULE ListEdit -------------------------------
(***************************************************************************)
(* C02 -- editing sibling lists.  Two lists of the same kind hold chunks    *)
(* (an element with its directly preceding comment lines and its trailing   *)
(* same-line comment); ids 1..N are the chunks of list "a", N+1..2N those   *)
(* of list "b"; a duplicate made with Clone gets the id of its source plus  *)
(* 100*k.  The property: after any sequence of edits each list prints as    *)
(* the concatenation of its chunks, in order - nothing lost, duplicated or  *)
(* re-homed.  The behaviours (edit histories with the resulting lists) are  *)
(* emitted for replay on the real slices.                                   *)
(***************************************************************************)
EXTENDS Integers, Sequences, FiniteSets, TLC, Json

CONSTANTS N, MaxEdits, MaxLen, EmitHist
VARIABLES a, b, hist, dups
vars == <<a, b, hist, dups>>

Init == a = [i \in 1..N |-> i] /\ b = [i \in 1..N |-> N + i] /\ hist = <<>> /\ dups = 0

RemoveAt(s, i) == [k \in 1..(Len(s) - 1) |-> IF k < i THEN s[k] ELSE s[k + 1]]
InsertAt(s, i, x) == [k \in 1..(Len(s) + 1) |-> IF k < i THEN s[k] ELSE IF k = i THEN x ELSE s[k - 1]]
Swapped(s, i, j) == [s EXCEPT ![i] = s[j], ![j] = s[i]]

Can == Len(hist) < MaxEdits
Log(op) == hist' = Append(hist, op @@ [ra |-> a', rb |-> b'])

Swap(l, i, j) ==
  /\ Can /\ i < j
  /\ IF l = "a" THEN j <= Len(a) /\ a' = Swapped(a, i, j) /\ b' = b ELSE j <= Len(b) /\ b' = Swapped(b, i, j) /\ a' = a
  /\ dups' = dups /\ Log([op |-> "swap", l |-> l, i |-> i, j |-> j])
Delete(l, i) ==
  /\ Can
  /\ IF l = "a" THEN i <= Len(a) /\ Len(a) > 1 /\ a' = RemoveAt(a, i) /\ b' = b ELSE i <= Len(b) /\ Len(b) > 1 /\ b' = RemoveAt(b, i) /\ a' = a
  /\ dups' = dups /\ Log([op |-> "delete", l |-> l, i |-> i, j |-> 0])
\* duplicate element i of list l with Clone and insert the copy at position j of the same list
Dup(l, i, j) ==
  /\ Can
  /\ IF l = "a" THEN i <= Len(a) /\ j <= Len(a) + 1 /\ Len(a) < MaxLen /\ a' = InsertAt(a, j, a[i] + 100 * (dups + 1)) /\ b' = b
     ELSE i <= Len(b) /\ j <= Len(b) + 1 /\ Len(b) < MaxLen /\ b' = InsertAt(b, j, b[i] + 100 * (dups + 1)) /\ a' = a
  /\ dups' = dups + 1 /\ Log([op |-> "dup", l |-> l, i |-> i, j |-> j])
\* move element i of list l to position j of the other list
Move(l, i, j) ==
  /\ Can
  /\ IF l = "a" THEN i <= Len(a) /\ Len(a) > 1 /\ j <= Len(b) + 1 /\ Len(b) < MaxLen /\ a' = RemoveAt(a, i) /\ b' = InsertAt(b, j, a[i])
     ELSE i <= Len(b) /\ Len(b) > 1 /\ j <= Len(a) + 1 /\ Len(a) < MaxLen /\ b' = RemoveAt(b, i) /\ a' = InsertAt(a, j, b[i])
  /\ dups' = dups /\ Log([op |-> "move", l |-> l, i |-> i, j |-> j])

Next == \E l \in {"a", "b"}, i \in 1..MaxLen, j \in 1..(MaxLen + 1) : Swap(l, i, j) \/ Delete(l, i) \/ Dup(l, i, j) \/ Move(l, i, j)
Spec == Init /\ [][Next]_vars

Base(x) == x % 100
\* nothing is lost or invented: every chunk in a list is an original or a clone of one; originals occur at most once
Conserved == \A x \in {a[i] : i \in DOMAIN a} \cup {b[i] : i \in DOMAIN b} : Base(x) \in 1..(2 * N)
OriginalsOnce == \A x \in 1..(2 * N) : Cardinality({i \in DOMAIN a : a[i] = x}) + Cardinality({i \in DOMAIN b : b[i] = x}) <= 1
Emit == (EmitHist /\ Len(hist) = MaxEdits) => PrintT("BEH " \o ToJson(hist))
=============================================================================
