------------------------------ MODULE LinkMCB ------------------------------
(***************************************************************************)
(* C01 C02 -- the layout space inside TLC, second construct: a block of     *)
(* statements, some of which end on a continuation line.                    *)
(*                                                                          *)
(*     {                        <- gap                                      *)
(*         x()                  a statement on one line, or                 *)
(*         foo(a,               a statement that ends one column deeper     *)
(*             b)               than it starts: link()'s hanging-indent     *)
(*                              <- gap     rule applies behind it           *)
(*         ...                                                              *)
(*     }                                                                    *)
(*                                                                          *)
(* shape[i] = TRUE: statement i is the two-line call.  Gaps are as in       *)
(* LinkMC: entries [e, c], c an own-line comment at the indentation of the  *)
(* statements (2) or of the continuation line (3), a trailing comment, or   *)
(* "end".  Checked on every layout: no panic state, every comment attached  *)
(* exactly once, the line skeleton reproduced; layouts are emitted for the  *)
(* comparison with the real decorator (fragment lists and attachments).     *)
(***************************************************************************)
EXTENDS Link, Json

CONSTANTS MaxStmts, MaxComs, EmitHist
VARIABLES shape, gaps, gi, ncom, phase
mvars == <<shape, gaps, gi, ncom, phase>>

OwnKinds == {"L2", "L3", "B2", "B3"}
TrailKinds == {"TL", "TB"}
NumGaps == Len(shape) + 1

Init == shape = <<>> /\ gaps = <<>> /\ gi = 0 /\ ncom = 0 /\ phase = "shape"
AddStmt == phase = "shape" /\ Len(shape) < MaxStmts /\ \E b \in BOOLEAN : shape' = Append(shape, b) /\ UNCHANGED <<gaps, gi, ncom, phase>>
StartGaps == phase = "shape" /\ Len(shape) >= 1 /\ phase' = "gaps" /\ gaps' = [i \in 1..NumGaps |-> <<>>] /\ gi' = 1 /\ UNCHANGED <<shape, ncom>>
Put == /\ phase = "gaps"
       /\ \E e \in BOOLEAN, c \in OwnKinds \cup TrailKinds \cup {"end"} :
            /\ c \in TrailKinds => (gaps[gi] = <<>> /\ ~e)
            /\ c # "end" => ncom < MaxComs
            /\ gaps' = [gaps EXCEPT ![gi] = Append(@, [e |-> e, c |-> c])]
            /\ ncom' = IF c = "end" THEN ncom ELSE ncom + 1
            /\ gi' = IF c = "end" THEN gi + 1 ELSE gi
            /\ phase' = IF c = "end" /\ gi = NumGaps THEN "done" ELSE "gaps"
       /\ UNCHANGED shape
Next == AddStmt \/ StartGaps \/ Put

-----------------------------------------------------------------------------
Frag(k, n, name) == [k |-> k, node |-> n, name |-> name, line |-> FALSE, empty |-> FALSE, indent |-> 0,
                     sd |-> FALSE, lab |-> FALSE, clause |-> FALSE, si |-> 0, ei |-> 0, dup |-> FALSE]
Dec(n, name, sd, si, ei) == [Frag("dec", n, name) EXCEPT !.sd = sd, !.si = si, !.ei = ei]
Tok(n) == Frag("tok", n, "")
Str(n) == Frag("str", n, "")
Com(line, ind) == [Frag("com", 0, "") EXCEPT !.line = line, !.indent = ind]
Nl(e) == [Frag("nl", 0, "") EXCEPT !.empty = e]

RECURSIVE GapFrags(_, _)
GapFrags(g, li) ==
  IF g = <<>> THEN <<>>
  ELSE LET x == Head(g) IN
    (CASE x.c = "TL" -> << Com(TRUE, li) >>
       [] x.c = "TB" -> << Com(FALSE, li) >>
       [] x.c = "end" -> << Nl(x.e) >>
       [] x.c = "L2" -> << Nl(x.e), Com(TRUE, 2) >>
       [] x.c = "L3" -> << Nl(x.e), Com(TRUE, 3) >>
       [] x.c = "B2" -> << Nl(x.e), Com(FALSE, 2) >>
       [] x.c = "B3" -> << Nl(x.e), Com(FALSE, 3) >>) \o GapFrags(Tail(g), li)

Ident(n, ind) == << Dec(n, "Start", FALSE, ind, ind), Dec(n, "X", FALSE, ind, ind), Str(n), Dec(n, "End", FALSE, ind, ind) >>

\* x() : ExprStmt n, CallExpr n+1, Ident n+2
OneLine(n) ==
  << Dec(n, "Start", TRUE, 2, 2), Dec(n + 1, "Start", FALSE, 2, 2) >> \o Ident(n + 2, 2)
  \o << Dec(n + 1, "Fun", FALSE, 2, 2), Tok(n + 1), Dec(n + 1, "Lparen", FALSE, 2, 2), Tok(n + 1),
        Dec(n + 1, "End", FALSE, 2, 2), Dec(n, "End", TRUE, 2, 2) >>
\* foo(a,⏎b) : ExprStmt n, CallExpr n+1, Ident foo n+2, Ident a n+3, Ident b n+4; the statement ends at indentation 3
TwoLine(n) ==
  << Dec(n, "Start", TRUE, 2, 3), Dec(n + 1, "Start", FALSE, 2, 3) >> \o Ident(n + 2, 2)
  \o << Dec(n + 1, "Fun", FALSE, 2, 3), Tok(n + 1), Dec(n + 1, "Lparen", FALSE, 2, 3) >> \o Ident(n + 3, 2)
  \o << Nl(FALSE) >> \o Ident(n + 4, 3)
  \o << Tok(n + 1), Dec(n + 1, "End", FALSE, 2, 3), Dec(n, "End", TRUE, 2, 3) >>

RECURSIVE StmtsFrags(_, _, _, _)
StmtsFrags(s, n, g, gs) ==
  IF s = <<>> THEN <<>>
  ELSE (IF Head(s) THEN TwoLine(n) ELSE OneLine(n))
       \o GapFrags(gs[g], IF Head(s) THEN 3 ELSE 2)
       \o StmtsFrags(Tail(s), n + (IF Head(s) THEN 5 ELSE 3), g + 1, gs)

\* BlockStmt = node 1 (the body of func f, at indentation 1)
Build(s, gs) ==
  << Dec(1, "Start", TRUE, 1, 1), Tok(1), Dec(1, "Lbrace", TRUE, 1, 1) >>
  \o GapFrags(gs[1], 1)
  \o StmtsFrags(s, 2, 2, gs)
  \o << Tok(1), Dec(1, "End", TRUE, 1, 1) >>

Done == phase = "done"
NoPanic == Done => NoPanicF(Build(shape, gaps))
AllAttached == Done => AllAttachedF(Build(shape, gaps))
RoundTrip == Done => RoundTripF(Build(shape, gaps))
FragRow(f) == <<f.k, f.node, f.name, f.line, f.empty, f.indent, f.sd, f.clause, f.si, f.ei>>
Emit == Done =>
  CASE EmitHist = "layouts" -> PrintT("BEH " \o ToJson([shape |-> shape, gaps |-> gaps]))
    [] EmitHist = "frags" -> LET F == Build(shape, gaps) IN
         PrintT("BEH " \o ToJson([shape |-> shape, gaps |-> gaps, frags |-> [i \in 1..Len(F) |-> FragRow(F[i])]]))
    [] OTHER -> TRUE
=============================================================================
