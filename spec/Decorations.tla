---------------------------- MODULE Decorations ----------------------------
(***************************************************************************)
(* C19 -- dst.Decorations as a plain ordered list of strings, with an      *)
(* explicit model of Go slices (backing array, len, cap) so that aliasing   *)
(* between the list under test and the caller's argument slices is state.   *)
(*                                                                          *)
(* heap[a]  : backing array a (a sequence of cells, length = capacity)      *)
(* d        : the Decorations value under test, a slice [arr, len, cap]     *)
(*            (arr = 0 is the nil slice)                                    *)
(* args[i]  : the i-th slice the caller built and still holds               *)
(* shadow[i]: what the caller believes its backing array contains (only     *)
(*            caller actions update it)                                     *)
(* model    : the plain ordered list the property talks about               *)
(* snap     : the last result of All() the caller still holds: the slice    *)
(*            that was returned and the list it showed at that time         *)
(* hist     : the behaviour, for replay on the real type (kept out of the   *)
(*            fingerprint by VIEW in the model-checking configuration)      *)
(*                                                                          *)
(* Variant selects the transcription: "code" is decorations.go as it        *)
(* stands; the other values are the classic mistakes, kept so that TLC can  *)
(* show the invariants are not vacuous (selftest).                          *)
(***************************************************************************)
EXTENDS Integers, Sequences, FiniteSets, TLC, Json

CONSTANTS MaxOps,      \* bound on the number of actions in a behaviour
          MaxArgs,     \* bound on caller slices alive
          Lens,        \* set of argument lengths
          Spares,      \* set of spare capacities of argument slices
          Extras,      \* growth slack explored on reallocation (subset of 0..1)
          Variant,     \* "code" | "prepend-nocopy" | "replace-nocopy" | "append-arg-first" | "replace-inplace" | "clear-keep" | "prepend-inplace"
          EmitHist,    \* TRUE in the generation configuration
          EmitFilter   \* "all" | "snap": only behaviours in which a result of All() is held across a Replace
                       \* | "clear": ... across a Clear that is followed by an Append
                       \* | "prepend": ... across a Prepend, after two Appends (which leave spare capacity)

VARIABLES heap, d, args, shadow, model, fresh, hist, snap

vars == <<heap, d, args, shadow, model, fresh, hist, snap>>
view == <<heap, d, args, shadow, model, fresh, Len(hist), snap>>

Nil == [arr |-> 0, len |-> 0, cap |-> 0]
Blank == "-"                       \* content of a never-written cell

Content(s) == IF s.arr = 0 THEN <<>> ELSE SubSeq(heap[s.arr], 1, s.len)
NewArr == Cardinality(DOMAIN heap) + 1
Val(n) == "/*v" \o ToString(n) \o "*/"

(* Go's append(s, xs...): in place if the capacity suffices, else a new    *)
(* array; the growth policy is left open (extra \in 0..1).                 *)
GoAppend(h, s, xs, extra) ==
  LET need == s.len + Len(xs) IN
  IF Len(xs) = 0 THEN [h |-> h, s |-> s]
  ELSE IF s.arr # 0 /\ need <= s.cap
  THEN [h |-> [h EXCEPT ![s.arr] = [k \in 1..Len(@) |-> IF k > s.len /\ k <= need THEN xs[k - s.len] ELSE @[k]]],
        s |-> [s EXCEPT !.len = need]]
  ELSE LET a == Cardinality(DOMAIN h) + 1
           old == IF s.arr = 0 THEN <<>> ELSE SubSeq(h[s.arr], 1, s.len)
           cells == old \o xs \o [k \in 1..extra |-> Blank]
       IN [h |-> (a :> cells) @@ h, s |-> [arr |-> a, len |-> need, cap |-> need + extra]]

Init == /\ heap = <<>>
        /\ d = Nil
        /\ args = <<>>
        /\ shadow = <<>>
        /\ model = <<>>
        /\ fresh = 1
        /\ hist = <<>>
        /\ snap = [s |-> Nil, was |-> <<>>]

Rec(op, a, extra) == [op |-> op, arg |-> a, extra |-> extra]
Log(r) == hist' = Append(hist, r @@ [expect |-> model', argsAfter |-> [i \in DOMAIN shadow' |-> shadow'[i]]])

CanStep == Len(hist) < MaxOps

(* caller builds a new slice of length n with s spare cells *)
NewArg(n, s) ==
  /\ snap' = snap
  /\ CanStep /\ Len(args) < MaxArgs /\ n + s > 0
  /\ LET a == NewArr
         cells == [k \in 1..(n + s) |-> IF k <= n THEN Val(fresh + k - 1) ELSE Blank]
     IN /\ heap' = (a :> cells) @@ heap
        /\ args' = Append(args, [arr |-> a, len |-> n, cap |-> n + s])
        /\ shadow' = Append(shadow, cells)
  /\ fresh' = fresh + n
  /\ UNCHANGED <<d, model>>
  /\ Log([op |-> "NewArg", arg |-> Len(args) + 1, len |-> n, spare |-> s, extra |-> 0])

ArgVal(i) == SubSeq(heap[args[i].arr], 1, args[i].len)
EmptyArg == 0                      \* calling with no arguments at all

ArgSeq(i) == IF i = EmptyArg THEN <<>> ELSE ArgVal(i)
ArgChoices == {EmptyArg} \cup DOMAIN args

DoAppend(i, extra) ==
  /\ snap' = snap
  /\ CanStep
  /\ LET r == IF Variant = "append-arg-first" /\ i # EmptyArg
              THEN GoAppend(heap, args[i], Content(d), extra)     \* wrong: append(decs, *d...)
              ELSE GoAppend(heap, d, ArgSeq(i), extra)
     IN heap' = r.h /\ d' = r.s
  /\ model' = model \o ArgSeq(i)
  /\ UNCHANGED <<args, shadow, fresh>>
  /\ Log(Rec("Append", i, extra))

DoPrepend(i, extra) ==
  /\ snap' = snap
  /\ CanStep
  /\ LET base == IF Variant = "prepend-nocopy" /\ i # EmptyArg
                 THEN [h |-> heap, s |-> args[i]]                  \* wrong: append(decs, *d...)
                 ELSE GoAppend(heap, Nil, ArgSeq(i), 0)            \* append([]string{}, decs...)
         r == GoAppend(base.h, base.s, Content(d), extra)
         \* wrong: grow once, shift the old elements up, copy the new ones in front (in place when the
         \* capacity suffices)
         n == Len(ArgSeq(i))
         inplace == Variant = "prepend-inplace" /\ d.arr # 0 /\ n > 0 /\ d.len + n <= d.cap
         shifted == [k \in 1..Len(heap[d.arr]) |->
                       IF k <= n THEN ArgSeq(i)[k] ELSE IF k <= d.len + n THEN heap[d.arr][k - n] ELSE heap[d.arr][k]]
     IN IF inplace THEN heap' = [heap EXCEPT ![d.arr] = shifted] /\ d' = [d EXCEPT !.len = d.len + n]
        ELSE heap' = r.h /\ d' = r.s
  /\ model' = ArgSeq(i) \o model
  /\ UNCHANGED <<args, shadow, fresh>>
  /\ Log(Rec("Prepend", i, extra))

DoReplace(i, extra) ==
  /\ snap' = snap
  /\ CanStep
  /\ LET r == IF Variant = "replace-nocopy" /\ i # EmptyArg
              THEN [h |-> heap, s |-> args[i]]                     \* wrong: *d = decs
              ELSE IF Variant = "replace-inplace"
              THEN GoAppend(heap, [d EXCEPT !.len = 0], ArgSeq(i), extra)   \* wrong: append((*d)[:0], decs...)
              ELSE GoAppend(heap, Nil, ArgSeq(i), extra)
     IN heap' = r.h /\ d' = r.s
  /\ model' = ArgSeq(i)
  /\ UNCHANGED <<args, shadow, fresh>>
  /\ Log(Rec("Replace", i, extra))

DoClear ==
  /\ snap' = snap
  /\ CanStep
  /\ d' = (IF Variant = "clear-keep" THEN [d EXCEPT !.len = 0] ELSE Nil)     \* wrong: *d = (*d)[:0]
  /\ model' = <<>>
  /\ UNCHANGED <<heap, args, shadow, fresh>>
  /\ Log(Rec("Clear", 0, 0))

(* the caller overwrites element k of a slice it passed (or will pass) *)
CallerMutate(i, k) ==
  /\ snap' = snap
  /\ CanStep /\ i \in DOMAIN args /\ k \in 1..args[i].len
  /\ heap' = [heap EXCEPT ![args[i].arr][k] = Val(fresh)]
  /\ shadow' = [shadow EXCEPT ![i][k] = Val(fresh)]
  /\ fresh' = fresh + 1
  /\ UNCHANGED <<d, args, model>>
  /\ Log([op |-> "CallerMutate", arg |-> i, idx |-> k, extra |-> 0])

(* the caller appends in place into the spare capacity of its own slice *)
CallerGrow(i) ==
  /\ snap' = snap
  /\ CanStep /\ i \in DOMAIN args /\ args[i].len < args[i].cap
  /\ heap' = [heap EXCEPT ![args[i].arr][args[i].len + 1] = Val(fresh)]
  /\ shadow' = [shadow EXCEPT ![i][args[i].len + 1] = Val(fresh)]
  /\ args' = [args EXCEPT ![i].len = @ + 1]
  /\ fresh' = fresh + 1
  /\ UNCHANGED <<d, model>>
  /\ Log([op |-> "CallerGrow", arg |-> i, extra |-> 0])

(* the caller calls All() and keeps the result *)
TakeAll ==
  /\ CanStep
  /\ snap' = [s |-> d, was |-> model]
  /\ UNCHANGED <<heap, d, args, shadow, model, fresh>>
  /\ Log([op |-> "All", arg |-> 0, extra |-> 0])

Next ==
  \/ TakeAll
  \/ \E n \in Lens, s \in Spares : NewArg(n, s)
  \/ \E i \in ArgChoices, e \in Extras : DoAppend(i, e) \/ DoPrepend(i, e) \/ DoReplace(i, e)
  \/ DoClear
  \/ \E i \in DOMAIN args : (\E k \in 1..2 : CallerMutate(i, k)) \/ CallerGrow(i)

Spec == Init /\ [][Next]_vars

-----------------------------------------------------------------------------
(* P-layer: the property statements *)

\* Append/Prepend/Replace/Clear/All behave like the operations on a list
ContentIsModel == Content(d) = model

\* the caller's backing arrays (including spare cells) only change by caller actions
ArgsIntact == \A i \in DOMAIN args : heap[args[i].arr] = shadow[i]

\* the list under test never retains a caller array
NoRetention == \A i \in DOMAIN args : d.arr # args[i].arr

\* a list the caller obtained from All() keeps showing what it showed
AllStable == snap.s.arr = 0 \/ SubSeq(heap[snap.s.arr], 1, snap.s.len) = snap.was

TypeOK == /\ d.len <= d.cap
          /\ \A i \in DOMAIN args : args[i].len <= args[i].cap /\ Len(heap[args[i].arr]) = args[i].cap

-----------------------------------------------------------------------------
(* behaviour emission for replay (generation configuration only) *)
HeldAcrossReplace == \E j \in DOMAIN hist : hist[j].op = "All" /\ \E k \in (j + 1)..Len(hist) : hist[k].op = "Replace" /\ hist[k].arg # 0
HeldAcrossClear == \E j \in DOMAIN hist : hist[j].op = "All" /\ \E k \in (j + 1)..Len(hist) : hist[k].op = "Clear"
                        /\ \E m \in (k + 1)..Len(hist) : hist[m].op = "Append" /\ hist[m].arg # 0
HeldAcrossPrepend == \E j \in DOMAIN hist : hist[j].op = "All" /\ \E k \in (j + 1)..Len(hist) : hist[k].op = "Prepend" /\ hist[k].arg # 0
                          /\ Cardinality({m \in 1..(j - 1) : hist[m].op = "Append" /\ hist[m].arg # 0}) >= 2
Emit == (EmitHist /\ Len(hist) = MaxOps /\ (EmitFilter = "all" \/ (EmitFilter = "snap" /\ HeldAcrossReplace) \/ (EmitFilter = "clear" /\ HeldAcrossClear) \/ (EmitFilter = "prepend" /\ HeldAcrossPrepend))) => PrintT("BEH " \o ToJson(hist))
=============================================================================
