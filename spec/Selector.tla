------------------------------- MODULE Selector -------------------------------
(***************************************************************************)
(* C08 -- a qualified identifier X.Sel collapses onto one path-carrying      *)
(* dst.Ident: the 13 spacing / decoration slots of the three ast nodes       *)
(*    {1}{2}{3}{4}[ X ]{5}{6} . {7}{8}{9}[ Sel ]{10}{11}{12}{13}             *)
(*  1 SelectorExpr.Before 2 SelectorExpr.Start 3 X.Before 4 X.Start          *)
(*  5 X.End 6 X.After 7 SelectorExpr.X 8 Sel.Before 9 Sel.Start              *)
(*  10 Sel.End 11 Sel.After 12 SelectorExpr.End 13 SelectorExpr.After        *)
(* are merged by mergeDecorations into Ident.{Before, Start, X, End, After}  *)
(* (spacing becomes "\n" decorations), and restoreIdent expands them again.  *)
(* Decorations are sequences over "L" (line comment) "B" (block) "N" (\n).   *)
(***************************************************************************)
EXTENDS Integers, Sequences, FiniteSets, TLC

\* mergeDecorations(items...): items are decoration lists or spaces [sp |-> n]
RECURSIVE MergeFrom(_, _, _)
MergeFrom(items, out, endsNL) ==
  IF items = <<>> THEN out
  ELSE LET v == Head(items) IN
    IF v.k = "decs" THEN
      IF v.d = <<>> THEN MergeFrom(Tail(items), out, endsNL)
      ELSE MergeFrom(Tail(items), out \o v.d, v.d[Len(v.d)] \in {"N", "L"})
    ELSE CASE v.sp = 1 -> MergeFrom(Tail(items), IF endsNL THEN out ELSE Append(out, "N"), TRUE)
           [] v.sp = 2 -> MergeFrom(Tail(items), IF endsNL THEN Append(out, "N") ELSE out \o <<"N", "N">>, TRUE)
           [] OTHER -> MergeFrom(Tail(items), out, endsNL)
Merge(items) == MergeFrom(items, <<>>, FALSE)
D(d) == [k |-> "decs", d |-> d]
S(n) == [k |-> "space", sp |-> n]

\* s = the 13 slots (spaces are numbers, decorations sequences)
Merged(s) == [before |-> s[1],
              start |-> Merge(<<D(s[2]), S(s[3]), D(s[4])>>),
              x |-> Merge(<<D(s[5]), S(s[6]), D(s[7]), S(s[8]), D(s[9])>>),
              end |-> Merge(<<D(s[10]), S(s[11]), D(s[12])>>),
              after |-> s[13]]

\* the restorer's line machine (as in Spacing / Link): st = [lines, cur, fresh]
Emit(st, lbl) == [st EXCEPT !.cur = Append(@, lbl), !.fresh = FALSE]
Break(st) == [lines |-> Append(st.lines, st.cur), cur |-> <<>>, fresh |-> TRUE]
RECURSIVE Breaks(_, _)
Breaks(st, k) == IF k <= 0 THEN st ELSE Breaks(Break(st), k - 1)
ApplySpace(st, space) == Breaks(st, IF st.fresh /\ space > 0 THEN space - 1 ELSE space)
RECURSIVE ApplyDecs(_, _, _)
ApplyDecs(st, ds, tag) ==
  IF ds = <<>> THEN st
  ELSE LET d == Head(ds)
           s1 == IF d \in {"L", "B"} THEN Emit(st, tag) ELSE st
           s2 == IF d \in {"L", "N"} THEN Break(s1) ELSE s1
       IN ApplyDecs(s2, Tail(ds), tag)

St0(fresh) == [lines |-> <<>>, cur |-> <<"<">>, fresh |-> fresh]
Fin(st) == Append(st.lines, Append(st.cur, ">"))

\* the three ast nodes rendered one after the other (what was parsed)
RenderOriginal(s, fresh) ==
  LET a == ApplyDecs(ApplySpace(St0(fresh), s[1]), s[2], "c")
      b == Emit(ApplyDecs(ApplySpace(a, s[3]), s[4], "c"), "X")
      c == Emit(ApplySpace(ApplyDecs(b, s[5], "c"), s[6]), ".")
      d == Emit(ApplyDecs(ApplySpace(ApplyDecs(c, s[7], "c"), s[8]), s[9], "c"), "Sel")
      e == ApplySpace(ApplyDecs(ApplySpace(ApplyDecs(d, s[10], "c"), s[11]), s[12], "c"), s[13])
  IN Fin(e)

\* the merged identifier expanded by restoreIdent
RenderMerged(m, fresh) ==
  LET a == ApplyDecs(ApplySpace(St0(fresh), m.before), m.start, "c")
      b == Emit(Emit(a, "X"), ".")
      c == Emit(ApplyDecs(b, m.x, "c"), "Sel")
      d == ApplySpace(ApplyDecs(c, m.end, "c"), m.after)
  IN Fin(d)

\* the dot has no position of its own: the printer writes it right behind X
RECURSIVE GlueDot(_)
GlueDot(ls) ==
  LET flat == [i \in DOMAIN ls |-> SelectSeq(ls[i], LAMBDA x : x # ".")] IN flat

Faithful(s, fresh) == GlueDot(RenderOriginal(s, fresh)) = GlueDot(RenderMerged(Merged(s), fresh))
\* the same for an observed merge result m
FaithfulTo(s, m, fresh) == GlueDot(RenderOriginal(s, fresh)) = GlueDot(RenderMerged(m, fresh))
=============================================================================
