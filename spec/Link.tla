-------------------------------- MODULE Link --------------------------------
(***************************************************************************)
(* C01 C02 C03 C15 -- the decorator's fragment list and the two-pass        *)
(* attachment of comments and line breaks (decorator-fragment.go link()),   *)
(* and its inverse: the restorer's line machine run over the same list.     *)
(*                                                                          *)
(* A fragment list F is a sequence of records                               *)
(*   [k, node, name, line, empty, indent, sd, lab, clause, si, ei, id]      *)
(*   k      "dec" decoration point | "tok" token | "str" string | "bad"     *)
(*          | "com" comment | "nl" line break                               *)
(*   node   node number (dec/tok/str/bad), name = decoration point name     *)
(*   line   comment is a // comment;  empty: the break is an empty line     *)
(*   indent column of the comment; si/ei start/end indent of the node       *)
(*   sd     node is a Stmt or Decl; lab LabeledStmt; clause Case/CommClause *)
(* The attachment state st = [att, decs, bef, aft, panic]:                  *)
(*   att[i]   index of the dec fragment a com/nl fragment was attached to   *)
(*   decs[d]  decorations of dec fragment d: sequence of [t, i] with        *)
(*            t = "com" (fragment i) or "nl"                                *)
(*   bef/aft  node -> 0 | 1 | 2 spacing                                     *)
(* All algorithms are pure operators; actions only pick the input.          *)
(***************************************************************************)
EXTENDS Integers, Sequences, FiniteSets, TLC

IsTokLike(f) == f.k \in {"tok", "str"}

DCom(F, i) == [t |-> "com", i |-> i, line |-> F[i].line]
DNl == [t |-> "nl", i |-> 0, line |-> FALSE]

\* appendNewLine: one break fewer directly behind a // comment
AppendNL(lst, empty) ==
  LET num0 == IF empty THEN 2 ELSE 1
      num == IF Len(lst) > 0 /\ lst[Len(lst)].t = "com" /\ lst[Len(lst)].line THEN num0 - 1 ELSE num0
  IN lst \o [j \in 1..num |-> DNl]

\* decorations are keyed by (node, point): a repeated dec fragment (File.Imports) shares the list of
\* the first fragment with the same node and name
Canon(F, d) == IF F[d].dup THEN CHOOSE j \in 1..d : F[j].k = "dec" /\ F[j].node = F[d].node /\ F[j].name = F[d].name
                                  /\ \A j2 \in 1..(j - 1) : ~(F[j2].k = "dec" /\ F[j2].node = F[d].node /\ F[j2].name = F[d].name)
               ELSE d

\* attachToDecoration: comments and breaks become decorations of dec fragment d
RECURSIVE Attach(_, _, _, _)
Attach(F, st, swept, d) ==
  IF swept = <<>> THEN st
  ELSE LET i == Head(swept)
           cd == Canon(F, d)
           nd == IF F[i].k = "com" THEN Append(st.decs[cd], DCom(F, i)) ELSE AppendNL(st.decs[cd], F[i].empty)
       IN Attach(F, [st EXCEPT !.att[i] = d, !.decs[cd] = nd], Tail(swept), d)

\* findDecoration(stopAtNewline, stopAtEmptyLine, from, direction)
RECURSIVE FindDec(_, _, _, _, _, _, _)
FindDec(F, att, stopNL, stopEmpty, i, dir, acc) ==
  IF i < 1 \/ i > Len(F) THEN [found |-> FALSE, dec |-> 0, swept |-> <<>>]
  ELSE LET f == F[i] IN
    CASE f.k = "dec" -> [found |-> TRUE, dec |-> i, swept |-> acc]
      [] IsTokLike(f) -> [found |-> FALSE, dec |-> 0, swept |-> <<>>]
      [] f.k = "nl" ->
           IF stopNL \/ (stopEmpty /\ f.empty) THEN [found |-> FALSE, dec |-> 0, swept |-> <<>>]
           ELSE IF att[i] # 0 THEN FindDec(F, att, stopNL, stopEmpty, i + dir, dir, acc)
           ELSE FindDec(F, att, stopNL, stopEmpty, i + dir, dir, IF dir = 1 THEN Append(acc, i) ELSE <<i>> \o acc)
      [] f.k = "com" ->
           IF att[i] # 0 THEN FindDec(F, att, stopNL, stopEmpty, i + dir, dir, acc)
           ELSE FindDec(F, att, stopNL, stopEmpty, i + dir, dir, IF dir = 1 THEN Append(acc, i) ELSE <<i>> \o acc)
      [] OTHER -> FindDec(F, att, stopNL, stopEmpty, i + dir, dir, acc)      \* bad fragments are stepped over

\* the five attempts of pass 1, in the code's precedence order
Try(F, st, i, t) ==
  CASE t = 1 -> FindDec(F, st.att, TRUE, TRUE, i, -1, <<>>)
    [] t = 2 -> FindDec(F, st.att, FALSE, TRUE, i, 1, <<>>)
    [] t = 3 -> FindDec(F, st.att, FALSE, TRUE, i, -1, <<>>)
    [] t = 4 -> FindDec(F, st.att, FALSE, FALSE, i, 1, <<>>)
    [] t = 5 -> FindDec(F, st.att, FALSE, FALSE, i, -1, <<>>)

RECURSIVE TryAll(_, _, _, _)
TryAll(F, st, i, t) ==
  IF t > 5 THEN [st EXCEPT !.panic = TRUE]
  ELSE LET r == Try(F, st, i, t) IN IF r.found THEN Attach(F, st, r.swept, r.dec) ELSE TryAll(F, st, i, t + 1)

\* findIndentedComments(from, [end, start]): r = [e, n, next]
RECURSIVE FindIndented(_, _, _, _, _, _, _)
FindIndented(F, i, ie, is, stage, past, r) ==
  IF i > Len(F) THEN r
  ELSE LET f == F[i] IN
    CASE f.k = "dec" -> [r EXCEPT !.next = i]
      [] IsTokLike(f) -> r
      [] f.k = "nl" -> FindIndented(F, i + 1, ie, is, stage, TRUE,
                          IF stage = 0 THEN [r EXCEPT !.e = Append(@, i)] ELSE [r EXCEPT !.n = Append(@, i)])
      [] f.k = "com" ->
           IF ~past THEN FindIndented(F, i + 1, ie, is, stage, past,
                          IF stage = 0 THEN [r EXCEPT !.e = Append(@, i)] ELSE [r EXCEPT !.n = Append(@, i)])
           ELSE IF stage = 0 THEN
                  IF f.indent = ie THEN FindIndented(F, i + 1, ie, is, 0, past, [r EXCEPT !.e = Append(@, i)])
                  ELSE IF f.indent = is THEN FindIndented(F, i + 1, ie, is, 1, past, [r EXCEPT !.n = Append(@, i)])
                  ELSE r
           ELSE IF f.indent = is THEN FindIndented(F, i + 1, ie, is, 1, past, [r EXCEPT !.n = Append(@, i)])
                ELSE r
      [] OTHER -> FindIndented(F, i + 1, ie, is, stage, past, r)

\* the hanging-indent special case at the End point of a statement or declaration
Hanging(F, st, i) ==
  LET f == F[i]
      start == f.si
      end0 == f.ei
      end == IF start = end0 /\ f.clause THEN end0 + 1 ELSE end0
  IN IF ~(f.name = "End" /\ f.sd /\ ~f.lab) \/ end # start + 1 THEN st
     ELSE LET r == FindIndented(F, i + 1, end, start, 0, FALSE, [e |-> <<>>, n |-> <<>>, next |-> 0])
              e1 == IF r.e # <<>> /\ F[r.e[Len(r.e)]].k = "nl" THEN SubSeq(r.e, 1, Len(r.e) - 1) ELSE r.e
              s1 == Attach(F, st, e1, i)
          IN IF r.n # <<>> /\ r.next # 0 /\ F[r.next].sd /\ F[r.next].si = start
             THEN Attach(F, s1, r.n, r.next) ELSE s1

RECURSIVE Pass1(_, _, _)
Pass1(F, st, i) ==
  IF i > Len(F) \/ st.panic THEN st
  ELSE IF F[i].k = "dec" THEN Pass1(F, Hanging(F, st, i), i + 1)
  ELSE IF F[i].k = "com" /\ st.att[i] = 0 THEN Pass1(F, TryAll(F, st, i, 1), i + 1)
  ELSE Pass1(F, st, i + 1)

\* findNode(from, direction): the node whose Start (forwards) / End (backwards) is adjacent
RECURSIVE FindNode(_, _, _, _)
FindNode(F, att, i, dir) ==
  LET nm == IF dir = 1 THEN "Start" ELSE "End" IN
  IF i < 1 \/ i > Len(F) THEN 0
  ELSE LET f == F[i] IN
    CASE f.k = "dec" -> IF f.name = nm THEN f.node ELSE 0
      [] IsTokLike(f) -> 0
      [] f.k \in {"com", "nl"} -> IF att[i] # 0 /\ F[att[i]].name = nm THEN F[att[i]].node ELSE FindNode(F, att, i + dir, dir)
      [] OTHER -> FindNode(F, att, i + dir, dir)

SetSp(m, n, v) == [x \in DOMAIN m \cup {n} |-> IF x = n THEN v ELSE m[x]]

RECURSIVE Pass2(_, _, _)
Pass2(F, st, i) ==
  IF i > Len(F) \/ st.panic THEN st
  ELSE IF F[i].k = "nl" /\ st.att[i] = 0 THEN
     LET nb == FindNode(F, st.att, i, 1)
         na == FindNode(F, st.att, i, -1)
         sp == IF F[i].empty THEN 2 ELSE 1
     IN IF nb # 0 \/ na # 0 THEN
          Pass2(F, [st EXCEPT !.bef = IF nb # 0 THEN SetSp(st.bef, nb, sp) ELSE st.bef,
                              !.aft = IF na # 0 THEN SetSp(st.aft, na, sp) ELSE st.aft], i + 1)
        ELSE LET r1 == FindDec(F, st.att, FALSE, FALSE, i, -1, <<>>)
                 r2 == FindDec(F, st.att, FALSE, FALSE, i, 1, <<>>)
             IN IF r1.found THEN Pass2(F, [st EXCEPT !.decs[Canon(F, r1.dec)] = AppendNL(@, F[i].empty)], i + 1)
                ELSE IF r2.found THEN Pass2(F, [st EXCEPT !.decs[Canon(F, r2.dec)] = AppendNL(@, F[i].empty)], i + 1)
                ELSE [st EXCEPT !.panic = TRUE]
  ELSE Pass2(F, st, i + 1)

St0(F) == [att |-> [i \in 1..Len(F) |-> 0], decs |-> [i \in 1..Len(F) |-> <<>>], bef |-> <<>>, aft |-> <<>>, panic |-> FALSE]
Link(F) == Pass2(F, Pass1(F, St0(F), 1), 1)

-----------------------------------------------------------------------------
(* The restorer's line machine over the same list: Start applies Before and *)
(* the decorations, End the decorations (end rule) and After.               *)
Sp(m, n) == IF n \in DOMAIN m THEN m[n] ELSE 0
ApplySpace(rs, s) ==
  LET n == IF rs.fresh /\ s > 0 THEN s - 1 ELSE s
  IN [ln |-> rs.ln + n, fresh |-> IF n > 0 THEN TRUE ELSE rs.fresh, out |-> rs.out]
RECURSIVE ApplyDecs(_, _)
ApplyDecs(rs, ds) ==
  IF ds = <<>> THEN rs
  ELSE LET d == Head(ds)
           r2 == IF d.t = "com" THEN [ln |-> rs.ln, fresh |-> FALSE, out |-> Append(rs.out, [id |-> d.i, ln |-> rs.ln])] ELSE rs
           r3 == IF d.t = "nl" \/ (d.t = "com" /\ d.line) THEN [ln |-> r2.ln + 1, fresh |-> TRUE, out |-> r2.out] ELSE r2
       IN ApplyDecs(r3, Tail(ds))

(* File.Imports repeats the import specs of the import declarations: the fragment list holds   *)
(* their fragments a second time (dup = TRUE), and the restorer does not render that list.    *)
RECURSIVE Render(_, _, _, _)
Render(F, st, i, rs) ==
  IF i > Len(F) THEN rs
  ELSE LET f == F[i] IN
    CASE f.dup -> Render(F, st, i + 1, rs)
      [] f.k = "dec" /\ f.name = "Start" -> Render(F, st, i + 1, ApplyDecs(ApplySpace(rs, Sp(st.bef, f.node)), st.decs[i]))
      [] f.k = "dec" /\ f.name = "End" -> Render(F, st, i + 1, ApplySpace(ApplyDecs(rs, st.decs[i]), Sp(st.aft, f.node)))
      [] f.k = "dec" -> Render(F, st, i + 1, ApplyDecs(rs, st.decs[i]))
      [] f.k \in {"tok", "str", "bad"} -> Render(F, st, i + 1, [ln |-> rs.ln, fresh |-> FALSE, out |-> Append(rs.out, [id |-> i, ln |-> rs.ln])])
      [] OTHER -> Render(F, st, i + 1, rs)

\* the source: items with the line they stand on
RECURSIVE SrcItems(_, _, _)
SrcItems(F, i, ln) ==
  IF i > Len(F) THEN <<>>
  ELSE LET f == F[i] IN
    CASE f.dup -> SrcItems(F, i + 1, ln)
      [] f.k \in {"tok", "str", "bad", "com"} -> << [id |-> i, ln |-> ln] >> \o SrcItems(F, i + 1, ln)
      [] f.k = "nl" -> SrcItems(F, i + 1, ln + (IF f.empty THEN 2 ELSE 1))
      [] OTHER -> SrcItems(F, i + 1, ln)

Cap(x) == IF x > 2 THEN 2 ELSE x
Shape(items) == [j \in 1..Len(items) |-> [id |-> items[j].id, d |-> IF j = 1 THEN 0 ELSE Cap(items[j].ln - items[j - 1].ln)]]

Rendered(F) == Render(F, Link(F), 1, [ln |-> 0, fresh |-> TRUE, out |-> <<>>]).out

-----------------------------------------------------------------------------
(* P-layer *)
NoPanicF(F) == ~Link(F).panic
\* every comment ends up in exactly one decoration list, exactly once
ComCount(F, st, c) == LET S == {<<d, k>> \in (1..Len(F)) \X (1..Len(F)) : k \in DOMAIN st.decs[d] /\ st.decs[d][k].t = "com" /\ st.decs[d][k].i = c}
                      IN Cardinality(S)
ComCountFast(F, st, c) ==
  LET ds == {d \in 1..Len(F) : F[d].k = "dec" /\ st.decs[d] # <<>>}
  IN Cardinality({<<d, k>> \in UNION {{d} \X DOMAIN st.decs[d] : d \in ds} : st.decs[d][k].t = "com" /\ st.decs[d][k].i = c})
AllAttachedF(F) == LET st == Link(F) IN \A c \in 1..Len(F) : F[c].k = "com" => ComCountFast(F, st, c) = 1
\* same items, same order, same line-break skeleton (0 / 1 / blank line) as the source
RoundTripF(F) == Shape(Rendered(F)) = Shape(SrcItems(F, 1, 0))
=============================================================================
