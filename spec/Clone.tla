-------------------------------- MODULE Clone --------------------------------
(***************************************************************************)
(* C06 -- dst.Clone as a complete alias-free deep copy, and the restorer's  *)
(* duplicate-node detection, on an abstract heap.                           *)
(*                                                                          *)
(* node[i]  = [val, kids, dec, obj]: a scalar field, a sequence of child    *)
(*            node ids (one slice), the id of its decoration array, and an  *)
(*            object link (0 = none)                                        *)
(* arr[a]   = a decoration backing array (sequence of strings)              *)
(* roots    = <<original root, clone root>> once Clone has run              *)
(* Variant "code" copies every field; "shallow-decs" shares decoration      *)
(* arrays, "drop-dec" forgets them, "keep-obj" keeps object links: the      *)
(* mistakes the invariants must catch.                                      *)
(***************************************************************************)
EXTENDS Integers, Sequences, FiniteSets, TLC

CONSTANTS MaxNodes, Variant
VARIABLES node, arr, roots, phase, snap

vars == <<node, arr, roots, phase, snap>>

Ids == DOMAIN node
RECURSIVE Reach(_, _)
Reach(nd, i) == {i} \cup UNION {Reach(nd, nd[i].kids[k]) : k \in DOMAIN nd[i].kids}
Arrays(nd, S) == {nd[i].dec : i \in S} \ {0}

\* structural projection (what printing consults), ids abstracted away
RECURSIVE Proj(_, _, _)
Proj(nd, ar, i) == [val |-> nd[i].val,
                    dec |-> IF nd[i].dec = 0 THEN <<>> ELSE ar[nd[i].dec],
                    kids |-> [k \in DOMAIN nd[i].kids |-> Proj(nd, ar, nd[i].kids[k])]]

\* all trees over 1..n as parent vectors, every node with a decoration array and an object link
ParVecs(n) == {p \in [1..n -> 0..(n - 1)] : p[1] = 0 /\ \A i \in 2..n : p[i] >= 1 /\ p[i] < i}
KidsOf(p, i) == LET cs == {c \in DOMAIN p : p[c] = i}
                IN [k \in 1..Cardinality(cs) |-> CHOOSE c \in cs : Cardinality({d \in cs : d < c}) = k - 1]

Init == /\ \E n \in 1..MaxNodes : \E p \in ParVecs(n) :
             /\ node = [i \in 1..n |-> [val |-> i, kids |-> KidsOf(p, i), dec |-> i, obj |-> i]]
             /\ arr = [i \in 1..n |-> <<"c", "d">>]
        /\ roots = <<1>> /\ phase = "fresh" /\ snap = <<>>

\* Clone(root): fresh ids for every reachable node and every decoration array
DoClone ==
  /\ phase = "fresh"
  /\ LET n == Cardinality(Ids)
         img(i) == i + n
     IN /\ node' = [i \in 1..(2 * n) |->
                      IF i <= n THEN node[i]
                      ELSE LET o == node[i - n] IN
                           [val |-> o.val,
                            kids |-> [k \in DOMAIN o.kids |-> img(o.kids[k])],
                            dec |-> CASE Variant = "shallow-decs" -> o.dec
                                      [] Variant = "drop-dec" -> 0
                                      [] OTHER -> o.dec + n,
                            obj |-> IF Variant = "keep-obj" THEN o.obj ELSE 0]]
        /\ arr' = [a \in 1..(2 * n) |-> IF a <= n THEN arr[a] ELSE arr[a - n]]
        /\ roots' = <<1, 1 + n>>
  /\ phase' = "cloned"
  /\ snap' = <<Proj(node, arr, 1)>>

\* the user appends to a decoration list in place, or changes a scalar, on one side
MutateDec(i) ==
  /\ phase = "cloned" /\ node[i].dec # 0
  /\ arr' = [arr EXCEPT ![node[i].dec] = Append(@, "m")]
  /\ phase' = "mutated" /\ UNCHANGED <<node, roots>>
  /\ snap' = <<Proj(node, arr, roots[1]), Proj(node, arr, roots[2]), IF i \in Reach(node, roots[1]) THEN 1 ELSE 2>>
MutateVal(i) ==
  /\ phase = "cloned"
  /\ node' = [node EXCEPT ![i].val = 99]
  /\ phase' = "mutated" /\ UNCHANGED <<arr, roots>>
  /\ snap' = <<Proj(node, arr, roots[1]), Proj(node, arr, roots[2]), IF i \in Reach(node, roots[1]) THEN 1 ELSE 2>>

Next == DoClone \/ (\E i \in Ids : MutateDec(i) \/ MutateVal(i))
Spec == Init /\ [][Next]_vars

-----------------------------------------------------------------------------
Cloned == phase \in {"cloned", "mutated"}
\* the clone carries every field printing consults
Iso == phase = "cloned" => Proj(node, arr, roots[2]) = snap[1]
\* no node and no backing array reachable from both
Disjoint == Cloned => /\ Reach(node, roots[1]) \cap Reach(node, roots[2]) = {}
                      /\ Arrays(node, Reach(node, roots[1])) \cap Arrays(node, Reach(node, roots[2])) = {}
ObjDropped == Cloned => \A i \in Reach(node, roots[2]) : node[i].obj = 0
\* mutating either side never changes the other
MutationIsolation == phase = "mutated" =>
   IF snap[3] = 1 THEN Proj(node, arr, roots[2]) = snap[2] ELSE Proj(node, arr, roots[1]) = snap[1]

-----------------------------------------------------------------------------
(* duplicate detection at restore time: a tree in which some node is reachable by two paths *)
SharedTwice(nd, root) == \E i \in Reach(nd, root) :
   Cardinality({<<p, k>> \in Reach(nd, root) \X (1..MaxNodes) : k \in DOMAIN nd[p].kids /\ nd[p].kids[k] = i}) >= 2
RestoreOutcome(nd, root) == IF SharedTwice(nd, root) THEN "panic-duplicate" ELSE "ok"
=============================================================================
