-------------------------------- MODULE Walk --------------------------------
(***************************************************************************)
(* C13 -- dst.Walk / dst.Inspect as an explicit stack machine.              *)
(*                                                                          *)
(* kidsOf[i] : ordered syntactic children of node i (fixed after Init)      *)
(* stack     : frames [node, rest]: rest = children of node still to walk   *)
(* started   : the root has been offered to the visitor                     *)
(* count[i]  : how often node i was passed to the visitor                   *)
(* pruned    : nodes for which the visitor declined                         *)
(* nils      : how many Visit(nil) calls were made                          *)
(*                                                                          *)
(* Actions are the two calls the visitor sees: Visit(node) -> keep|prune    *)
(* and Visit(nil) after the children of a kept node.                        *)
(***************************************************************************)
EXTENDS Integers, Sequences, FiniteSets, TLC

CONSTANT MaxNodes            \* model checking: trees with up to MaxNodes nodes
VARIABLES kidsOf, root, stack, started, count, pruned, nils, order

vars == <<kidsOf, root, stack, started, count, pruned, nils, order>>

Ids == DOMAIN kidsOf

Top == stack[Len(stack)]
Pop == SubSeq(stack, 1, Len(stack) - 1)

NextNode == IF ~started THEN root
            ELSE IF stack # <<>> /\ Top.rest # <<>> THEN Head(Top.rest) ELSE 0

\* the visitor is called with node id and answers keep / prune
Visit(id, keep) ==
  /\ id # 0 /\ NextNode = id
  /\ started' = TRUE
  /\ count' = [count EXCEPT ![id] = @ + 1]
  /\ order' = Append(order, id)
  /\ pruned' = IF keep THEN pruned ELSE pruned \cup {id}
  /\ LET st == IF started THEN [stack EXCEPT ![Len(stack)].rest = Tail(@)] ELSE stack
     IN stack' = IF keep THEN Append(st, [node |-> id, rest |-> kidsOf[id]]) ELSE st
  /\ UNCHANGED <<kidsOf, root, nils>>

\* after the children of a kept node the visitor is called with nil
VisitNil ==
  /\ started /\ stack # <<>> /\ Top.rest = <<>>
  /\ stack' = Pop
  /\ nils' = nils + 1
  /\ UNCHANGED <<kidsOf, root, started, count, pruned, order>>

Done == started /\ stack = <<>>

-----------------------------------------------------------------------------
(* independent definitions used by the P-layer invariants *)
RECURSIVE ReachFrom(_, _)
ReachFrom(id, pr) ==
  IF id \in pr THEN {id}
  ELSE {id} \cup UNION {ReachFrom(kidsOf[id][j], pr) : j \in DOMAIN kidsOf[id]}

ParentOf(c) == CHOOSE p \in Ids : \E j \in DOMAIN kidsOf[p] : kidsOf[p][j] = c
Pos(id) == CHOOSE k \in DOMAIN order : order[k] = id

VisitedAtMostOnce == \A i \in Ids : count[i] <= 1
\* at the end: exactly the nodes not below a pruned node, each once; one nil per kept node
VisitedExactly == Done => /\ {i \in Ids : count[i] = 1} = ReachFrom(root, pruned)
                          /\ nils = Cardinality(ReachFrom(root, pruned) \ pruned)
\* parents before children, siblings in kidsOf order
PreOrder == \A k \in DOMAIN order : order[k] # root =>
              LET p == ParentOf(order[k]) IN
                /\ \E k2 \in 1..(k - 1) : order[k2] = p
                /\ p \notin pruned
SiblingOrder == \A p \in Ids : \A a, b \in DOMAIN kidsOf[p] :
                  (a < b /\ count[kidsOf[p][a]] = 1 /\ count[kidsOf[p][b]] = 1) => Pos(kidsOf[p][a]) < Pos(kidsOf[p][b])

-----------------------------------------------------------------------------
(* model checking: all ordered trees with up to MaxNodes nodes, all pruning choices *)
\* a tree is a parent vector par[i] < i; children are ordered by id (pre-order numbering not required)
TreeOf(par) == [i \in 1..Len(par) |->
                  LET cs == {c \in 1..Len(par) : c > 1 /\ par[c] = i}
                  IN [k \in 1..Cardinality(cs) |-> CHOOSE c \in cs : Cardinality({d \in cs : d < c}) = k - 1]]

ParVecs(n) == {p \in [1..n -> 0..(n - 1)] : p[1] = 0 /\ \A i \in 2..n : p[i] >= 1 /\ p[i] < i}

MCInit == /\ \E n \in 1..MaxNodes : \E p \in ParVecs(n) : kidsOf = TreeOf(p)
          /\ root = 1 /\ stack = <<>> /\ started = FALSE
          /\ count = [i \in DOMAIN kidsOf |-> 0]
          /\ pruned = {} /\ nils = 0 /\ order = <<>>

MCNext == \/ \E id \in Ids, keep \in BOOLEAN : Visit(id, keep)
          \/ VisitNil

MCSpec == MCInit /\ [][MCNext]_vars
=============================================================================
