------------------------------- MODULE PosTrace -------------------------------
(***************************************************************************)
(* C12 -- the position space of restored asts.  Each record is one restorer *)
(* (one FileSet) after restoring a sequence of files:                       *)
(*   {"files":[{"base","size","lines":[..],"positions":[..],"comments":[..],*)
(*              "rankR":[labels],"rankF":[labels],"reprint":bool,           *)
(*              "phantom":[labels],"spans":[texts]}...]}                     *)
(* positions: every position the restorer assigned (token fields, leaf      *)
(* strings, comments); rankR / rankF: the labels of all position fields     *)
(* valid in both the restored ast and a fresh parse of the printed text,    *)
(* ordered by position in the restored ast resp. in the fresh parse.        *)
(***************************************************************************)
EXTENDS Integers, Sequences, FiniteSets, TLC, Json

VARIABLE l
Trace == ndJsonDeserialize("trace.ndjson")
TInit == l = 1
TNext == l <= Len(Trace) /\ l' = l + 1
Rec == Trace[l]
Live == l <= Len(Trace)

\* every assigned position lies inside the one file the restorer registered
InFile == Live => \A i \in DOMAIN Rec.files : LET f == Rec.files[i] IN
            \A k \in DOMAIN f.positions : f.positions[k] >= f.base /\ f.positions[k] <= f.base + f.size
\* files restored into a shared file set never overlap
NoOverlap == Live => \A i, j \in DOMAIN Rec.files : i < j =>
            Rec.files[i].base + Rec.files[i].size < Rec.files[j].base
\* the line table starts at 0 and is strictly increasing, inside the file
LinesStrict == Live => \A i \in DOMAIN Rec.files : LET ls == Rec.files[i].lines IN
            /\ Len(ls) >= 1 /\ ls[1] = 0
            /\ \A k \in 1..(Len(ls) - 1) : ls[k] < ls[k + 1]
            /\ ls[Len(ls)] < Rec.files[i].size \/ Len(ls) = 1
\* comments are in source order
CommentsSorted == Live => \A i \in DOMAIN Rec.files : LET cs == Rec.files[i].comments IN
            \A k \in 1..(Len(cs) - 1) : cs[k] < cs[k + 1]
\* the relative order of all token and comment positions equals that of a fresh parse
RankEqual == Live => \A i \in DOMAIN Rec.files : Rec.files[i].rankR = Rec.files[i].rankF
\* ... of ALL positions: the restored ast carries no token position that a fresh parse of its print lacks
\* (a closing parenthesis position on a declaration that is printed without parentheses, ...)
NoPhantom == Live => \A i \in DOMAIN Rec.files : Rec.files[i].phantom = <<>>
\* a literal or comment whose text holds k line breaks ends k lines below its start in the line table
\* (as in a parsed file, where the line table knows every line break of the source): spans lists the
\* literals and comments for which that fails
SpansCounted == Live => \A i \in DOMAIN Rec.files : Rec.files[i].spans = <<>>
\* the restored ast can be printed repeatedly
Reprintable == Live => \A i \in DOMAIN Rec.files : Rec.files[i].reprint

Accepted == TLCGet("stats").diameter = Len(Trace) + 1
=============================================================================
