------------------------------ MODULE MapsTrace ------------------------------
(***************************************************************************)
(* C11 -- the node maps as exact inverse correspondences.  Each record is    *)
(* one decoration or restoration observed through the public maps:          *)
(*   {"side":"decorator"|"restorer", "a":ATree (go/ast), "d":DTree (dst),   *)
(*    "a2d":[[did..]..] indexed by ast id (Dst.Nodes), "d2a" by dst id,      *)
(*    "extraA2D"/"extraD2A": entries whose key is outside the tree}          *)
(* Trees come from reflection over struct fields; ids index nodes; id 0 =    *)
(* a node that is not part of the tree, -1 = a nil key.                      *)
(* On the dst side a qualified identifier is one Ident carrying a path; on   *)
(* the ast side it is a SelectorExpr with two Idents: three-to-one collapse. *)
(***************************************************************************)
EXTENDS Tree, Json, Integers, Sequences, FiniteSets

VARIABLE l
Trace == ndJsonDeserialize("trace.ndjson")
TInit == l = 1
TNext == l <= Len(Trace) /\ l' = l + 1
Rec == Trace[l]
Live == l <= Len(Trace)

(* a2d[aid] = dst ids the ast node aid maps to (a sequence, normally of length 1);        *)
(* d2a[did] likewise; extraA2D / extraD2A = pairs whose key is not a node of the tree      *)
(* (0) or is nil (-1).                                                                      *)
AIds(r) == DOMAIN r.a.nodes
DIds(r) == DOMAIN r.d.nodes
ToD(r, a) == {r.a2d[a][j] : j \in DOMAIN r.a2d[a]}
ToA(r, d) == {r.d2a[d][j] : j \in DOMAIN r.d2a[d]}

\* ast SelectorExprs collapsed onto a path-carrying dst Ident, and their X / Sel children
Collapsed(r) == {a \in AIds(r) : r.a.nodes[a].type = "SelectorExpr" /\
                   \E d \in ToD(r, a) : d \in DIds(r) /\ r.d.nodes[d].type = "Ident"}
CollapsedKids(r) == UNION {{Abs(AllKids(r.a.nodes[a])[j]) : j \in DOMAIN AllKids(r.a.nodes[a])} : a \in Collapsed(r)}

\* the maps are functions without nil keys; entries outside the tree (declaration nodes that only
\* exist for the object graph, e.g. the AssignStmt go/parser invents for range variables) stay outside
WellFormed == Live =>
  /\ \A i \in DOMAIN Rec.extraA2D : Rec.extraA2D[i][1] = 0 /\ Rec.extraA2D[i][2] = 0
  /\ \A i \in DOMAIN Rec.extraD2A : Rec.extraD2A[i][1] = 0 /\ Rec.extraD2A[i][2] = 0
  /\ \A a \in AIds(Rec) : Len(Rec.a2d[a]) <= 1 /\ \A d \in ToD(Rec, a) : d \in DIds(Rec)
  /\ \A d \in DIds(Rec) : Len(Rec.d2a[d]) <= 1 /\ \A a \in ToA(Rec, d) : a \in AIds(Rec)

\* every syntax node of the ast has a dst counterpart, every dst node maps back
Total == Live =>
  /\ \A a \in AIds(Rec) : Rec.a2d[a] # <<>>
  /\ \A d \in DIds(Rec) : Rec.d2a[d] # <<>>

TypeCorresponds == Live =>
  LET ck == Collapsed(Rec) \cup CollapsedKids(Rec) IN
  \A a \in AIds(Rec) : \A d \in ToD(Rec, a) : d \in DIds(Rec) =>
     \/ Rec.a.nodes[a].type = Rec.d.nodes[d].type
     \/ (a \in ck /\ Rec.d.nodes[d].type = "Ident")

\* mutually inverse, except that the three ast nodes of a qualified identifier share one dst Ident
MutuallyInverse == Live =>
  LET ck == CollapsedKids(Rec) IN
  /\ \A d \in DIds(Rec) : \A a \in ToA(Rec, d) : a \in AIds(Rec) => d \in ToD(Rec, a)
  /\ \A a \in AIds(Rec) : \A d \in ToD(Rec, a) : d \in DIds(Rec) => (a \in ToA(Rec, d) \/ a \in ck)

\* the correspondence commutes with parent/child structure
Commutes == Live =>
  LET skip == Collapsed(Rec) \cup CollapsedKids(Rec) IN
  \A a \in AIds(Rec) : a \notin skip =>
     \A d \in ToD(Rec, a) : d \in DIds(Rec) =>
        LET ak == RenderKids(Rec.a, Rec.a.nodes[a])
            dk == RenderKids(Rec.d, Rec.d.nodes[d])
        IN /\ Len(ak) = Len(dk)
           /\ \A j \in DOMAIN ak : Abs(dk[j]) \in ToD(Rec, Abs(ak[j]))

Accepted == TLCGet("stats").diameter = Len(Trace) + 1
=============================================================================
