------------------------------ MODULE FaultsTrace ------------------------------
(* C17: observations of real runs with a fault-injecting resolver:                       *)
(*  {"op":"restore|decorate","calls":N,"failAt":k,"err":b,"wrapped":b,"panic":b,        *)
(*   "outBytes":n,"treeSame":b,"retrySame":b,"expectedCalls":m}                           *)
EXTENDS Integers, Sequences, TLC, Json
VARIABLE l
Trace == ndJsonDeserialize("trace.ndjson")
TInit == l = 1
TNext == l <= Len(Trace) /\ l' = l + 1
Rec == Trace[l]
Live == l <= Len(Trace)
Faulty == Live /\ Rec.failAt >= 1 /\ Rec.failAt <= Rec.calls
ErrorReturned == Faulty => (Rec.err /\ Rec.wrapped /\ ~Rec.panic)
NoOutputOnError == Faulty => Rec.outBytes = 0
TreeUnchangedOnError == Faulty => Rec.treeSame
RetryEqualsClean == Faulty => Rec.retrySame
\* the clean run asks the resolver exactly about the paths Imports.tla says need a name
CallsAsSpecified == (Live /\ Rec.expectedCalls >= 0) => Rec.calls = Rec.expectedCalls
Accepted == TLCGet("stats").diameter = Len(Trace) + 1
=============================================================================
