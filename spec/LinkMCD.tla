------------------------------ MODULE LinkMCD ------------------------------
(***************************************************************************)
(* C01 C02 -- the layout space inside TLC, third construct: a whole file.   *)
(*                                                                          *)
(*     // lead                  comments in front of the package clause     *)
(*     package p // ...         <- gap                                      *)
(*     var x int                a declaration on one line, or               *)
(*     func f() {               a function with an empty body on two lines, *)
(*     }                        or                                          *)
(*     var (                    a grouped declaration with one spec and a   *)
(*         a int                gap behind the spec (comments one column    *)
(*                              deeper)                                     *)
(*     )                        <- gap                                      *)
(*                                                                          *)
(* What differs from the statement lists of LinkMC / LinkMCB: the File node *)
(* has no End decoration point in the fragment list and its end indentation *)
(* is 0, comments in front of `package` come before the first decoration   *)
(* point, the last line break of the file is no fragment, and the specs of  *)
(* a grouped declaration are neither statements nor declarations (no        *)
(* hanging-indent rule behind them).                                        *)
(*                                                                          *)
(* lead    : sequence of [c, e]: own-line comment kind and whether an empty *)
(*           line follows it                                                *)
(* shape[i]: "var" | "func" | "group"                                       *)
(* gaps    : as in LinkMC; gap 1 follows the package clause, gap i+1 the    *)
(*           i-th declaration; igaps[i] is the gap inside a group           *)
(***************************************************************************)
EXTENDS Link, Json

CONSTANTS MaxDecls, MaxComs, EmitHist
VARIABLES lead, shape, gaps, igaps, gi, ncom, phase
mvars == <<lead, shape, gaps, igaps, gi, ncom, phase>>

OwnKinds == {"L1", "B1"}
InnerKinds == {"L2", "B2"}
TrailKinds == {"TL", "TB"}
NumGaps == Len(shape) + 1

Init == lead = <<>> /\ shape = <<>> /\ gaps = <<>> /\ igaps = <<>> /\ gi = 0 /\ ncom = 0 /\ phase = "lead"
AddLead == /\ phase = "lead" /\ ncom < MaxComs
           /\ \E c \in OwnKinds, e \in BOOLEAN : lead' = Append(lead, [c |-> c, e |-> e])
           /\ ncom' = ncom + 1 /\ UNCHANGED <<shape, gaps, igaps, gi, phase>>
StartShape == phase = "lead" /\ phase' = "shape" /\ UNCHANGED <<lead, shape, gaps, igaps, gi, ncom>>
AddDecl == phase = "shape" /\ Len(shape) < MaxDecls /\ \E k \in {"var", "func", "group"} : shape' = Append(shape, k)
           /\ UNCHANGED <<lead, gaps, igaps, gi, ncom, phase>>
StartGaps == /\ phase = "shape" /\ Len(shape) >= 1 /\ phase' = "igaps"
             /\ gaps' = [i \in 1..NumGaps |-> <<>>] /\ igaps' = [i \in 1..Len(shape) |-> <<>>] /\ gi' = 1
             /\ UNCHANGED <<lead, shape, ncom>>
\* the gap inside every grouped declaration
PutInner ==
  /\ phase = "igaps"
  /\ IF gi > Len(shape) THEN phase' = "gaps" /\ gi' = 1 /\ UNCHANGED <<igaps, ncom>>
     ELSE IF shape[gi] # "group" THEN gi' = gi + 1 /\ UNCHANGED <<igaps, ncom, phase>>
     ELSE \E e \in BOOLEAN, c \in InnerKinds \cup TrailKinds \cup {"end"} :
            /\ c \in TrailKinds => (igaps[gi] = <<>> /\ ~e)
            /\ c # "end" => ncom < MaxComs
            /\ igaps' = [igaps EXCEPT ![gi] = Append(@, [e |-> e, c |-> c])]
            /\ ncom' = IF c = "end" THEN ncom ELSE ncom + 1
            /\ gi' = IF c = "end" THEN gi + 1 ELSE gi
            /\ UNCHANGED phase
  /\ UNCHANGED <<lead, shape, gaps>>
Put == /\ phase = "gaps"
       /\ \E e \in BOOLEAN, c \in OwnKinds \cup TrailKinds \cup {"end"} :
            /\ c \in TrailKinds => (gaps[gi] = <<>> /\ ~e)
            /\ c # "end" => ncom < MaxComs
            /\ (c = "end" /\ gi = NumGaps) => ~e          \* the file ends with one line break, which is no fragment
            /\ gaps' = [gaps EXCEPT ![gi] = Append(@, [e |-> e, c |-> c])]
            /\ ncom' = IF c = "end" THEN ncom ELSE ncom + 1
            /\ gi' = IF c = "end" THEN gi + 1 ELSE gi
            /\ phase' = IF c = "end" /\ gi = NumGaps THEN "done" ELSE "gaps"
       /\ UNCHANGED <<lead, shape, igaps>>
Next == AddLead \/ StartShape \/ AddDecl \/ StartGaps \/ PutInner \/ Put

-----------------------------------------------------------------------------
Frag(k, n, name) == [k |-> k, node |-> n, name |-> name, line |-> FALSE, empty |-> FALSE, indent |-> 0,
                     sd |-> FALSE, lab |-> FALSE, clause |-> FALSE, si |-> 0, ei |-> 0, dup |-> FALSE]
Dec(n, name, sd, si, ei) == [Frag("dec", n, name) EXCEPT !.sd = sd, !.si = si, !.ei = ei]
Tok(n) == Frag("tok", n, "")
Str(n) == Frag("str", n, "")
Com(line, ind) == [Frag("com", 0, "") EXCEPT !.line = line, !.indent = ind]
Nl(e) == [Frag("nl", 0, "") EXCEPT !.empty = e]

RECURSIVE LeadFrags(_)
LeadFrags(l) == IF l = <<>> THEN <<>> ELSE << Com(Head(l).c = "L1", 1), Nl(Head(l).e) >> \o LeadFrags(Tail(l))

\* last = TRUE: the gap behind the last declaration (its closing line break is no fragment)
RECURSIVE GapFrags(_, _, _)
GapFrags(g, li, last) ==
  IF g = <<>> THEN <<>>
  ELSE LET x == Head(g) IN
    (CASE x.c = "TL" -> << Com(TRUE, li) >>
       [] x.c = "TB" -> << Com(FALSE, li) >>
       [] x.c = "end" -> IF last THEN <<>> ELSE << Nl(x.e) >>
       [] x.c = "L1" -> << Nl(x.e), Com(TRUE, 1) >>
       [] x.c = "B1" -> << Nl(x.e), Com(FALSE, 1) >>
       [] x.c = "L2" -> << Nl(x.e), Com(TRUE, 2) >>
       [] x.c = "B2" -> << Nl(x.e), Com(FALSE, 2) >>) \o GapFrags(Tail(g), li, last)

Ident(n, ind) == << Dec(n, "Start", FALSE, ind, ind), Dec(n, "X", FALSE, ind, ind), Str(n), Dec(n, "End", FALSE, ind, ind) >>
\* x int : ValueSpec n, Ident n+1, Ident n+2
Spec(n, ind) == << Dec(n, "Start", FALSE, ind, ind) >> \o Ident(n + 1, ind) \o Ident(n + 2, ind) \o << Dec(n, "End", FALSE, ind, ind) >>

\* var x int : GenDecl n, ValueSpec n+1 .. n+3
VarDecl(n) == << Dec(n, "Start", TRUE, 1, 1), Tok(n), Dec(n, "Tok", TRUE, 1, 1) >> \o Spec(n + 1, 1) \o << Dec(n, "End", TRUE, 1, 1) >>
\* func f() {⏎} : FuncDecl n, Ident n+1, FieldList n+2, BlockStmt n+3
FuncDecl(n) ==
  << Dec(n, "Start", TRUE, 1, 1), Tok(n), Dec(n, "Func", TRUE, 1, 1) >> \o Ident(n + 1, 1)
  \o << Dec(n, "Name", TRUE, 1, 1),
        Dec(n + 2, "Start", FALSE, 1, 1), Tok(n + 2), Dec(n + 2, "Opening", FALSE, 1, 1), Tok(n + 2), Dec(n + 2, "End", FALSE, 1, 1),
        Dec(n, "Params", TRUE, 1, 1),
        Dec(n + 3, "Start", TRUE, 1, 1), Tok(n + 3), Dec(n + 3, "Lbrace", TRUE, 1, 1), Nl(FALSE), Tok(n + 3), Dec(n + 3, "End", TRUE, 1, 1),
        Dec(n, "End", TRUE, 1, 1) >>
\* var (⏎ a int <gap> ) : GenDecl n, ValueSpec n+1 .. n+3
GroupDecl(n, ig) ==
  << Dec(n, "Start", TRUE, 1, 1), Tok(n), Dec(n, "Tok", TRUE, 1, 1), Tok(n), Dec(n, "Lparen", TRUE, 1, 1), Nl(FALSE) >>
  \o Spec(n + 1, 2) \o GapFrags(ig, 2, FALSE) \o << Tok(n), Dec(n, "End", TRUE, 1, 1) >>

Size(k) == IF k = "func" THEN 4 ELSE 4
RECURSIVE DeclsFrags(_, _, _, _, _)
DeclsFrags(s, n, g, gs, igs) ==
  IF s = <<>> THEN <<>>
  ELSE (CASE Head(s) = "var" -> VarDecl(n) [] Head(s) = "func" -> FuncDecl(n) [] OTHER -> GroupDecl(n, igs[g - 1]))
       \o GapFrags(gs[g], 1, Len(s) = 1)
       \o DeclsFrags(Tail(s), n + Size(Head(s)), g + 1, gs, igs)

\* File = node 1, its name = node 2
Build(l, s, gs, igs) ==
  LeadFrags(l)
  \o << Dec(1, "Start", FALSE, 1, 0), Tok(1), Dec(1, "Package", FALSE, 1, 0) >> \o Ident(2, 1) \o << Dec(1, "Name", FALSE, 1, 0) >>
  \o GapFrags(gs[1], 1, FALSE)
  \o DeclsFrags(s, 3, 2, gs, igs)

Done == phase = "done"
F == Build(lead, shape, gaps, igaps)
NoPanic == Done => NoPanicF(F)
AllAttached == Done => AllAttachedF(F)
RoundTrip == Done => RoundTripF(F)
FragRow(f) == <<f.k, f.node, f.name, f.line, f.empty, f.indent, f.sd, f.clause, f.si, f.ei>>
Emit == Done =>
  CASE EmitHist = "layouts" -> PrintT("BEH " \o ToJson([lead |-> lead, shape |-> shape, gaps |-> gaps, igaps |-> igaps]))
    [] EmitHist = "frags" -> PrintT("BEH " \o ToJson([lead |-> lead, shape |-> shape, gaps |-> gaps, igaps |-> igaps, frags |-> [i \in 1..Len(F) |-> FragRow(F[i])]]))
    [] OTHER -> TRUE
=============================================================================
