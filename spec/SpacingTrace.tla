---------------------------- MODULE SpacingTrace ----------------------------
(***************************************************************************)
(* C05, code -> specification: every record is one list printed by the real *)
(* restorer + go/printer:                                                   *)
(*   {"kind": ..., "elems": [{"b":1,"a":2,"s":["L"],"e":[]}...],            *)
(*    "lines": [["{"],["e1","t1.1"],[],["e2"],["}"]]}                       *)
(* The observed lines must be the ones the line machine of Spacing yields.  *)
(***************************************************************************)
EXTENDS Spacing

VARIABLE l
Trace == ndJsonDeserialize("trace.ndjson")

TInit == l = 1 /\ elems = <<>> /\ done = FALSE
TNext == l <= Len(Trace) /\ l' = l + 1 /\ UNCHANGED <<elems, done>>

Rec == Trace[l]

(* go/printer (trusted environment) decides by itself about a blank line in      *)
(* front of the closing (and behind the opening) delimiter of parenthesised declarations, struct and       *)
(* interface bodies, composite literals and argument lists (it removes it unless  *)
(* a comment precedes); it follows the line table in statement blocks and switch  *)
(* bodies.  For the former kinds (keepLast = FALSE) that one line is not compared.*)
RECURSIVE DropBlankBeforeCloser(_)
DropBlankBeforeCloser(ls) ==
  IF Len(ls) >= 2 /\ ls[Len(ls) - 1] = <<>> /\ Len(ls[Len(ls)]) > 0 /\ ls[Len(ls)][1] = "}"
  THEN SubSeq(ls, 1, Len(ls) - 2) \o <<ls[Len(ls)]>>
  ELSE ls
DropBlankAfterOpener(ls) ==
  IF Len(ls) >= 2 /\ ls[2] = <<>> /\ Len(ls[1]) > 0 /\ ls[1][1] = "{"
  THEN <<ls[1]>> \o SubSeq(ls, 3, Len(ls))
  ELSE ls
Norm(rec, ls) == IF rec.keepLast THEN ls ELSE DropBlankAfterOpener(DropBlankBeforeCloser(ls))
\* the property is about elements that occupy their own lines
\* expression-level lists (arguments, parameters, results, literal elements): spacing on an element
\* splits the list there - two neighbours share a line exactly when no line break lies between
\* them.  What happens next to the delimiters and whether a blank line survives is go/printer's
\* business (it cannot break in front of the first result of a return, keeps closing parentheses
\* on the line, ...), so only the neighbour relation is compared.
SameLine(ls, i) == LineOf(ls, El(i)) = LineOf(ls, El(i - 1))
ExprConforms(rec) == \A i \in 2..Len(rec.elems) : SameLine(rec.lines, i) <=> SameLine(Printed(rec.elems), i)
Conforms == l <= Len(Trace) =>
   IF Rec.expr THEN ExprConforms(Rec)
   ELSE (OwnLines(Rec.elems) => Norm(Rec, Rec.lines) = Norm(Rec, Printed(Rec.elems)))
Rule == l <= Len(Trace) => (NonAdditive(Rec.elems) /\ Delimiters(Rec.elems))
Accepted == TLCGet("stats").diameter = Len(Trace) + 1
=============================================================================
