-------------------------------- MODULE Reuse --------------------------------
(***************************************************************************)
(* C01 C05 C12 -- objects that outlive a call.                               *)
(*                                                                          *)
(* A Decorator, a Restorer and a FileRestorer are made to be used for       *)
(* several files ("an explicit decorator and restorer working on a caller-  *)
(* supplied file set").  What such an object keeps between calls:           *)
(*                                                                          *)
(*   Decorator     Fset (files are added), the node maps (grow)             *)
(*   Restorer      Fset (one token.File is added per RestoreFile), maps     *)
(*   FileRestorer  the Restorer it came from; everything else (line table,  *)
(*                 comment list, cursor, base) is reset by RestoreFile      *)
(*                                                                          *)
(* The restored *ast.File does not own its layout: line breaks live in the  *)
(* line table of its token.File, which token.File.SetLines keeps WITHOUT    *)
(* copying.  The model therefore has a heap of line tables:                 *)
(*                                                                          *)
(*   dfiles    decorated files, in the order the shared Decorator made them *)
(*   results   restored files: [file, arr, lo, hi]  (source id, line table, *)
(*             position range in the restorer's Fset)                       *)
(*   arrays    line table id -> the source whose layout it holds            *)
(*   buf       the line table the shared FileRestorer used last (0: none)   *)
(*   top       Fset.Base() of the restorer's file set                       *)
(*                                                                          *)
(* A decorated file is restored at most once by one Restorer (the node maps *)
(* of the Restorer make a second restore of the same nodes panic with       *)
(* "duplicate node", which is the API's way of refusing it).                *)
(* Restore(i, via) restores dfiles[i] through the shared FileRestorer       *)
(* ("fr") or through Restorer.RestoreFile ("r", a new FileRestorer);        *)
(* PrintResult(k) prints result k, possibly long after it was made.               *)
(* Variants (shown rejected): "reuseLines" keeps the FileRestorer's line    *)
(* table between files; "sameBase" does not advance the base.               *)
(***************************************************************************)
EXTENDS Integers, Sequences, FiniteSets, TLC, Json

CONSTANTS Files,       \* source ids, e.g. 1..3
          Size,        \* Size[f]: length of the restored file
          MaxCalls, Variant, EmitHist,
          CanRefuse    \* the Decorator has a resolver, which can refuse a file (dot-import ...)
VARIABLES dfiles, results, arrays, buf, top, hist, mapped
vars == <<dfiles, results, arrays, buf, top, hist, mapped>>

\* mapped: the decorated files (indices into dfiles) the Decorator's node maps still describe
Init == dfiles = <<>> /\ results = <<>> /\ arrays = <<>> /\ buf = 0 /\ top = 1 /\ hist = <<>> /\ mapped = {}

Decorate(f) ==
  /\ Len(hist) < MaxCalls
  /\ dfiles' = Append(dfiles, f)
  /\ mapped' = mapped \cup {Len(dfiles) + 1}
  /\ hist' = Append(hist, [op |-> "decorate", a |-> f, via |-> ""])
  /\ UNCHANGED <<results, arrays, buf, top>>

\* a decoration the resolver refuses: an error, and the maps keep describing the files decorated before
\* (variant "resetOnRefusal": the maps are emptied to get rid of the half-built entries)
Refuse ==
  /\ CanRefuse /\ Len(hist) < MaxCalls
  /\ mapped' = IF Variant = "resetOnRefusal" THEN {} ELSE mapped
  /\ hist' = Append(hist, [op |-> "refuse", a |-> 0, via |-> ""])
  /\ UNCHANGED <<dfiles, results, arrays, buf, top>>

Restore(i, via) ==
  /\ Len(hist) < MaxCalls /\ i \in DOMAIN dfiles
  /\ \A j \in DOMAIN hist : ~(hist[j].op = "restore" /\ hist[j].a = i)   \* see above: once per Restorer
  /\ LET f == dfiles[i]
         reuse == Variant = "reuseLines" /\ via = "fr" /\ buf # 0
         a == IF reuse THEN buf ELSE Len(arrays) + 1
         lo == IF Variant = "sameBase" THEN 1 ELSE top
     IN /\ arrays' = IF reuse THEN [arrays EXCEPT ![a] = f] ELSE Append(arrays, f)
        /\ results' = Append(results, [file |-> f, arr |-> a, lo |-> lo, hi |-> lo + Size[f]])
        /\ buf' = IF via = "fr" THEN a ELSE buf
        /\ top' = lo + Size[f] + 1
  /\ hist' = Append(hist, [op |-> "restore", a |-> i, via |-> via])
  /\ UNCHANGED <<dfiles, mapped>>

PrintResult(k) ==
  /\ Len(hist) < MaxCalls /\ k \in DOMAIN results
  /\ hist' = Append(hist, [op |-> "print", a |-> k, via |-> ""])
  /\ UNCHANGED <<dfiles, results, arrays, buf, top, mapped>>

Next == Refuse \/ (\E f \in Files : Decorate(f)) \/ (\E i \in 1..MaxCalls, via \in {"fr", "r"} : Restore(i, via)) \/ (\E k \in 1..MaxCalls : PrintResult(k))
Spec == Init /\ [][Next]_vars

-----------------------------------------------------------------------------
\* a restored file keeps its own layout whatever is restored afterwards
Stable == \A k \in DOMAIN results : arrays[results[k].arr] = results[k].file
\* no two restored files share a line table
Unshared == \A j, k \in DOMAIN results : j # k => results[j].arr # results[k].arr
\* the position ranges of the restored files are disjoint and ascending
Disjoint == \A j, k \in DOMAIN results : j < k => results[j].hi < results[k].lo

\* the Decorator's maps describe every file it has decorated
MapsKept == mapped = DOMAIN dfiles

\* behaviours worth replaying: at least one restore, and the last call is a print
Emit == (EmitHist /\ Len(hist) = MaxCalls /\ results # <<>> /\ hist[Len(hist)].op = "print") => PrintT("BEH " \o ToJson([hist |-> hist]))
View == <<dfiles, results, arrays, buf, top, mapped, IF EmitHist THEN hist ELSE Len(hist)>>
=============================================================================
