----------------------------- MODULE ResolveCache -----------------------------
(***************************************************************************)
(* C09 -- the syntax-based resolver as an object with state.                *)
(*                                                                          *)
(* goast.DecoratorResolver memoises the import table of every *ast.File it  *)
(* has seen (r.files).  "Where it cannot decide it returns an error" is a   *)
(* statement about every call, so it has to hold for any history of calls   *)
(* on one resolver: the answer for a file may not depend on what was asked  *)
(* before, and a refusal may not be forgotten.                              *)
(*                                                                          *)
(* File "A" is built spec by spec (all import lists up to MaxSpecs); file   *)
(* "B" is a fixed decidable file.  Call(f) is one ResolveIdent on f: a      *)
(* cache hit answers from the stored table, a miss builds the table and     *)
(* stores it only when it is complete.  Variant "storeEarly" stores the     *)
(* table before it is filled (the partial table survives a refusal).        *)
(***************************************************************************)
EXTENDS Integers, Sequences, FiniteSets, TLC, Json

CONSTANTS Names, ImpPaths, MaxSpecs, NameOf, MaxCalls, Variant, EmitHist
VARIABLES fileA, cache, hist, phase
cvars == <<fileA, cache, hist, phase>>

R == INSTANCE Resolve WITH specs <- <<>>, done <- FALSE

Aliases == Names \cup {"", "_", "."}
CSpecSet == {[alias |-> a, path |-> p, name |-> NameOf[p]] : a \in Aliases, p \in ImpPaths}
FileB == << [alias |-> "", path |-> "p3", name |-> NameOf["p3"]] >>
Specs(f) == IF f = "A" THEN fileA ELSE FileB

Lookup(t, n) == IF n \in DOMAIN t THEN t[n] ELSE ""
Answer(err, t) == [err |-> err, a |-> IF err THEN "" ELSE Lookup(t, "a"), b |-> IF err THEN "" ELSE Lookup(t, "b")]

Init == fileA = <<>> /\ cache = [f \in {"A", "B"} |-> [has |-> FALSE, t |-> <<>>]] /\ hist = <<>> /\ phase = "build"
Build == phase = "build" /\ Len(fileA) < MaxSpecs /\ \E s \in CSpecSet : fileA' = Append(fileA, s) /\ UNCHANGED <<cache, hist, phase>>
Start == phase = "build" /\ phase' = "run" /\ UNCHANGED <<fileA, cache, hist>>
Call(f) ==
  /\ phase = "run" /\ Len(hist) < MaxCalls
  /\ IF cache[f].has
     THEN /\ hist' = Append(hist, [f |-> f] @@ Answer(FALSE, cache[f].t))
          /\ UNCHANGED cache
     ELSE LET r == R!GoastTable(Specs(f)) IN
          /\ hist' = Append(hist, [f |-> f] @@ Answer(r.err, r.t))
          /\ cache' = IF ~r.err \/ Variant = "storeEarly" THEN [cache EXCEPT ![f] = [has |-> TRUE, t |-> r.t]] ELSE cache
  /\ UNCHANGED <<fileA, phase>>
Next == Build \/ Start \/ \E f \in {"A", "B"} : Call(f)

\* every call refuses exactly when the file is undecidable, whatever was asked before
EveryCallDecides == \A i \in DOMAIN hist : hist[i].err <=> R!Undecidable(Specs(hist[i].f))
\* the answer for a file does not depend on the history
HistoryFree == \A i, j \in DOMAIN hist : hist[i].f = hist[j].f => hist[i] = hist[j]
\* an answer is the table of the file
AnswersSound == \A i \in DOMAIN hist : ~hist[i].err =>
   LET t == R!GoastTable(Specs(hist[i].f)).t IN hist[i].a = Lookup(t, "a") /\ hist[i].b = Lookup(t, "b")

Emit == (EmitHist /\ Len(hist) = MaxCalls) => PrintT("BEH " \o ToJson([specs |-> fileA, hist |-> hist]))
View == <<fileA, cache, phase, IF EmitHist THEN hist ELSE Len(hist)>>
=============================================================================
