----------------------------- MODULE ImportsTrace -----------------------------
(***************************************************************************)
(* C07, code -> specification.  Each record is one import-managed restore   *)
(* of a generated file by the real FileRestorer, re-parsed:                 *)
(*  {"src":[[path,state]..],"ov":[[path,state]..],"used":[paths],           *)
(*   "imports":[[path,alias]..]  import specs of the output, in order       *)
(*   "quals":[[path,qualifier]..] how the identifier carrying path prints   *)
(*   "locals":[qualifier..]      identifiers with empty / local path        *)
(*   "kept": bool   the import declarations were left textually untouched}  *)
(* Checked: the output is exactly what Imports!Result predicts (I), and the *)
(* property predicates hold on the observed output itself (P).              *)
(***************************************************************************)
EXTENDS Imports, Json

VARIABLE l
Trace == ndJsonDeserialize("trace.ndjson")
TInit == l = 1 /\ src = <<>> /\ ov = <<>> /\ used = {} /\ todo = {} /\ done = FALSE
TNext == l <= Len(Trace) /\ l' = l + 1 /\ UNCHANGED vars
Rec == Trace[l]
Live == l <= Len(Trace)

FromPairs(ps, default) == [p \in Paths |-> LET ix == {i \in DOMAIN ps : ps[i][1] = p} IN IF ix = {} THEN default ELSE ps[CHOOSE i \in ix : TRUE][2]]
CfgOf(rec) == [src |-> FromPairs(rec.src, "absent"), ov |-> FromPairs(rec.ov, "unset"), used |-> {rec.used[i] : i \in DOMAIN rec.used}]
ObsPaths(rec) == {rec.imports[i][1] : i \in DOMAIN rec.imports}
ObsAlias(rec, p) == rec.imports[CHOOSE i \in DOMAIN rec.imports : rec.imports[i][1] = p][2]
ObsName(rec, p) == IF ObsAlias(rec, p) # "" THEN ObsAlias(rec, p) ELSE Pkg[p]
ObsOrdinary(rec) == {p \in ObsPaths(rec) : ObsAlias(rec, p) \notin {"_", "."}}

\* (I) the real output is the specification's result
Conforms == Live => LET r == Result(CfgOf(Rec)) IN
   /\ ObsPaths(Rec) = r.req
   /\ \A p \in r.req : ObsAlias(Rec, p) = r.alias[p]
   /\ \A i \in DOMAIN Rec.quals : Rec.quals[i][2] = r.names[Rec.quals[i][1]]

\* (P) evaluated on the observed output
EachOnce == Live => \A i, j \in DOMAIN Rec.imports : i # j => Rec.imports[i][1] # Rec.imports[j][1]
Exact == Live => LET c == CfgOf(Rec) IN
   ObsPaths(Rec) = c.used \cup {p \in ObsPaths(Rec) : ObsAlias(Rec, p) = "_"} \cup (IF CPath \in Found(c) THEN {CPath} ELSE {})
Bound == Live => \A i \in DOMAIN Rec.quals : LET p == Rec.quals[i][1] q == Rec.quals[i][2] IN
   /\ p \in ObsPaths(Rec)
   /\ IF q = "" THEN ObsAlias(Rec, p) = "." ELSE (ObsAlias(Rec, p) \notin {"_", "."} /\ q = ObsName(Rec, p))
LocalsBare == Live => \A i \in DOMAIN Rec.locals : Rec.locals[i] = ""
Distinct == Live => \A p, q \in ObsOrdinary(Rec) : p # q => ObsName(Rec, p) # ObsName(Rec, q)
Precedence == Live => LET c == CfgOf(Rec) IN
   \A p \in ObsOrdinary(Rec) \cap c.used : p # CPath =>
      \/ ObsName(Rec, p) = Preferred(c, p)
      \/ \E k \in DOMAIN Digits : ObsName(Rec, p) = Preferred(c, p) \o Digits[k]
\* import declarations that need no change are left alone
NoChangeNeeded(c) == LET r == Result(c) IN r.req = Found(c) /\ \A p \in r.req : r.alias[p] = c.src[p]
NoOpKept == Live => (NoChangeNeeded(CfgOf(Rec)) => Rec.kept)

Accepted == TLCGet("stats").diameter = Len(Trace) + 1
=============================================================================
