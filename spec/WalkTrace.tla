------------------------------ MODULE WalkTrace ------------------------------
(***************************************************************************)
(* Trace validation for C13: visitor logs recorded from the real dst.Walk / *)
(* dst.Inspect are replayed through the Walk machine.  The tree comes from   *)
(* reflection over struct fields; its child order comes from NodeSchema.     *)
(* Events (ndjson):                                                          *)
(*   {"ev":"tree","tree":{...},"astorder":[ids]}  start of a trace           *)
(*   {"ev":"visit","n":id,"keep":bool,"vis":v}  v = identity of the visitor    *)
(*   {"ev":"nil","vis":v}                  that received the call: the      *)
(*        harness's visitor returns, for the children of a node at depth d,  *)
(*        a new visitor with identity d+1 (-1: not recorded)                 *)
(*   {"ev":"end"}                         the traversal returned             *)
(***************************************************************************)
EXTENDS Tree, Json, Integers, Sequences, FiniteSets

VARIABLES kidsOf, root, stack, started, count, pruned, nils, order, l, T, aborted

W == INSTANCE Walk WITH MaxNodes <- 0

Trace == ndJsonDeserialize("trace.ndjson")

tvars == <<kidsOf, root, stack, started, count, pruned, nils, order, l, T, aborted>>

Ev == Trace[l]

LoadTree(tr) ==
  /\ T' = tr
  /\ kidsOf' = [i \in DOMAIN tr.nodes |-> WalkKids(tr, tr.nodes[i])]
  /\ root' = tr.root
  /\ stack' = <<>> /\ started' = FALSE
  /\ count' = [i \in DOMAIN tr.nodes |-> 0]
  /\ pruned' = {} /\ nils' = 0 /\ order' = <<>> /\ aborted' = FALSE

TInit == /\ l = 1 /\ T = [root |-> 0, nodes |-> <<>>, astorder |-> <<>>]
         /\ kidsOf = <<>> /\ root = 0 /\ stack = <<>> /\ started = FALSE
         /\ count = <<>> /\ pruned = {} /\ nils = 0 /\ order = <<>> /\ aborted = FALSE

Consume == l <= Len(Trace) /\ l' = l + 1

TTree  == Consume /\ Ev.ev = "tree" /\ (l = 1 \/ W!Done) /\ LoadTree(Ev.tree)
\* the children of a node are visited with the visitor its Visit returned, and so is the closing call
HandedDown(v) == v = -1 \/ v = Len(stack)
TVisit == Consume /\ Ev.ev = "visit" /\ W!Visit(Ev.n, Ev.keep) /\ HandedDown(Ev.vis) /\ UNCHANGED <<T, aborted>>

\* C14: a pre callback of Apply; the cursor must locate the node inside its parent
CursorLocates(parent, name, index, n) ==
  IF parent = 0 THEN n = T.root /\ index < 0
  ELSE LET ix == {i \in DOMAIN T.nodes[parent].kids : T.nodes[parent].kids[i].f = name}
       IN /\ ix # {}
          /\ LET kd == T.nodes[parent].kids[CHOOSE i \in ix : TRUE]
             IN IF index < 0 THEN ~kd.list /\ kd.ids = <<n>>
                ELSE kd.list /\ index + 1 \in DOMAIN kd.ids /\ kd.ids[index + 1] = n
TCVisit == /\ Consume /\ Ev.ev = "cvisit" /\ W!Visit(Ev.n, Ev.keep)
           /\ CursorLocates(Ev.parent, Ev.name, Ev.index, Ev.n)
           /\ UNCHANGED <<T, aborted>>
\* post returned false: Apply stops at once and returns
TAbort == /\ Consume /\ Ev.ev = "abort" /\ started /\ stack # <<>> /\ W!Top.rest = <<>>
          /\ stack' = <<>> /\ aborted' = TRUE
          /\ UNCHANGED <<kidsOf, root, started, count, pruned, nils, order, T>>
TNil   == Consume /\ Ev.ev = "nil" /\ W!VisitNil /\ HandedDown(Ev.vis) /\ UNCHANGED <<T, aborted>>
TReset == Consume /\ Ev.ev = "reset" /\ W!Done /\ LoadTree(T)
TEnd   == Consume /\ Ev.ev = "end" /\ W!Done /\ UNCHANGED <<kidsOf, root, stack, started, count, pruned, nils, order, T, aborted>>

TNext == TTree \/ TReset \/ TVisit \/ TCVisit \/ TNil \/ TAbort \/ TEnd
TSpec == TInit /\ [][TNext]_tvars

\* P-layer, evaluated at every step of every recorded traversal
VisitedAtMostOnce == W!VisitedAtMostOnce
VisitedExactly == W!VisitedExactly
TraceVisitedExactly == aborted \/ W!VisitedExactly

\* a complete, unpruned traversal visits the nodes in the order go/ast visits their originals
AstOrder == (W!Done /\ pruned = {} /\ T.root # 0 /\ ~aborted) => order = T.astorder

View == l

\* the whole file was consumed
Accepted == TLCGet("stats").diameter = Len(Trace) + 1
=============================================================================
