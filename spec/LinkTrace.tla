------------------------------ MODULE LinkTrace ------------------------------
(***************************************************************************)
(* C01/C02/C03, code -> specification.  Each record is one call of the real *)
(* decorator on a snippet, observed through the verif hooks:                *)
(*   {"frags":[...fragment list after fragment()...],                       *)
(*    "decs":[{"node","name","d":[strings]}], "spaces":[{"node","b","a"}]}  *)
(* TLC runs the transcription of link() on the real fragment list and       *)
(* checks (I) the real attachment equals the specification's and (P) on the *)
(* specification's result: no panic state, every comment attached exactly   *)
(* once, and the restorer's line machine reproduces the source skeleton.    *)
(***************************************************************************)
EXTENDS Link, Json

VARIABLE l
Trace == ndJsonDeserialize("trace.ndjson")
TInit == l = 1
TNext == l <= Len(Trace) /\ l' = l + 1
Rec == Trace[l]

DecText(F, ds) == [k \in DOMAIN ds |-> IF ds[k].t = "com" THEN F[ds[k].i].text ELSE "\n"]
RealDec(rec, node, name) ==
  LET ix == {j \in DOMAIN rec.decs : rec.decs[j].node = node /\ rec.decs[j].name = name}
  IN IF ix = {} THEN <<>> ELSE rec.decs[CHOOSE j \in ix : TRUE].d
RealSp(rec, node) ==
  LET ix == {j \in DOMAIN rec.spaces : rec.spaces[j].node = node}
  IN IF ix = {} THEN [b |-> 0, a |-> 0] ELSE [b |-> rec.spaces[CHOOSE j \in ix : TRUE].b, a |-> rec.spaces[CHOOSE j \in ix : TRUE].a]

Verdict(rec) ==
  LET F == rec.frags
      st == Link(F)
      rs == Render(F, st, 1, [ln |-> 0, fresh |-> TRUE, out |-> <<>>]).out
  IN [ nopanic |-> ~st.panic,
       attached |-> \A c \in 1..Len(F) : F[c].k = "com" => ComCountFast(F, st, c) = 1,
       roundtrip |-> Shape(rs) = Shape(SrcItems(F, 1, 0)),
       conform |-> /\ \A d \in 1..Len(F) : (F[d].k = "dec" /\ ~F[d].dup) => DecText(F, st.decs[d]) = RealDec(rec, F[d].node, F[d].name)
                   /\ \A d \in 1..Len(F) : (F[d].k = "dec" /\ F[d].name = "Start") =>
                         (Sp(st.bef, F[d].node) = RealSp(rec, F[d].node).b /\ Sp(st.aft, F[d].node) = RealSp(rec, F[d].node).a) ]

Check == l <= Len(Trace) =>
  LET v == Verdict(Rec) IN
    (v.nopanic /\ v.attached /\ v.roundtrip /\ v.conform) \/ (PrintT("VERDICT " \o ToJson(v)) /\ FALSE)

\* the property layer alone (used when the code is known to deviate from the transcription)
CheckP == l <= Len(Trace) =>
  LET v == Verdict(Rec) IN
    (v.nopanic /\ v.attached /\ v.roundtrip) \/ (PrintT("VERDICT " \o ToJson(v)) /\ FALSE)

\* arbitrary formatting (C03): nothing is lost; the line skeleton may differ
CheckC03 == l <= Len(Trace) =>
  LET v == Verdict(Rec) IN
    (v.nopanic /\ v.attached) \/ (PrintT("VERDICT " \o ToJson(v)) /\ FALSE)

Accepted == TLCGet("stats").diameter = Len(Trace) + 1
=============================================================================
