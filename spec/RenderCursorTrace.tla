--------------------------- MODULE RenderCursorTrace ---------------------------
(***************************************************************************)
(* Code -> specification for the cursor machine.  Events from the restorer   *)
(* hooks (state AFTER the call):                                             *)
(*  {"ev":"begin","base":b}                                                  *)
(*  {"ev":"space","space":s,"cursor","atnl","lines","lastline"}              *)
(*  {"ev":"decs","end":bool,"file":bool,"name":point,"decs":[{k,len,inner,   *)
(*        lastInner}..], "cursor","atnl","lines","lastline"}                 *)
(*  {"ev":"literal",...}   after applyLiteral (raw string line breaks)        *)
(*  {"ev":"end","size":n,"cursor",...}                                       *)
(* The silent advance over tokens between two events is whatever makes the   *)
(* logged state reachable; TLC searches d in 0..(logged cursor - cursor).    *)
(***************************************************************************)
EXTENDS Render, Json

VARIABLE l
Trace == ndJsonDeserialize("trace.ndjson")
Ev == Trace[l]
tvars == <<cursor, atNL, nlines, last, base, l>>

TInit == l = 1 /\ cursor = 0 /\ atNL = 0 /\ nlines = 0 /\ last = 0 /\ base = 0
Consume == l <= Len(Trace) /\ l' = l + 1
Logged == cursor' = Ev.cursor /\ atNL' = Ev.atnl /\ nlines' = Ev.lines /\ last' = Ev.lastline

TBegin == Consume /\ Ev.ev = "begin" /\ Begin(Ev.base) /\ Logged
TSpace == Consume /\ Ev.ev = "space" /\ Ev.cursor >= cursor
          /\ \E d \in 0..(Ev.cursor - cursor) : ApplySpace(Ev.space, d) /\ Logged
TDecs  == Consume /\ Ev.ev = "decs" /\ Ev.cursor >= cursor
          /\ \E d \in 0..(Ev.cursor - cursor) : ApplyDecs(Ev.decs, Ev.end, Ev.file /\ Ev.name = "Start", d) /\ Logged
\* a multi-line raw string literal adds its inner line breaks to the table
TLiteral == Consume /\ Ev.ev = "literal" /\ Ev.cursor >= cursor
            /\ cursor' = Ev.cursor /\ atNL' = atNL /\ Ev.atnl = atNL /\ base' = base
            /\ nlines' = Ev.lines /\ last' = Ev.lastline
            /\ Ev.lines >= nlines /\ (Ev.lines > nlines => Ev.lastline > last) /\ (Ev.lines = nlines => Ev.lastline = last)
\* the registered file must hold every position and every line start
TEnd   == Consume /\ Ev.ev = "end" /\ Ev.cursor >= cursor
          /\ cursor' = Ev.cursor /\ UNCHANGED <<atNL, nlines, last, base>>
          /\ Ev.size >= Ev.cursor - base /\ Ev.size > last
TNext == TBegin \/ TSpace \/ TDecs \/ TLiteral \/ TEnd
TSpec == TInit /\ [][TNext]_tvars

\* P-layer, at every step: positions only move forward inside one file, new line starts lie beyond the old ones
MonotoneT == [][(l <= Len(Trace) /\ Trace[l].ev # "begin") => cursor' >= cursor]_tvars
LinesGrowT == [][(l <= Len(Trace) /\ Trace[l].ev # "begin" /\ nlines' > nlines) => last' > last]_tvars
InFile == cursor >= base
LinesOrdered == nlines > 1 => last > 0
View == l
Accepted == TLCGet("stats").diameter = Len(Trace) + 1
=============================================================================
