-------------------------------- MODULE Apply --------------------------------
(***************************************************************************)
(* C14 -- dstutil.Apply's list iteration and cursor operations, with the    *)
(* arithmetic of dstutil/rewrite.go (applyList, Cursor.Delete/Replace/      *)
(* InsertBefore/InsertAfter), which is astutil's.                           *)
(*                                                                          *)
(* list   : the slice being iterated; 1..N are the original elements,       *)
(*          values >= 100 are inserted or replacement nodes                 *)
(* index  : iterator.index (1-based here), step : iterator.step            *)
(* phase  : load -> pre -> (kids) -> post -> load ... | done | aborted      *)
(* cur    : the node the cursor was created for (Cursor.Node())             *)
(* ops    : cursor operations issued in the current callback               *)
(* gone   : originals deleted or replaced so far                            *)
(* afterDel : some cursor operation was issued after Delete on the element  *)
(*          of the same visit (the documented grey zone; see K3)            *)
(* hist   : one record per callback, for replay on the real code            *)
(***************************************************************************)
EXTENDS Integers, Sequences, FiniteSets, TLC, Json

CONSTANTS N,            \* number of original elements
          MaxOps,       \* cursor operations per callback
          MaxLen,       \* bound on the list length
          AllowAfterDelete,  \* TRUE: explore operations after Delete within one visit (K3 domain)
          AllowFalse,   \* TRUE: pre / post may return false
          EmitHist

VARIABLES list, index, step, phase, ops, cur, visits, posts, fresh, gone, afterDel, delNow, hist, curOps

vars == <<list, index, step, phase, ops, cur, visits, posts, fresh, gone, afterDel, delNow, hist, curOps>>
view == <<list, index, step, phase, ops, cur, visits, posts, fresh, gone, afterDel, delNow>>

Orig == 1..N

Init == /\ list = [i \in 1..N |-> i]
        /\ index = 1 /\ step = 1 /\ phase = "load" /\ ops = 0 /\ cur = 0
        /\ visits = [e \in Orig |-> 0] /\ posts = [e \in Orig |-> 0]
        /\ fresh = 100 /\ gone = {} /\ afterDel = FALSE /\ delNow = FALSE
        /\ hist = <<>> /\ curOps = <<>>

RemoveAt(s, i) == [k \in 1..(Len(s) - 1) |-> IF k < i THEN s[k] ELSE s[k + 1]]
InsertAt(s, i, x) == [k \in 1..(Len(s) + 1) |-> IF k < i THEN s[k] ELSE IF k = i THEN x ELSE s[k - 1]]

\* applyList loop head: reload the slice, test the bound, step = 1, call pre
Load ==
  /\ phase = "load"
  /\ IF index < 1 \/ index > Len(list)
     THEN /\ phase' = IF index < 1 THEN "panicked" ELSE "done"   \* a negative index makes reflect panic
          /\ UNCHANGED <<list, index, step, ops, cur, visits, posts, fresh, gone, afterDel, delNow, hist, curOps>>
     ELSE /\ cur' = list[index] /\ step' = 1 /\ ops' = 0 /\ phase' = "pre" /\ delNow' = FALSE /\ curOps' = <<>>
          /\ visits' = IF list[index] \in Orig THEN [visits EXCEPT ![list[index]] = @ + 1] ELSE visits
          /\ UNCHANGED <<list, index, posts, fresh, gone, afterDel, hist>>

InCb == phase \in {"pre", "post"} /\ ops < MaxOps /\ (AllowAfterDelete \/ ~delNow)
Note(op) == /\ ops' = ops + 1 /\ curOps' = Append(curOps, op) /\ afterDel' = (afterDel \/ delNow)

\* the real code panics (index out of range) when the iterator points past the slice; not modelled
InRange == index <= Len(list)

Delete ==
  /\ InCb /\ InRange
  /\ list' = RemoveAt(list, index) /\ step' = step - 1
  /\ gone' = gone \cup ({list[index]} \cap Orig) /\ delNow' = TRUE
  /\ Note("Delete")
  /\ UNCHANGED <<index, phase, cur, visits, posts, fresh, hist>>

InsertAfter ==
  /\ InCb /\ InRange /\ Len(list) < MaxLen
  /\ list' = InsertAt(list, index + 1, fresh) /\ step' = step + 1 /\ fresh' = fresh + 1
  /\ Note("InsertAfter")
  /\ UNCHANGED <<index, phase, cur, visits, posts, gone, delNow, hist>>

InsertBefore ==
  /\ InCb /\ InRange /\ Len(list) < MaxLen
  /\ list' = InsertAt(list, index, fresh) /\ index' = index + 1 /\ fresh' = fresh + 1
  /\ Note("InsertBefore")
  /\ UNCHANGED <<step, phase, cur, visits, posts, gone, delNow, hist>>

Replace ==
  /\ InCb /\ InRange
  /\ list' = [list EXCEPT ![index] = fresh] /\ fresh' = fresh + 1
  /\ gone' = gone \cup ({list[index]} \cap Orig)
  /\ Note("Replace")
  /\ UNCHANGED <<index, step, phase, cur, visits, posts, delNow, hist>>

Rec(ret) == [cb |-> phase, elem |-> cur, ops |-> curOps, ret |-> ret, listAfter |-> list]

\* pre returns: true -> children, then post; false -> skip children and post
EndPre(ret) ==
  /\ phase = "pre" /\ (ret \/ AllowFalse)
  /\ hist' = Append(hist, Rec(ret))
  /\ ops' = 0 /\ curOps' = <<>>
  /\ IF ret THEN phase' = "post" /\ UNCHANGED index
            ELSE phase' = "load" /\ index' = index + step
  /\ UNCHANGED <<list, step, cur, visits, posts, fresh, gone, afterDel, delNow>>

\* post returns: true -> next element; false -> Apply stops and still returns the tree
EndPost(ret) ==
  /\ phase = "post" /\ (ret \/ AllowFalse)
  /\ hist' = Append(hist, Rec(ret))
  /\ posts' = IF cur \in Orig THEN [posts EXCEPT ![cur] = @ + 1] ELSE posts
  /\ ops' = 0 /\ curOps' = <<>>
  /\ IF ret THEN phase' = "load" /\ index' = index + step
            ELSE phase' = "aborted" /\ UNCHANGED index
  /\ UNCHANGED <<list, step, cur, visits, fresh, gone, afterDel, delNow>>

Next == Load \/ Delete \/ InsertAfter \/ InsertBefore \/ Replace
        \/ (\E r \in BOOLEAN : EndPre(r) \/ EndPost(r))

Spec == Init /\ [][Next]_vars

-----------------------------------------------------------------------------
(* P-layer.  The guarantees are stated for visits in which no further cursor *)
(* operation follows Delete (afterDel = FALSE); the other histories are the  *)
(* recorded finding K3 and are explored with AllowAfterDelete = TRUE.        *)
InsertedNeverVisited == ~afterDel => cur < 100
VisitedAtMostOnce == ~afterDel => \A e \in Orig : visits[e] <= 1
\* a full run visits every original exactly once (elements can only disappear while current)
NothingSkipped == (phase = "done" /\ ~afterDel) => \A e \in Orig : visits[e] = 1
PostAtMostOnce == ~afterDel => \A e \in Orig : posts[e] <= visits[e]
\* the cursor locates the node when a callback starts
CursorLocates == (phase \in {"pre", "post"} /\ ops = 0 /\ ~delNow /\ cur \notin gone /\ cur < 100)
                   => (index <= Len(list) /\ list[index] = cur)
IndexSane == phase # "panicked"

Finished == phase \in {"done", "aborted", "panicked"}
Emit == (EmitHist /\ Finished) => PrintT("BEH " \o ToJson([hist |-> hist, final |-> list, afterDel |-> afterDel, end |-> phase]))
=============================================================================
