--------------------------------- MODULE Save ---------------------------------
(***************************************************************************)
(* C20 -- Package.Save / SaveWithResolver: for each decorated file in order, *)
(* print it with import management (the resolver may fail) and write the     *)
(* bytes to the path the file was loaded from.                               *)
(*   disk[p]    : "old" | "new(i)" content tag of path p                     *)
(*   k          : index of the file being processed                          *)
(*   failAt     : file whose print fails (0 = none)                          *)
(*   size[i]    : the print of file i is "shorter", "same" or "longer" than   *)
(*                what the path holds (an edit may remove code)               *)
(*   stale[p]   : path p still holds bytes of its previous content            *)
(* ContinueAfterError / WrongPath / NoTruncate are the mistakes the           *)
(* invariants catch.                                                          *)
(***************************************************************************)
EXTENDS Integers, Sequences, FiniteSets, TLC

CONSTANTS NFiles, Variant   \* "code" | "continue-after-error" | "wrong-path" | "no-truncate"
VARIABLES disk, k, failAt, result, size, stale
vars == <<disk, k, failAt, result, size, stale>>

Paths == 1..(NFiles + 1)          \* NFiles recorded paths and one unrelated file in the directory
Init == /\ disk = [p \in Paths |-> 0] /\ k = 1 /\ failAt \in 0..NFiles /\ result = "running"
        /\ size \in [1..NFiles -> {"shorter", "same", "longer"}] /\ stale = [p \in Paths |-> FALSE]

Step ==
  /\ result = "running" /\ k <= NFiles
  /\ IF k = failAt
     THEN /\ result' = IF Variant = "continue-after-error" THEN "running" ELSE "error"
          /\ UNCHANGED <<disk, stale>>
     ELSE LET p == IF Variant = "wrong-path" /\ k > 1 THEN k - 1 ELSE k IN
          /\ disk' = [disk EXCEPT ![p] = k]
          \* the write replaces the whole content: nothing of a longer previous content survives
          /\ stale' = [stale EXCEPT ![p] = (Variant = "no-truncate" /\ size[k] = "shorter")]
          /\ result' = result
  /\ k' = k + 1 /\ UNCHANGED <<failAt, size>>
Finish == result = "running" /\ k > NFiles /\ result' = (IF failAt = 0 \/ Variant # "continue-after-error" THEN "ok" ELSE "error") /\ UNCHANGED <<disk, k, failAt, size, stale>>
Next == Step \/ Finish

\* only the recorded paths are written, each with the print of its own file
OnlyRecordedPaths == disk[NFiles + 1] = 0
OwnContents == \A p \in 1..NFiles : disk[p] \in {0, p} /\ ~stale[p]
\* after a failure at file i no later file is written and the error is returned
StopAtFirstError == (failAt # 0 /\ k > failAt) => (result = "error" /\ \A p \in failAt..NFiles : disk[p] = 0)
AllWrittenOnSuccess == result = "ok" => \A p \in 1..NFiles : disk[p] = p
=============================================================================
