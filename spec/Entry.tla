-------------------------------- MODULE Entry --------------------------------
(***************************************************************************)
(* C15 -- the parse / print entry points under parser failure.              *)
(* The environment (go/parser) answers with one of the outcome classes:     *)
(*   nilerr     no file, an error                                           *)
(*   nopkg      a file without a valid package clause, an error             *)
(*   partial    a file with a package clause and Bad nodes, an error        *)
(*   ok         a file, no error                                            *)
(* The entry point then either returns the error, or decorates what it got. *)
(* Decoration dereferences FileSet.File(file.Pos()), which only exists for  *)
(* a valid package position: that implicit precondition is a guard here;    *)
(* when it is not met the machine moves to "panic".                         *)
(* GuardPackage = FALSE is the pinned code, TRUE the code with the fix.     *)
(* "Parse+imports" is Decorator.Parse on a decorator with an identifier      *)
(* resolver: decoration then reads the import specs; a spec whose path is    *)
(* not a string literal (possible in a partial file: badimport) cannot be    *)
(* unquoted.  GuardImportPath = FALSE: the resolver panics there; TRUE: it   *)
(* returns an error.  The resolver may also refuse a well-formed file.       *)
(* "ParseDir+imports" is Decorator.ParseDir on such a decorator: the package *)
(* is decorated as a whole, and the resolver has to be given the file an     *)
(* identifier stands in.  GuardPackageFile = FALSE: it is given no file and  *)
(* the syntax-based resolver dereferences nil at the first identifier it is  *)
(* asked about (hasRef); TRUE: the file is looked up in the package.         *)
(***************************************************************************)
EXTENDS Naturals, Sequences, TLC

CONSTANTS GuardPackage, GuardImportPath, GuardPackageFile
VARIABLES cls, entry, pc, result, badimport, hasRef

vars == <<cls, entry, pc, result, badimport, hasRef>>
Classes == {"nilerr", "nopkg", "partial", "ok"}
Entries == {"Parse", "ParseFile", "ParseDir", "Parse+imports", "ParseDir+imports"}
Dir(e) == e \in {"ParseDir", "ParseDir+imports"}
Imp(e) == e \in {"Parse+imports", "ParseDir+imports"}

Init == /\ cls \in Classes /\ entry \in Entries /\ pc = "parse" /\ result = "none"
        /\ badimport \in BOOLEAN /\ (badimport => cls = "partial")
        /\ hasRef \in BOOLEAN          \* the file holds an identifier the resolver is asked about

\* parser.ParseFile / ParseDir returned
AfterParse ==
  /\ pc = "parse"
  /\ IF cls = "nilerr" \/ (Dir(entry) /\ cls # "ok")
     THEN pc' = "done" /\ result' = "error"                      \* perr != nil && f == nil / ParseDir err
     ELSE IF cls = "nopkg" /\ GuardPackage
     THEN pc' = "done" /\ result' = "error"                      \* the fix: no package clause -> the parse error
     ELSE pc' = "decorate" /\ result' = result
  /\ UNCHANGED <<cls, entry, badimport, hasRef>>

\* DecorateFile: fragment() needs Fset.File(file.Pos())
Decorate ==
  /\ pc = "decorate"
  /\ IF cls = "nopkg" THEN pc' = "panic" /\ result' = "panic"
     ELSE IF entry = "ParseDir+imports" /\ hasRef /\ ~GuardPackageFile
     THEN pc' = "panic" /\ result' = "panic"
     ELSE IF Imp(entry) /\ badimport
     THEN IF GuardImportPath THEN pc' = "done" /\ result' = "error" ELSE pc' = "panic" /\ result' = "panic"
     ELSE \/ pc' = "print" /\ result' = IF cls = "ok" THEN "tree" ELSE "tree+error"
          \/ Imp(entry) /\ pc' = "done" /\ result' = "error"      \* the resolver refuses (dot-import ...)
  /\ UNCHANGED <<cls, entry, badimport, hasRef>>

\* printing the returned tree: output or an error (format.Node may refuse Bad nodes)
DoPrint ==
  /\ pc = "print"
  /\ \E r \in {"output", "printerror"} : (cls = "ok" => r = "output") /\ result' = r
  /\ pc' = "done"
  /\ UNCHANGED <<cls, entry, badimport, hasRef>>

Next == AfterParse \/ Decorate \/ DoPrint
Spec == Init /\ [][Next]_vars

NoPanic == pc # "panic"
\* inputs without a package clause are reported through the error result
NoPackageIsError == (pc = "done" /\ cls \in {"nilerr", "nopkg"}) => result = "error"

\* what an observed (entry, class, parse outcome, print outcome) may be
AllowedParse(e, c) ==
  CASE c = "ok" -> IF Imp(e) THEN {"tree", "error"} ELSE {"tree"}
    [] c = "partial" -> IF Dir(e) THEN {"error"} ELSE {"tree+error", "error"}
    [] OTHER -> {"error"}
AllowedPrint(c, p) == IF p \in {"tree", "tree+error"} THEN (IF c = "ok" THEN {"output"} ELSE {"output", "printerror"}) ELSE {"none"}
=============================================================================
