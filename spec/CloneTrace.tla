------------------------------ MODULE CloneTrace ------------------------------
(***************************************************************************)
(* C06, code -> specification.  Records produced from real dst.Clone calls: *)
(*  {"ev":"clone","orig":T,"clone":T,"sharedNodes":n,"sharedArrays":n,      *)
(*   "cloneObjs":n,"origAfterCloneMutated":T,"cloneAfterOrigMutated":T,      *)
(*   "clone2":T,"printedSame":bool}                                          *)
(*     T = reflective export (every struct field, every decoration list)     *)
(*  {"ev":"share","shared":bool,"outcome":"panic"|"ok"|"error-..."}        *)
(* The laws are those of Clone.tla, with "what printing consults" spelled    *)
(* out through the node schema: every part of every node type.               *)
(***************************************************************************)
EXTENDS Tree, Json, Integers, Sequences, FiniteSets

VARIABLE l
Trace == ndJsonDeserialize("trace.ndjson")
TInit == l = 1
TNext == l <= Len(Trace) /\ l' = l + 1
Rec == Trace[l]
IsClone == l <= Len(Trace) /\ Rec.ev = "clone"
IsShare == l <= Len(Trace) /\ Rec.ev = "share"

KidShape(n) == [i \in DOMAIN n.kids |-> [f |-> n.kids[i].f, ids |-> n.kids[i].ids]]

\* node b carries everything of node a that the schema lists for its type, and every decoration list
NodeCarried(a, b) ==
  /\ a.type = b.type /\ a.truthy = b.truthy /\ a.s = b.s /\ a.t = b.t /\ a.path = b.path
  /\ a.before = b.before /\ a.after = b.after
  /\ KidShape(a) = KidShape(b)
  /\ \A i \in DOMAIN Parts(a) : Parts(a)[i].k \in {"dec", "decoff", "special"} =>
        DecsAt(a, Parts(a)[i].name) = DecsAt(b, Parts(a)[i].name)
  /\ a.decs = b.decs

SameTree(t1, t2) == /\ t1.root = t2.root /\ Len(t1.nodes) = Len(t2.nodes)
                    /\ \A i \in DOMAIN t1.nodes : NodeCarried(t1.nodes[i], t2.nodes[i])

Iso == IsClone => (SameTree(Rec.orig, Rec.clone) /\ Rec.printedSame)
Disjoint == IsClone => (Rec.sharedNodes = 0 /\ Rec.sharedArrays = 0)
ObjDropped == IsClone => Rec.cloneObjs = 0
MutationIsolation == IsClone => /\ SameTree(Rec.orig, Rec.origAfterCloneMutated)
                                /\ SameTree(Rec.clone2, Rec.cloneAfterOrigMutated)
\* (any panic counts: the property asks for a panic instead of output, not for a particular message)
DupDetected == IsShare => Rec.outcome = (IF Rec.shared THEN "panic" ELSE "ok")

Accepted == TLCGet("stats").diameter = Len(Trace) + 1
=============================================================================
