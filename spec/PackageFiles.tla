---------------------------- MODULE PackageFiles ----------------------------
(***************************************************************************)
(* C09 C10 C08 -- decorating a package as a whole (Decorator.ParseDir,       *)
(* DecorateNode on an *ast.Package) with a resolver that works per file.    *)
(*                                                                          *)
(* The syntax-based resolver reads the import table of THE FILE an          *)
(* identifier stands in.  When a single file is decorated that file is      *)
(* known; when a package is decorated the decorator has to find it.  All    *)
(* files of the package share one position space (the FileSet), a file      *)
(* node covers the positions from its package clause to the end of its last *)
(* declaration, and the file of an identifier is the one whose range holds  *)
(* the identifier's START.  Three seeded changes (C09-i / C10-l, C08-m,      *)
(* C15-m) were slips in exactly this step; they are the wrong variants      *)
(* here:                                                                    *)
(*                                                                          *)
(*   "range"      pos(file) <= pos(id) < end(file)                 (the code) *)
(*   "whole"      pos(file) <= pos(id) /\ end(id) < end(file): an identifier *)
(*                that is the last token of its file belongs to no file     *)
(*   "name"       the file whose NAME equals the name the FileSet reports   *)
(*                for the identifier's position - which a //line directive  *)
(*                in front of it has replaced by another name               *)
(*   "remember"   the file found for the first identifier is kept for all   *)
(*                later ones                                                *)
(*                                                                          *)
(* files[i] = [dir, last]: dir = what a //line directive in front of the    *)
(* file's declarations names ("none", "sibling" = the next file of the      *)
(* package, cyclically, "other" = a file that is not part of the package),  *)
(* last = the file ends in an identifier.  Every file holds two qualified   *)
(* identifiers x.A and x.Z; each file imports ANOTHER package under the     *)
(* name x.  The files are decorated in any order (a Go map).                *)
(***************************************************************************)
EXTENDS Integers, Sequences, FiniteSets, TLC, Json

CONSTANTS NFiles, Variant, EmitHist
VARIABLES files, order, done, remembered, wrong

vars == <<files, order, done, remembered, wrong>>
F == 1..NFiles
Dirs == {"none", "sibling", "other"}

\* identifiers: <<file, k>>, k = 1 (first), 2 (the last one of the file)
Ids == F \X {1, 2}
Sibling(i) == (i % NFiles) + 1

\* the file the FileSet NAMES for a position in file i behind its directive
NamedFile(i) == CASE files[i].dir = "none" -> i
                  [] files[i].dir = "sibling" -> Sibling(i)
                  [] OTHER -> 0
\* is identifier <<i, k>> wholly inside the range of file i?  (the last token ends where the file ends)
WhollyInside(i, k) == ~(k = 2 /\ files[i].last)

Found(i, k) ==
  CASE Variant = "range" -> i
    [] Variant = "whole" -> IF WhollyInside(i, k) THEN i ELSE 0
    [] Variant = "name" -> NamedFile(i)
    [] Variant = "remember" -> IF remembered = 0 THEN i ELSE remembered
    [] OTHER -> i

Init == /\ files \in [F -> [dir : Dirs, last : BOOLEAN]]
        /\ order \in {o \in [F -> F] : \A a, b \in F : a # b => o[a] # o[b]}
        /\ done = 0 /\ remembered = 0 /\ wrong = {}

\* one file is decorated: its two identifiers are resolved in source order
Step == /\ done < NFiles
        /\ LET i == order[done + 1]
               f1 == Found(i, 1)
               r1 == IF remembered = 0 THEN f1 ELSE remembered
               f2 == IF Variant = "remember" THEN r1 ELSE Found(i, 2)
           IN /\ wrong' = wrong \cup (IF f1 # i THEN {<<i, 1>>} ELSE {}) \cup (IF f2 # i THEN {<<i, 2>>} ELSE {})
              /\ remembered' = IF Variant = "remember" THEN r1 ELSE 0
        /\ done' = done + 1
        /\ UNCHANGED <<files, order>>
Next == Step
Spec == Init /\ [][Next]_vars

\* every identifier is resolved against the import table of the file it stands in
OwnFile == wrong = {}
Emit == (EmitHist /\ done = 0 /\ order = [i \in F |-> i]) => PrintT("BEH " \o ToJson([files |-> files, order |-> order]))
=============================================================================
