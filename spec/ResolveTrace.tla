------------------------------ MODULE ResolveTrace ------------------------------
(* C09, code -> specification: one record per identifier of a type-checked program          *)
(*  {"role":r,"objPath":p (vendor prefix stripped),"local":localPath,"types":path assigned   *)
(*   with the types-based resolver,"ast":path with the syntax-based one or "<n/a>"}          *)
(* and one record per file for the syntax-based resolver's verdict:                          *)
(*  {"role":"file","specs":[{alias,path,name}..],"refused":bool}                             *)
EXTENDS Resolve, Json
VARIABLE l
Trace == ndJsonDeserialize("trace.ndjson")
TInit == l = 1 /\ specs = <<>> /\ done = FALSE
TNext == l <= Len(Trace) /\ l' = l + 1 /\ UNCHANGED vars
Rec == Trace[l]
IsIdent == l <= Len(Trace) /\ Rec.role # "file"
IsFile == l <= Len(Trace) /\ Rec.role = "file"
\* the types-based resolver assigns exactly the expected path
TypesExact == IsIdent => Rec.types = ExpectedPath(Rec.role, Rec.objPath, Rec.local, Rec.rl)
\* where the syntax-based resolver applies it agrees
AstAgrees == (IsIdent /\ Rec.ast # "<n/a>" /\ ~Rec.rl) => Rec.ast = Rec.types
\* it refuses exactly dot-imports and duplicate names
RefusesWhenUndecidable == IsFile => (Rec.refused <=> GoastTable(Rec.specs).err)
Accepted == TLCGet("stats").diameter = Len(Trace) + 1
=============================================================================
