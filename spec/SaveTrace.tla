------------------------------ MODULE SaveTrace ------------------------------
(* C20: observations of real SaveWithResolver calls on packages in a temp directory:          *)
(* {"files":n,"failFile":i,"err":b,"wrapped":b,"panic":b,"written":[b..],"own":[b..],         *)
(*  "unedited":[b..],"identical":[b..],"othersTouched":b}                                      *)
EXTENDS Integers, Sequences, TLC, Json
VARIABLE l
Trace == ndJsonDeserialize("trace.ndjson")
TInit == l = 1
TNext == l <= Len(Trace) /\ l' = l + 1
Rec == Trace[l]
Live == l <= Len(Trace)
NoPanic == Live => ~Rec.panic
OnlyRecordedPaths == Live => ~Rec.othersTouched
\* every written file holds the import-managed print of its own decorated file
OwnContents == Live => \A i \in DOMAIN Rec.written : Rec.written[i] => Rec.own[i]
\* unedited gofmt-canonical sources are byte-identical before and after
UneditedIdentity == Live => \A i \in DOMAIN Rec.written : (Rec.written[i] /\ Rec.unedited[i]) => Rec.identical[i]
StopAtFirstError == (Live /\ Rec.failFile # 0) =>
   /\ Rec.err /\ Rec.wrapped
   /\ \A i \in DOMAIN Rec.written : (i >= Rec.failFile) => ~Rec.written[i]
\* I-layer (conformance with Save.tla, not demanded by the property): the files in front of the failing
\* one have been written when the failure is met (an implementation that renders every file before it
\* writes any keeps the property and writes none of them)
WritesUpToFailure == (Live /\ Rec.failFile # 0) => \A i \in DOMAIN Rec.written : (i < Rec.failFile) => Rec.written[i]
\* (a file that already holds its print need not be touched: what the property asks for is what is on disk
\* afterwards, and a write of identical bytes cannot be told from no write)
AllWrittenOnSuccess == (Live /\ Rec.failFile = 0) => (~Rec.err /\ \A i \in DOMAIN Rec.written : Rec.written[i] \/ Rec.own[i])
Accepted == TLCGet("stats").diameter = Len(Trace) + 1
=============================================================================
