------------------------------- MODULE Deferred -------------------------------
(***************************************************************************)
(* C18 C16 -- the restorer's side of the object graph (Restorer.Extras).    *)
(*                                                                          *)
(* Unlike the decorator (Objects.tla) the restorer cannot convert an        *)
(* object's declaration where it meets the object: it is "not at the right  *)
(* cursor position".  restoreObject therefore only REGISTERS the link       *)
(* (object -> declaring node), and a pass after the file has been rendered  *)
(* converts the registered nodes.  Most of them are part of the file and    *)
(* are found in the node memo; a node that is NOT part of the file (the     *)
(* AssignStmt the parser invents for range variables, a declaration that    *)
(* was removed from the tree or lives in another file while an object still *)
(* points to it) is converted then -- and converting it can meet objects    *)
(* for the first time (the parameters and locals of a removed function),    *)
(* which registers further links WHILE the pass is running.                 *)
(*                                                                          *)
(*   par[n]     parent of node n; node 1 is the file; par[n] = 0 for n > 1  *)
(*              makes n the root of a subtree outside the file              *)
(*   objOf[n]   object the identifier n denotes (0: none)                   *)
(*   declOf[o]  node that declares object o                                 *)
(*   links      registered (object, node) pairs not yet processed           *)
(*   linked     objects whose Decl has been filled in                       *)
(*                                                                          *)
(*   com[n]     node n carries comment decorations                          *)
(*   pending    comments collected while nodes are converted                *)
(*   fileComs   the comments handed to the restored file (what is printed)  *)
(*                                                                          *)
(* Converting a node also collects its comments (they are rendered through  *)
(* the file's comment list).  The list is handed to the file when the file  *)
(* has been rendered, BEFORE the pass: what the pass converts afterwards is *)
(* not part of the file and its comments must not be printed with it.       *)
(*                                                                          *)
(* Variant "worklist": the pass runs until no link is left.                 *)
(* Variant "snapshot": the pass ranges over the links (a Go map) while      *)
(* links are added to it: an entry added during the iteration may or may    *)
(* not be produced, so each new link is nondeterministically dropped.       *)
(* Variant "lateComments": the comment list is handed over after the pass   *)
(* (three seeded changes of round 11 did exactly this).                     *)
(***************************************************************************)
EXTENDS Integers, Sequences, FiniteSets, TLC

CONSTANTS N, M, Variant, Coms      \* Coms = FALSE: no node carries a comment (the object-graph part alone)
VARIABLES par, objOf, declOf, com, memoN, memoO, links, linked, phase, pending, fileComs
vars == <<par, objOf, declOf, com, memoN, memoO, links, linked, phase, pending, fileComs>>

Nodes == 1..N
Objs == 1..M
Kids(n) == {c \in Nodes : par[c] = n}
RECURSIVE Sub(_)
Sub(n) == {n} \cup UNION {Sub(c) : c \in Kids(n)}

Init == /\ par \in {p \in [Nodes -> 0..(N - 1)] : p[1] = 0 /\ \A i \in 2..N : p[i] < i}
        /\ objOf \in [Nodes -> 0..M]
        /\ declOf \in [Objs -> Nodes]
        /\ com \in (IF Coms THEN [Nodes -> BOOLEAN] ELSE {[n \in Nodes |-> FALSE]})
        /\ memoN = {} /\ memoO = {} /\ links = {} /\ linked = {} /\ phase = "render"
        /\ pending = {} /\ fileComs = {}

\* restoreNode(n): the whole subtree in one step (the order inside does not matter here); every
\* object met for the first time registers its link
NewNodes(n) == Sub(n) \ memoN
NewObjs(n) == {objOf[x] : x \in NewNodes(n)} \ ({0} \cup memoO)
NewLinks(n) == {<<o, declOf[o]>> : o \in NewObjs(n)}
NewComs(n) == {x \in NewNodes(n) : com[x]}

Render == /\ phase = "render" /\ phase' = "post"
          /\ memoN' = memoN \cup NewNodes(1) /\ memoO' = memoO \cup NewObjs(1) /\ links' = NewLinks(1)
          /\ pending' = NewComs(1)
          /\ fileComs' = IF Variant = "lateComments" THEN {} ELSE NewComs(1)
          /\ UNCHANGED <<par, objOf, declOf, com, linked>>

\* one iteration of the pass after rendering: a node of the file is found in the memo, any other
\* node is converted now
Post == /\ phase = "post" /\ links # {}
        /\ \E l \in links :
             /\ memoN' = memoN \cup NewNodes(l[2]) /\ memoO' = memoO \cup NewObjs(l[2])
             /\ linked' = linked \cup {l[1]}
             /\ pending' = pending \cup NewComs(l[2])
             /\ IF Variant = "snapshot"
                THEN \E kept \in SUBSET NewLinks(l[2]) : links' = (links \ {l}) \cup kept
                ELSE links' = (links \ {l}) \cup NewLinks(l[2])
        /\ UNCHANGED <<par, objOf, declOf, com, phase, fileComs>>

Finish == /\ phase = "post" /\ links = {} /\ phase' = "done"
          /\ fileComs' = IF Variant = "lateComments" THEN pending ELSE fileComs
          /\ UNCHANGED <<par, objOf, declOf, com, memoN, memoO, links, linked, pending>>
Next == Render \/ Post \/ Finish
Spec == Init /\ [][Next]_vars

\* every object that got a counterpart has its declaration link filled in at the end
AllLinked == phase = "done" => linked = memoO
\* and every object reachable from the file (through declarations outside it too) has a counterpart
RECURSIVE Reach(_, _)
Reach(ns, os) ==
  LET os2 == os \cup ({objOf[x] : x \in ns} \ {0})
      ns2 == ns \cup UNION {Sub(declOf[o]) : o \in os2}
  IN IF os2 = os /\ ns2 = ns THEN os ELSE Reach(ns2, os2)
Complete == phase = "done" => memoO = Reach(Sub(1), {})
\* what is printed with the file are the comments of the file's own nodes, nothing from outside it
OnlyFileComments == phase = "done" => fileComs = {x \in Sub(1) : com[x]}
=============================================================================
