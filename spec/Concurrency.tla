----------------------------- MODULE Concurrency -----------------------------
(***************************************************************************)
(* C16 -- goroutines decorating their own files while sharing one           *)
(* syntax-based identifier resolver (decorator/resolver/goast).             *)
(* Shared locations: "rr" (the RestorerResolver field, lazily defaulted)    *)
(* and "files" (the per-file import cache); filesM protects the cache.      *)
(* Every access carries the accessing goroutine's vector clock; Lock/Unlock *)
(* are the only synchronisation.  A race is a pair of conflicting accesses  *)
(* unordered by happens-before.                                             *)
(* InitNil: the resolver was made with goast.New() (field nil).             *)
(* LazyUnderLock: the default is installed inside the locked section (the   *)
(* repaired code) instead of before it (the pinned code).                   *)
(***************************************************************************)
EXTENDS Integers, Sequences, FiniteSets, TLC, Json

CONSTANTS Procs, Calls, InitNil, LazyUnderLock, EmitHist
VARIABLES pc, calls, vc, lockHolder, lockVC, rrSet, lastW, reads, cache, race, results, hist
vars == <<pc, calls, vc, lockHolder, lockVC, rrSet, lastW, reads, cache, race, results, hist>>
view == <<pc, calls, vc, lockHolder, lockVC, rrSet, lastW, reads, cache, race, results>>

Locs == {"rr", "files"}
Zero == [p \in Procs |-> 0]
Max(a, b) == IF a > b THEN a ELSE b
Join(a, b) == [p \in Procs |-> Max(a[p], b[p])]
Leq(a, b) == \A p \in Procs : a[p] <= b[p]

Init == /\ pc = [p \in Procs |-> "start"] /\ calls = [p \in Procs |-> 0]
        /\ vc = [p \in Procs |-> [q \in Procs |-> IF p = q THEN 1 ELSE 0]]
        /\ lockHolder = 0 /\ lockVC = Zero
        /\ rrSet = ~InitNil
        /\ lastW = [l \in Locs |-> Zero]
        /\ reads = [l \in Locs |-> [p \in Procs |-> 0]]
        /\ cache = {} /\ race = FALSE
        /\ results = [p \in Procs |-> <<>>] /\ hist = <<>>

Tick(p) == [vc EXCEPT ![p][p] = @ + 1]
DoRead(p, l) == /\ race' = (race \/ ~Leq(lastW[l], vc[p]))
                /\ reads' = [reads EXCEPT ![l][p] = vc[p][p]]
                /\ UNCHANGED lastW
DoWrite(p, l) == /\ race' = (race \/ ~Leq(lastW[l], vc[p]) \/ (\E q \in Procs : q # p /\ reads[l][q] > vc[p][q]))
                 /\ lastW' = [lastW EXCEPT ![l] = vc[p]]
                 /\ UNCHANGED reads
Step(p, from, to, name) == /\ pc[p] = from /\ pc' = [pc EXCEPT ![p] = to]
                           /\ hist' = Append(hist, [p |-> p, step |-> name])

\* ResolveIdent
Start(p) == /\ calls[p] < Calls /\ Step(p, "start", IF LazyUnderLock THEN "lock" ELSE "readrr", "start")
            /\ UNCHANGED <<calls, vc, lockHolder, lockVC, rrSet, lastW, reads, cache, race, results>>
ReadRR(p) == /\ Step(p, "readrr", IF rrSet THEN "lock" ELSE "writerr", "readrr") /\ DoRead(p, "rr")
             /\ vc' = Tick(p) /\ UNCHANGED <<calls, lockHolder, lockVC, rrSet, cache, results>>
WriteRR(p) == /\ Step(p, "writerr", "lock", "writerr") /\ DoWrite(p, "rr") /\ rrSet' = TRUE
              /\ vc' = Tick(p) /\ UNCHANGED <<calls, lockHolder, lockVC, cache, results>>
Lock(p) == /\ lockHolder = 0 /\ Step(p, "lock", IF LazyUnderLock THEN "lazyrr" ELSE "readfiles", "lock")
           /\ lockHolder' = p /\ vc' = [vc EXCEPT ![p] = Join(vc[p], lockVC)]
           /\ UNCHANGED <<calls, lockVC, rrSet, lastW, reads, cache, race, results>>
LazyRR(p) == /\ Step(p, "lazyrr", "readfiles", "default")
             /\ IF rrSet THEN DoRead(p, "rr") /\ UNCHANGED rrSet ELSE DoWrite(p, "rr") /\ rrSet' = TRUE
             /\ vc' = Tick(p) /\ UNCHANGED <<calls, lockHolder, lockVC, cache, results>>
ReadFiles(p) == /\ Step(p, "readfiles", IF p \in cache THEN "unlock" ELSE "store", IF p \in cache THEN "hit" ELSE "miss") /\ DoRead(p, "files")
                /\ vc' = Tick(p) /\ UNCHANGED <<calls, lockHolder, lockVC, rrSet, cache, results>>
Store(p) == /\ Step(p, "store", "unlock", "store") /\ DoWrite(p, "files") /\ cache' = cache \cup {p}
            /\ vc' = Tick(p) /\ UNCHANGED <<calls, lockHolder, lockVC, rrSet, results>>
Unlock(p) == /\ Step(p, "unlock", "start", "unlock") /\ lockHolder = p /\ lockHolder' = 0 /\ lockVC' = vc[p]
             /\ vc' = Tick(p) /\ calls' = [calls EXCEPT ![p] = @ + 1]
             /\ results' = [results EXCEPT ![p] = Append(@, p)]     \* each call answers from its own file's table
             /\ UNCHANGED <<rrSet, lastW, reads, cache, race>>
Next == \E p \in Procs : Start(p) \/ ReadRR(p) \/ WriteRR(p) \/ Lock(p) \/ LazyRR(p) \/ ReadFiles(p) \/ Store(p) \/ Unlock(p)
Spec == Init /\ [][Next]_vars

NoRace == ~race
MutualExclusion == \A p, q \in Procs : (p # q) => ~(pc[p] \in {"lazyrr", "readfiles", "store", "unlock"} /\ pc[q] \in {"lazyrr", "readfiles", "store", "unlock"})
\* every call's result is the one the same call gives alone
SameAsSequential == \A p \in Procs : \A k \in DOMAIN results[p] : results[p][k] = p
Finished == \A p \in Procs : pc[p] = "start" /\ calls[p] = Calls
Emit == (EmitHist /\ Finished) => PrintT("BEH " \o ToJson(hist))
=============================================================================
