----------------------------- MODULE ApplyNested -----------------------------
(***************************************************************************)
(* C14 -- dstutil.Apply on two nested lists: cursor operations issued at an  *)
(* element of the outer list and at the elements of the list beneath it, in  *)
(* one walk.  Apply.tla has the arithmetic of one list; what this module     *)
(* adds is the walk INTO an element between its pre and its post callback,   *)
(* with the outer iterator suspended meanwhile: an operation at one level    *)
(* must use that level's list and that level's iterator only, and the        *)
(* children that are walked are those of the node pre was called with, even  *)
(* when pre replaced or deleted it.                                          *)
(*                                                                          *)
(* outer     : the outer list; 1..N are the originals, values >= 100 were    *)
(*             inserted (they have no children)                              *)
(* inner[e]  : the list beneath original e; 10e+1 .. 10e+K are its originals *)
(* oi, ostep : the outer iterator;  ii, istep : the inner iterator           *)
(* phase     : oload -> opre -> iload -> (ipre -> ipost)* -> opost -> oload  *)
(* ocur/icur : the nodes the callbacks were called with                      *)
(* total     : cursor operations issued so far (bounded by MaxTotal)         *)
(***************************************************************************)
EXTENDS Integers, Sequences, FiniteSets, TLC, Json

CONSTANTS N, K, MaxTotal, MaxLen, AllowFalse, EmitHist

VARIABLES outer, inner, oi, ostep, ii, istep, phase, ocur, icur, ops, odel, idel, total, fresh, visits, hist, curOps

vars == <<outer, inner, oi, ostep, ii, istep, phase, ocur, icur, ops, odel, idel, total, fresh, visits, hist, curOps>>
view == <<outer, inner, oi, ostep, ii, istep, phase, ocur, icur, ops, odel, idel, total, fresh, visits>>

Orig == 1..N
Kid(e, j) == 10 * e + j
AllKids == {Kid(e, j) : e \in Orig, j \in 1..K}

Init == /\ outer = [i \in 1..N |-> i]
        /\ inner = [e \in Orig |-> [j \in 1..K |-> Kid(e, j)]]
        /\ oi = 1 /\ ostep = 1 /\ ii = 1 /\ istep = 1 /\ phase = "oload" /\ ocur = 0 /\ icur = 0
        /\ ops = 0 /\ odel = FALSE /\ idel = FALSE /\ total = 0 /\ fresh = 100
        /\ visits = [x \in Orig \cup AllKids |-> 0]
        /\ hist = <<>> /\ curOps = <<>>

RemoveAt(s, i) == [k \in 1..(Len(s) - 1) |-> IF k < i THEN s[k] ELSE s[k + 1]]
InsertAt(s, i, x) == [k \in 1..(Len(s) + 1) |-> IF k < i THEN s[k] ELSE IF k = i THEN x ELSE s[k - 1]]

Kids(e) == IF e \in Orig THEN inner[e] ELSE <<>>
Bump(x) == IF x \in DOMAIN visits THEN [visits EXCEPT ![x] = @ + 1] ELSE visits

OLoad ==
  /\ phase = "oload"
  /\ IF oi > Len(outer)
     THEN phase' = "done" /\ UNCHANGED <<ocur, ostep, ops, odel, curOps, visits>>
     ELSE /\ ocur' = outer[oi] /\ ostep' = 1 /\ ops' = 0 /\ odel' = FALSE /\ curOps' = <<>> /\ phase' = "opre"
          /\ visits' = Bump(outer[oi])
  /\ UNCHANGED <<outer, inner, oi, ii, istep, icur, idel, total, fresh, hist>>

ILoad ==
  /\ phase = "iload"
  /\ IF ii > Len(Kids(ocur))
     THEN phase' = "opost" /\ ops' = 0 /\ curOps' = <<>> /\ UNCHANGED <<icur, istep, idel, visits>>
     ELSE /\ icur' = Kids(ocur)[ii] /\ istep' = 1 /\ ops' = 0 /\ idel' = FALSE /\ curOps' = <<>> /\ phase' = "ipre"
          /\ visits' = Bump(Kids(ocur)[ii])
  /\ UNCHANGED <<outer, inner, oi, ostep, ii, ocur, odel, total, fresh, hist>>

AtOuter == phase \in {"opre", "opost"}
AtInner == phase \in {"ipre", "ipost"}
\* at most one operation per callback, none after a Delete issued for the same element (the
\* documented grey zone, K3); Apply.tla explores several operations per callback
CanOp == ops = 0 /\ total < MaxTotal /\ ((AtOuter /\ ~odel) \/ (AtInner /\ ~idel))
Note(op) == ops' = ops + 1 /\ total' = total + 1 /\ curOps' = Append(curOps, op)

\* ---- operations at the outer level: the outer list and the outer iterator only
ODelete == /\ AtOuter /\ CanOp /\ oi <= Len(outer)
           /\ outer' = RemoveAt(outer, oi) /\ ostep' = ostep - 1 /\ odel' = TRUE /\ Note("Delete")
           /\ UNCHANGED <<inner, oi, ii, istep, phase, ocur, icur, idel, fresh, visits, hist>>
OInsertAfter == /\ AtOuter /\ CanOp /\ oi <= Len(outer) /\ Len(outer) < MaxLen
                /\ outer' = InsertAt(outer, oi + 1, fresh) /\ ostep' = ostep + 1 /\ fresh' = fresh + 1 /\ Note("InsertAfter")
                /\ UNCHANGED <<inner, oi, ii, istep, phase, ocur, icur, odel, idel, visits, hist>>
OInsertBefore == /\ AtOuter /\ CanOp /\ oi <= Len(outer) /\ Len(outer) < MaxLen
                 /\ outer' = InsertAt(outer, oi, fresh) /\ oi' = oi + 1 /\ fresh' = fresh + 1 /\ Note("InsertBefore")
                 /\ UNCHANGED <<inner, ostep, ii, istep, phase, ocur, icur, odel, idel, visits, hist>>
OReplace == /\ AtOuter /\ CanOp /\ oi <= Len(outer)
            /\ outer' = [outer EXCEPT ![oi] = fresh] /\ fresh' = fresh + 1 /\ Note("Replace")
            /\ UNCHANGED <<inner, oi, ostep, ii, istep, phase, ocur, icur, odel, idel, visits, hist>>

\* ---- operations at the inner level: the list beneath ocur and the inner iterator only
IList == inner[ocur]
IDelete == /\ AtInner /\ CanOp /\ ii <= Len(IList)
           /\ inner' = [inner EXCEPT ![ocur] = RemoveAt(@, ii)] /\ istep' = istep - 1 /\ idel' = TRUE /\ Note("Delete")
           /\ UNCHANGED <<outer, oi, ostep, ii, phase, ocur, icur, odel, fresh, visits, hist>>
IInsertAfter == /\ AtInner /\ CanOp /\ ii <= Len(IList) /\ Len(IList) < MaxLen
                /\ inner' = [inner EXCEPT ![ocur] = InsertAt(@, ii + 1, fresh)] /\ istep' = istep + 1 /\ fresh' = fresh + 1 /\ Note("InsertAfter")
                /\ UNCHANGED <<outer, oi, ostep, ii, phase, ocur, icur, odel, idel, visits, hist>>
IInsertBefore == /\ AtInner /\ CanOp /\ ii <= Len(IList) /\ Len(IList) < MaxLen
                 /\ inner' = [inner EXCEPT ![ocur] = InsertAt(@, ii, fresh)] /\ ii' = ii + 1 /\ fresh' = fresh + 1 /\ Note("InsertBefore")
                 /\ UNCHANGED <<outer, oi, ostep, istep, phase, ocur, icur, odel, idel, visits, hist>>
IReplace == /\ AtInner /\ CanOp /\ ii <= Len(IList)
            /\ inner' = [inner EXCEPT ![ocur] = [@ EXCEPT ![ii] = fresh]] /\ fresh' = fresh + 1 /\ Note("Replace")
            /\ UNCHANGED <<outer, oi, ostep, ii, istep, phase, ocur, icur, odel, idel, visits, hist>>

Rec(ret) == [cb |-> (IF phase \in {"opre", "ipre"} THEN "pre" ELSE "post"), lvl |-> (IF AtOuter THEN 1 ELSE 2),
             elem |-> (IF AtOuter THEN ocur ELSE icur), ops |-> curOps, ret |-> ret,
             outer |-> outer, inner |-> Kids(ocur)]

\* pre at the outer level: true -> walk the children of the node pre was called with; false -> next element
EndOPre(ret) ==
  /\ phase = "opre" /\ (ret \/ AllowFalse)
  /\ hist' = Append(hist, Rec(ret))
  /\ IF ret THEN phase' = "iload" /\ ii' = 1 /\ UNCHANGED oi
            ELSE phase' = "oload" /\ oi' = oi + ostep /\ UNCHANGED ii
  /\ UNCHANGED <<outer, inner, ostep, istep, ocur, icur, ops, odel, idel, total, fresh, visits, curOps>>
EndIPre(ret) ==
  /\ phase = "ipre" /\ (ret \/ AllowFalse)
  /\ hist' = Append(hist, Rec(ret))
  /\ IF ret THEN phase' = "ipost" /\ UNCHANGED ii
            ELSE phase' = "iload" /\ ii' = ii + istep
  /\ ops' = 0 /\ curOps' = <<>>
  /\ UNCHANGED <<outer, inner, oi, ostep, istep, ocur, icur, odel, idel, total, fresh, visits>>
EndIPost(ret) ==
  /\ phase = "ipost" /\ (ret \/ AllowFalse)
  /\ hist' = Append(hist, Rec(ret))
  /\ IF ret THEN phase' = "iload" /\ ii' = ii + istep
            ELSE phase' = "aborted" /\ UNCHANGED ii
  /\ UNCHANGED <<outer, inner, oi, ostep, istep, ocur, icur, ops, odel, idel, total, fresh, visits, curOps>>
EndOPost(ret) ==
  /\ phase = "opost" /\ (ret \/ AllowFalse)
  /\ hist' = Append(hist, Rec(ret))
  /\ IF ret THEN phase' = "oload" /\ oi' = oi + ostep
            ELSE phase' = "aborted" /\ UNCHANGED oi
  /\ UNCHANGED <<outer, inner, ostep, ii, istep, ocur, icur, ops, odel, idel, total, fresh, visits, curOps>>

Next == OLoad \/ ILoad
        \/ ODelete \/ OInsertAfter \/ OInsertBefore \/ OReplace
        \/ IDelete \/ IInsertAfter \/ IInsertBefore \/ IReplace
        \/ (\E r \in BOOLEAN : EndOPre(r) \/ EndIPre(r) \/ EndIPost(r) \/ EndOPost(r))
Spec == Init /\ [][Next]_vars

-----------------------------------------------------------------------------
\* no original, at either level, is visited twice; inserted nodes are never visited
VisitedAtMostOnce == \A x \in DOMAIN visits : visits[x] <= 1
InsertedNeverVisited == ocur < 100 /\ icur < 100
\* a full walk visits every outer original, and every child of every outer original whose pre returned true
NothingSkipped == (phase = "done" /\ ~AllowFalse) =>
                    /\ \A e \in Orig : visits[e] = 1
                    /\ \A c \in AllKids : visits[c] = 1
\* the cursor locates the node when a callback starts
CursorLocates == /\ (phase = "opre" /\ ops = 0) => (oi <= Len(outer) /\ outer[oi] = ocur)
                 /\ (phase = "ipre" /\ ops = 0) => (ii <= Len(IList) /\ IList[ii] = icur)
\* an operation at one level leaves the other level's list alone (by construction of the actions;
\* stated so that the replay has something to compare both lists with)
Finished == phase \in {"done", "aborted"}
Emit == (EmitHist /\ Finished) => PrintT("BEH " \o ToJson([hist |-> hist, outer |-> outer, inner |-> [e \in Orig |-> inner[e]], ops |-> total, end |-> phase]))
=============================================================================
