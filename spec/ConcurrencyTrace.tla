--------------------------- MODULE ConcurrencyTrace ---------------------------
(***************************************************************************)
(* C16, code -> specification: the steps of ResolveIdent on a shared        *)
(* resolver, recorded by the goast hooks with a global sequence number      *)
(* (taken inside the step, i.e. under the lock for the locked steps):       *)
(*   {"seq":n,"p":goroutine,"step":"start|lock|hit|miss|store|unlock"}      *)
(*   {"step":"reset"} starts a new round with a fresh resolver              *)
(* The lazily installed default has no hook of its own: "lock" is Lock      *)
(* followed by LazyRR.                                                      *)
(***************************************************************************)
EXTENDS Concurrency

VARIABLE l
Trace == ndJsonDeserialize("trace.ndjson")
Ev == Trace[l]
tvars == <<vars, l>>

TInit == Init /\ l = 1
Consume == l <= Len(Trace) /\ l' = l + 1

Reset == /\ Consume /\ Ev.step = "reset"
         /\ \A p \in Procs : pc[p] = "start"
         /\ pc' = [p \in Procs |-> "start"] /\ calls' = [p \in Procs |-> 0]
         /\ vc' = [p \in Procs |-> [q \in Procs |-> IF p = q THEN 1 ELSE 0]]
         /\ lockHolder' = 0 /\ lockVC' = Zero /\ rrSet' = ~InitNil
         /\ lastW' = [x \in Locs |-> Zero] /\ reads' = [x \in Locs |-> [p \in Procs |-> 0]]
         /\ cache' = {} /\ race' = race /\ results' = [p \in Procs |-> <<>>] /\ hist' = <<>>

\* Lock immediately followed by the default being read or installed
LockD(p) ==
  /\ lockHolder = 0 /\ pc[p] = "lock" /\ pc' = [pc EXCEPT ![p] = "readfiles"]
  /\ lockHolder' = p
  /\ LET v == Join(vc[p], lockVC) IN
       /\ vc' = [vc EXCEPT ![p] = [v EXCEPT ![p] = @ + 1]]
       /\ IF rrSet
          THEN /\ race' = (race \/ ~Leq(lastW["rr"], v))
               /\ reads' = [reads EXCEPT !["rr"][p] = v[p]] /\ UNCHANGED <<lastW, rrSet>>
          ELSE /\ race' = (race \/ ~Leq(lastW["rr"], v) \/ (\E q \in Procs : q # p /\ reads["rr"][q] > v[q]))
               /\ lastW' = [lastW EXCEPT !["rr"] = v] /\ rrSet' = TRUE /\ UNCHANGED reads
  /\ hist' = hist
  /\ UNCHANGED <<calls, lockVC, cache, results>>

TStart  == Consume /\ Ev.step = "start" /\ Start(Ev.p)
TLock   == Consume /\ Ev.step = "lock" /\ LockD(Ev.p)
THit    == Consume /\ Ev.step = "hit" /\ Ev.p \in cache /\ ReadFiles(Ev.p)
TMiss   == Consume /\ Ev.step = "miss" /\ Ev.p \notin cache /\ ReadFiles(Ev.p)
TStore  == Consume /\ Ev.step = "store" /\ Store(Ev.p)
TUnlock == Consume /\ Ev.step = "unlock" /\ Unlock(Ev.p)
TNext == Reset \/ TStart \/ TLock \/ THit \/ TMiss \/ TStore \/ TUnlock

TNoRace == NoRace
TMutex == MutualExclusion
TView == l
Accepted == TLCGet("stats").diameter = Len(Trace) + 1
=============================================================================
