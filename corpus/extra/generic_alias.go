package extra

type Vec[T any] []T

type Alias[T any] = Vec[T]

type Plain = Vec[int]
