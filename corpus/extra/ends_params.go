package p

func head() {}

func tail(
	a int,
	b int,
)
