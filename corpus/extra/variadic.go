package extra

// Variadic calls laid out over several lines: go/printer decides about the comma behind "..." from the
// lines of the ellipsis and of the closing parenthesis.

func variadic(a int, xs []int) {
	f(a,
		xs...,
	)
	f(
		xs...,
	)
	f(a, xs...)
	f(a,
		xs...)
	f(a, xs... /* after */)
	f(a, xs..., // trailing
	)
}
