package p

import (
	"example.com/cfg"
	"example.com/q"
)

func f(xs []int, ch chan int) {
	for cfg.Index = range xs {
	}
	for _, cfg.Current = range xs {
	}
	for cfg.Index, cfg.Current = range cfg.List {
	}
	cfg.Count++
	cfg.Count += q.Step
	ch <- cfg.Count
	cfg.Table[q.Key] = cfg.Values[q.Lo:q.Hi:q.Max]
	switch cfg.Mode {
	case q.A, q.B:
	}
	switch v := cfg.Any.(type) {
	case q.T, *q.U:
		_ = v
	}
	switch cfg.Any.(type) {
	}
	select {
	case cfg.Ch <- q.Step:
	case cfg.Count = <-cfg.Ch:
	case v, ok := <-q.Ch:
		_, _ = v, ok
	}
	go cfg.Run(q.Step)
	defer cfg.Stop()
	_ = q.T{F: cfg.Count}
	_ = map[q.K]cfg.V{q.Key: cfg.Val}
	_ = [...]cfg.V{q.Idx: cfg.Val}
	_ = &cfg.Val
	_ = *cfg.Ptr
	_ = -cfg.Count
	_ = cfg.Fn(q.Args...)
	_ = cfg.Gen[q.T]
	_ = cfg.Gen2[q.T, cfg.V]
	_ = cfg.Any.(q.T)
	_ = func(a cfg.V, b ...q.T) (r q.U) { return }
	var _ cfg.Iface = (*q.T)(nil)
	var _ chan<- cfg.V
	var _ [q.N]cfg.V
	var _ struct {
		cfg.Embedded
		F q.T `tag`
	}
	var _ interface {
		cfg.Iface
		M(q.T) cfg.V
	}
	if cfg.Ok && !q.Ok {
	} else if v := cfg.Val; v != q.Zero {
	}
L:
	for cfg.I = 0; cfg.I < q.N; cfg.I++ {
		continue L
	}
	cfg.A, q.B = q.B, cfg.A
	return
}

type t[P cfg.Constraint] struct{ p P }

func (r t[P]) m(x cfg.V) q.T { return q.Conv(x) }
