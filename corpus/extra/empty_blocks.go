package p

func f() {

}

func g(n int) {
	for n > 0 {

	}
	if n > 1 {
		// TODO

	}
	switch {

	}
	select {}
	{

	}
	_ = func() {

	}
}

func h() {
	// only a comment

}

type T struct {
}

type I interface {
}

var x = []int{}

var y = f()
