package extra

// A raw string that spans several lines as the last argument of a call.

var rawArg = f(1, `first
second
third
`)

func rawArgCall() {
	g(rawArg, `
	a
	b
`)
}
