package extra

import (
	"path"
	pathpkg "path"
)

var _ = path.Base("a/b") + pathpkg.Dir("a/b")
