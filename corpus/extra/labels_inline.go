package p

func f(n int) {
M: for {
		break M
	}
P: // retry from here
	for n > 0 {
		continue P
	}
N: {
		n++
	}
Q: /* block */ n--
	goto Q
}
