// Package extra: two import groups separated by an empty line.
package extra

import (
	"strings"
	"unicode/utf8"

	"fmt"
	"os"
)

func first() string { return fmt.Sprint(os.Args, utf8.RuneLen('x'), strings.Count("a", "a")) }
