// Paket größe: Bezeichner, Zeichenketten und Kommentare jenseits von ASCII – 日本語のコメント.
package größe

import (
	"fmt"
	"strings"
)

/*
Лицензия: этот файл существует только для проверки.
日本語日本語日本語日本語日本語日本語
ÄÖÜäöüß ÄÖÜäöüß ÄÖÜäöüß
*/

// Schlüsselgröße ist die Länge eines Schlüssels © → ∞.
const Schlüsselgröße = 32 // größer als nötig ☺☺☺☺

// 日本語 は名前です。
var 日本語 = map[string]int{
	"キー":     1, // 一
	"äöüäöü": 2, /* zwei */
	"→":      3,
}

var skript = strings.TrimSpace(`
日本語日本語日本語日本語日本語日本語日本語日本語
ÄÖÜ
`) // hinter dem Rohtext

const zweizeilig = `ääääääääääääääää
b`

type Maß struct {
	Größe  int      // in Metern
	Wörter []string /* viele */
	キー     map[Schlüssel]Größenmaß
}

type (
	Schlüssel string
	Größenmaß float64
)

func (m Maß) Länge() int { return len(m.Wörter) }

func größenmaß(größe Maß, schlüsselgröße map[Schlüssel]int) (ergebnis []rune) {
	// Füße → Meter
	for i := 0; i < größe.Größe; /* Bedingung */ i++ {
		ergebnis = append(ergebnis, 'ä', '日', 'ä', '☺')
	}
	wörter := größe. /* hinter dem Punkt */ Wörter
	teil := wörter[größe.Größe: /* bis */ len(wörter)]
	fmt.Println(teil, schlüsselgröße["schlüssel"], 日本語["キー"]) // Ausgabe ©
	switch größe.Länge() {
	case 1: // eins – ①
		fmt.Println("eins – ①")
		// hängt am Fall ①
	case 2:
		/* zwei – ② */
		fmt.Println(`zwei
② ②②②②②②②②②②②②②②②②②②`, "danach")
	}
	return ergebnis
}
