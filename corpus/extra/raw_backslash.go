package p

const script = `line one \
line two \
end`

// after the script
var x = 1

const plain = `a
b`

var y = 2 // trailing
