package p

// Number is a constraint with approximation terms.
type Number interface {
	~int | ~int64 | ~float64
}

// SortBy: the constraint of S names the later type parameter E.
func SortBy[S ~[]E, E Number | ~string](s S, less func(a, b E) bool) S {
outer:
	for i := range s {
		for j := i + 1; j < len(s); j++ {
			if less(s[j], s[i]) {
				s[i], s[j] = s[j], s[i]
				continue outer
			}
		}
	}
	return s
}

// Graph: both type parameters refer to each other.
type Graph[N interface{ Edges() []E }, E interface {
	From() N
	To() N
}] struct {
	nodes []N
	edges map[string][]E
}

func (g *Graph[N, E]) Add(n N, es ...E) {
	g.nodes = append(g.nodes, n)
	for _, e := range es {
		g.edges["k"] = append(g.edges["k"], e)
	}
}

func Keys[M ~map[K]V, K comparable, V any](m M) (ks []K) {
	for k := range m {
		ks = append(ks, k)
	}
	return
}
