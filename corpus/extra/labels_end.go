// Package lab: labels that stand directly in front of a closing brace (the parser invents an empty
// statement for them), labels reached by backward and forward jumps.
package lab

func walk(n int) {
	total := 0
outer:
	for i := 0; i < n; i++ {
		for j := 0; j < n; j++ {
			if j == i {
				continue outer
			}
			if j > i {
				goto next
			}
			total += j
		}
	next:
	}
	if total > 0 {
		goto done
	}
	total = -1
done:
}

func retry(f func() bool) {
again:
	if !f() {
		goto again
	}
}
