package extra

// gofmt keeps a comment that stands in the column of the closing bracket below it where it is.

var (
	a1 = 1

// a comment in column 1 in front of the closing parenthesis of a group
)

func closing() {
	g(
		1,
	// a comment aligned with the closing parenthesis of a call
	)
}
