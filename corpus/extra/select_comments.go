// Package sel: select statements whose clauses end in comments at the indentation of their bodies.
package sel

import (
	"context"
	"log"
	"time"
)

func drain(ctx context.Context, in <-chan int, out chan<- int, tick *time.Ticker) {
	for {
		select {
		case v, ok := <-in:
			if !ok {
				return
			}
			log.Println(v)
			// keep draining until the channel is closed
		case now := <-tick.C:
			log.Println(now)
			// one tick at a time

			// (and a second group)
		case out <- 1:
			// nothing else to do
		case <-ctx.Done():
			log.Println(ctx.Err()) // trailing
			// the context is gone
		default:
			time.Sleep(time.Millisecond)
			/* block style */
		}
	}
}

func classify(x interface{}) string {
	switch v := x.(type) {
	case int:
		_ = v
		// an int
	case string, []byte:
		// text
	case nil:
	default:
		return "other"
		// unreachable
	}
	switch {
	case x == nil:
		// nothing
	case x != nil:
		log.Println(x)
		// something
	}
	return ""
}
