// Package extra: a comment group and directive lines separated by an empty line.
package extra

import (
	"fmt"
)

var zero2 = fmt.Sprint()

// A free-standing comment group, separated from the directive below by an empty line.

//go:noinline
func second() int { return 2 }
