// Paket qual: qualifizierte Bezeichner, deren Namen nicht mit einem ASCII-Buchstaben beginnen.
package qual

import (
	"fmt"

	größe "example.com/bibliothek/maße"
	"example.com/bibliothek/wörter"
)

// Ärger ist lokal; wörter.Ärger nicht.
var Ärger = wörter.Ärger + wörter.Ωmega // beide exportiert

var plain = wörter.Plain

type Édition struct {
	größe.Édition // eingebettet, qualifiziert
	Länge         größe.Ωmaß
	liste         []wörter.Österreich
}

func (é Édition) Ausgabe(ü wörter.Übung) (größe.Ärmel, error) {
	fmt.Println(wörter.Ärger, wörter. /* hinter dem Punkt */ Ωmega, plain, é.Länge)
	var ä größe.Ärmel = größe.Ärmel{Länge: größe.Ωmaß(len(é.liste))}
	switch ü.(type) {
	case wörter.Österreich, *größe.Édition:
		return ä, nil
	}
	return größe.Ärmel{}, wörter.Fehler("schade") // Ende
}
