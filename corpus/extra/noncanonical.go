package extra

// Legal Go that gofmt would write differently: the parser keeps what the formatter drops.

import ()

import (
	"os"
)

var ()

const ()

type ()

func emptyResults() () {}

func (r recv) emptyResultsMethod(a int) () { return }

type recv struct{ f (int); g [](chan int) }

func parens() {
	var x (int) = ((1))
	y := (x)
	for ; ; {
		break
	}
	for ; x < 2; {
		x++
	}
	switch ; x {
	case (1), ((2)):
	}
	if ; x > 0 {
	}
	s := []int{1, 2, 3,}
	_ = s[:]
	_ = s[0:]
	_ = s[:len(s)]
	_ = s[0:1:2]
	_ = y
	_ = os.Args
	var c <-chan int
	var d chan<- int
	var e <-chan /* elem */ int
	_, _, _ = c, d, e
	x += 1
	x |= 2
	x <<= 1
	go func() {}()
	defer func() () {}()
	L: for {
		break L
	}
}

type iface interface { m() (); n(a int,) }
