// Package last: a qualified identifier as the last element of a list that ends on a line of its own.
package last

import (
	"fmt"
	"math"
	"os"
)

var limit = max(
	1,
	math.Pi,
)

var table = []float64{
	math.E,
	math.Pi,
}

type pair struct {
	a, b float64
}

var p = pair{
	a: math.E,
	b: math.Pi,
}

func show(
	w *os.File,
	mode os.FileMode,
) (
	n int,
	err error,
) {
	return fmt.Fprintln(
		w,
		mode,
		os.Args,
	)
}

func index[
	K comparable,
	V fmt.Stringer,
](m map[K]V) {
	switch any(m).(type) {
	case fmt.Stringer,
		fmt.Formatter:
	}
}
