// Package tables: literals and calls laid out as tables (several elements per line, several lines).
package tables

var codes = map[string]int{
	"a": 1, "b": 2, "c": 3,
	"d": 4, "e": 5,
}

var points = []struct{ X, Y int }{
	{1, 2}, {3, 4},
	{5, 6}, {X: 7,
		Y: 8},
}

type pair struct{ A, B *int }

var one, two = 1, 2

var p = pair{A: &one,
	B: &two}

var refs = []*int{
	&one, &two,
	&one, 3: &two}

var signs = [...]int{-1, +2,
	^3, -4,
}

func calls(ch chan int, fs ...func(int) int) {
	calls(ch, func(i int) int { return i },
		func(i int) int { return -i },
	)
	calls(ch,
		fs[1:]...,
	)
	_ = []int{<-ch, <-ch,
		<-ch}
	_ = [][]int{{1, 2}, {3,
		4}, {5, 6},
	}
	_ = map[[2]int][]string{{1, 2}: {"a", "b"},
		{3, 4}: {"c"}}
}
