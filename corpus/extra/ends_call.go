package p

func g(a, b int) int { return a + b }

var tail = g(
	1,
	2,
)
