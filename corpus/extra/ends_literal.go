package p

var head = 1

var tail = []int{
	1, // one
	2,
}
