// Package extra: a comment group that is not the doc comment of the declaration below it.
package extra

import (
	"fmt"
)

var zero1 = fmt.Sprint()

// A free-standing comment group:
//   indented text
// * a list item
//   with a continuation

func third() int { return 3 }
