// Package template exercises every dst node type with every optional-child combination.
package template

import "fmt"

import (
	"os"
	str "strings"

	_ "embed"
)

var a []int
var i, j = 1, 2
var b bool
var f interface{} = 1
var p = &i
var c chan int
var (
	v1     int
	v2, v3 int = 1, 2
	v4         = "s"
)

const k0 = 0

const (
	k1 = iota
	k2
	k3 float64 = 3.5e2
	k4         = 'c'
	k5         = `raw
string`
	k6 = 0x1F + 1i
)

type A struct {
	A    int `a:"a"`
	B, C string
	*E
	fmt.Stringer
	D struct{ x, y int }
}

type (
	E                       struct{}
	A1                      = A
	G1[P any, Q comparable] struct {
		p P
		q Q
	}
	G2[T interface{ ~int | ~string }] []T
)

type R [1]int
type R2 [...]int
type S []string
type T func(a int) (b int)
type T0 func()
type T2 func(int, ...string) (int, error)
type U interface {
	A()
	B(x int) (y int)
	fmt.Stringer
	~int | ~uint
}
type U0 interface{}
type V map[int]string
type W chan int
type X <-chan int
type Y chan<- int
type Z *int

func B(a ...int) {}

var C = func(a int, b ...int) (c int) { return 0 }
var D = A{A: 0}
var D1 = []int{1, 2, 3}
var D2 = [...]string{0: "a", 2: "c"}
var D3 = map[string]A{"k": {A: 1}}
var D4 = &A{}
var D5 = [][]int{
	{1, 2},
	{3},
}
var E1 = (1 + 1) / 2
var F = tt.F()
var G = []int{0}[0]
var H = []int{0, 1, 2}[1:2:3]
var H1 = []int{0, 1, 2}[1:2]
var H2 = []int{0}[:]
var H3 = []int{0}[1:]
var H4 = []int{0, 1, 2}[:2]
var H5 = []int{0, 1, 2}[:2:3]
var J = f.(int)
var L = C(0, []int{}...)
var L1 = C(0)
var L2 = fmt.Sprintf(
	"%d %d",
	1,
	2,
)
var N = *p
var O = ^1
var O1 = -i
var O2 = !b
var O3 = <-c
var P = 1 & 2
var P1 = 1 + 2*3 - 4/5%6<<7>>8&^9 | 10 ^ 11
var P2 = b && !b || i < j && i >= j
var Q = map[string]string{
	"a": "a",
}
var G3 = G1[int, string]{}
var G4 = G2[int]{1}

func Z() {
A:
	print("Stmt")
	goto A
	i++
	fmt.Print()
	c <- 0
	i--
	i = 1
	i, j = j, i
	i += 2
	x, y := 1, 2
	go func() {}()
	defer func() {}()
	func() int {
		return 1
	}()
	func() (int, int) {
		return 1, 2
	}()
	if true {
		i++
	}
	func() { i++ }()
	if a := b; a {
		i++
	} else {
		i++
	}
	if i > 0 {
		i++
	} else if i < 0 {
		i--
	} else {
		i = 0
	}
	switch i {
	case 1:
		i++
	case 2, 3:
		fallthrough
	default:
	}
	switch {
	}
	switch a := i; a {
	}
	switch a := i; {
	case a > 0:
	}
	switch f.(type) {
	}
	switch g := f.(type) {
	case int:
		print(g)
	case string, bool:
	default:
	}
	switch g := f; g := g.(type) {
	case nil:
		print(g)
	}
	select {
	case a := <-c:
		print(a)
	case c <- 1:
	case <-c:
	default:
		print()
	}
	select {}
	for {
		i++
		break
	}
	for i < 1 {
		i++
		continue
	}
	for i = 0; i < 10; i++ {
		i++
	}
	for i := 0; ; {
		_ = i
	}
	for ; ; i++ {
	}
	for i < 1 {
	}
	for range a {
	}
	for k := range a {
		print(k)
	}
	for k, v := range a {
		print(k, v)
	}
	for k, v = range a {
	}
	for range 10 {
	}
	var (
		j1 = 1
	)
	var k1, l1 = 1, 2
	var m1, n1 int = 1, 2
	var o1 int
	print(j1, k1, l1, m1, n1, o1, x, y)
	type (
		T1 []int
	)
	type T2 = T1
	type T3[P any, Q any] []P
	var T4 T3[int, string]
	const (
		a1, b1 = 1, 2
		c1     = 3
	)
	const d1 = 1
	print(T4)
	{
		i++
	}
	{
	}

outer:
	for {
		break outer
	}
	var _ = struct{ a int }{a: 1}
	var _ = func(x int) func() int { return func() int { return x } }(1)()
	var _ = a[i:j]
	var _ = (*int)(nil)
	var _ = []func(){func() {}}
	var _ = G1[int, string]{p: 1}.p
	_ = tt.F
	_ = os.Args[1:]
	_ = str.Repeat("a", 2)
	return
}

func d(d, e int) {
	return
}

func TP[P any](a int) (b P) {
	return b
}

func TP2[K comparable, V any](m map[K]V) []K { return nil }

func (a *A) e(d, e int) {
	return
}

func (a *A) g(d, e int) (f, g int) {
	return
}

func (A) h() {}

func (g G1[P, Q]) m(P) Q { return g.q }

func ext(x int) int

type TT int

func (TT) F() int { return 0 }

var tt TT
